#![no_main]
use libfuzzer_sys::fuzz_target;

fuzz_target!(|data: &[u8]| {
    vp::fuzzing::c06_xpath(data);
});
