//! XTree / reference values <-> JSON (cases carry the reference tree and the expected value)

use serde_json::{json, Value as Json};
use vp_xref::tree::{Kind, XNode, XTree};
use vp_xref::Value;

fn kind_s(k: &Kind) -> &'static str {
    match k {
        Kind::Root => "root",
        Kind::Element => "element",
        Kind::Attribute => "attribute",
        Kind::Namespace => "namespace",
        Kind::Text => "text",
        Kind::Comment => "comment",
        Kind::PI => "pi",
    }
}

fn s_kind(s: &str) -> Kind {
    match s {
        "root" => Kind::Root,
        "element" => Kind::Element,
        "attribute" => Kind::Attribute,
        "namespace" => Kind::Namespace,
        "text" => Kind::Text,
        "comment" => Kind::Comment,
        _ => Kind::PI,
    }
}

pub fn tree_to_json(t: &XTree) -> Json {
    Json::Array(
        t.nodes
            .iter()
            .map(|n| json!([kind_s(&n.kind), n.prefix, n.local, n.uri, n.value, n.parent, n.children, n.attrs, n.nss]))
            .collect(),
    )
}

pub fn tree_from_json(j: &Json) -> Option<XTree> {
    let mut nodes = vec![];
    for n in j.as_array()? {
        let a = n.as_array()?;
        let us = |v: &Json| -> Vec<usize> { v.as_array().map(|x| x.iter().filter_map(|y| y.as_u64().map(|z| z as usize)).collect()).unwrap_or_default() };
        nodes.push(XNode {
            kind: s_kind(a[0].as_str()?),
            prefix: a[1].as_str().map(|s| s.to_string()),
            local: a[2].as_str()?.to_string(),
            uri: a[3].as_str().map(|s| s.to_string()),
            value: a[4].as_str()?.to_string(),
            parent: a[5].as_u64().map(|v| v as usize),
            children: us(&a[6]),
            attrs: us(&a[7]),
            nss: us(&a[8]),
        });
    }
    Some(XTree { nodes })
}

pub fn value_to_json(v: &Result<Value, vp_xref::EvalError>) -> Json {
    match v {
        Ok(Value::NodeSet(ns)) => json!({"t": "nodeset", "v": ns}),
        Ok(Value::Bool(b)) => json!({"t": "bool", "v": b}),
        Ok(Value::Num(n)) => json!({"t": "num", "bits": format!("{:016x}", n.to_bits()), "v": vp_xref::scalar::number_to_string(*n)}),
        Ok(Value::Str(s)) => json!({"t": "str", "v": s}),
        Err(e) => json!({"t": "error", "v": format!("{:?}", e)}),
    }
}

pub fn num_of(j: &Json) -> f64 {
    u64::from_str_radix(j["bits"].as_str().unwrap_or("0"), 16).map(f64::from_bits).unwrap_or(f64::NAN)
}
