//! Alignment of the library's DOM (merged-text view) with the reference XPath tree, so that node-sets
//! returned by the library can be compared with the reference evaluator's index vectors.

use std::collections::HashMap;
use vp_xref::tree::{Kind, XTree};
use xml_dom::{AsExpandedName, AsNode, Attr, CharacterData, NamedNodeMap, Node, NodeList, ProcessingInstruction, XmlDocument, XmlNode};

/// (node id, class) -> index in the XTree; class 0 = ordinary node, 1 = attribute
pub type NodeMap = HashMap<(usize, u8), usize>;

pub fn class_of(n: &XmlNode) -> u8 {
    match n {
        XmlNode::Attribute(_) => 1,
        XmlNode::Namespace(_) => 2,
        _ => 0,
    }
}

pub fn align(doc: &XmlDocument, tree: &XTree) -> Result<NodeMap, String> {
    let mut map = NodeMap::new();
    align_node(&doc.as_node(), tree, 0, &mut map, 0)?;
    Ok(map)
}

fn align_node(n: &XmlNode, t: &XTree, i: usize, map: &mut NodeMap, depth: usize) -> Result<(), String> {
    if depth > 2000 {
        return Err("too deep".into());
    }
    let x = &t.nodes[i];
    map.insert((n.id(), class_of(n)), i);
    match (&x.kind, n) {
        (Kind::Root, XmlNode::Document(_)) | (Kind::Element, XmlNode::Element(_)) => {}
        (Kind::Text, XmlNode::ExpandedText(v)) => {
            if v.data().unwrap_or_default() != x.value {
                return Err(format!("text #{}: {:?} vs {:?}", i, v.data().unwrap_or_default(), x.value));
            }
            return Ok(());
        }
        (Kind::Text, XmlNode::Text(v)) => {
            if v.data().unwrap_or_default() != x.value {
                return Err(format!("text #{}", i));
            }
            return Ok(());
        }
        (Kind::Comment, XmlNode::Comment(v)) => {
            if v.data().unwrap_or_default() != x.value {
                return Err(format!("comment #{}", i));
            }
            return Ok(());
        }
        (Kind::PI, XmlNode::PI(v)) => {
            if v.target() != x.local || v.data() != x.value {
                return Err(format!("pi #{}", i));
            }
            return Ok(());
        }
        (k, other) => return Err(format!("node #{}: reference {:?}, library {}", i, k, crate::gen::hist::kind_name(other))),
    }
    if let (Kind::Element, XmlNode::Element(e)) = (&x.kind, n) {
        let (local, uri) = match e.as_expanded_name() {
            Ok(Some((l, _, u))) => (l, u),
            _ => return Err(format!("element #{} has no expanded name", i)),
        };
        if local != x.local || uri != x.uri {
            return Err(format!("element #{}: name {:?}/{:?} vs {:?}/{:?}", i, local, uri, x.local, x.uri));
        }
        let attrs: Vec<xml_dom::XmlAttr> = e.attributes().map(|m| m.iter().collect()).unwrap_or_default();
        if attrs.len() != x.attrs.len() {
            return Err(format!("element #{}: {} attributes vs {}", i, attrs.len(), x.attrs.len()));
        }
        for ai in &x.attrs {
            let xa = &t.nodes[*ai];
            let found = attrs.iter().find(|a| match a.as_expanded_name() {
                Ok(Some((l, _, u))) => l == xa.local && u == xa.uri,
                _ => false,
            });
            match found {
                Some(a) => {
                    if a.value().unwrap_or_default() != xa.value {
                        return Err(format!("attribute #{} value {:?} vs {:?}", ai, a.value(), xa.value));
                    }
                    // a DTD-defaulted attribute node has id 0 (made afresh on every access): it cannot be mapped, and a
                    // node-set that contains one shows up as "unmapped" in the comparison
                    if a.as_node().id() != 0 {
                        map.insert((a.as_node().id(), 1), *ai);
                    }
                }
                None => return Err(format!("attribute #{} ({}) not found", ai, xa.local)),
            }
        }
    }
    // children: the library lists the DOCTYPE as a child of the document, the XPath data model has none
    let kids: Vec<XmlNode> = n.child_nodes().iter().filter(|k| !matches!(k, XmlNode::DocumentType(_))).collect();
    // empty merged text nodes (reference to an entity with empty replacement text) do not exist in the data model
    let kids: Vec<XmlNode> = kids
        .into_iter()
        .filter(|k| match k {
            XmlNode::ExpandedText(v) => !v.data().unwrap_or_default().is_empty(),
            _ => true,
        })
        .collect();
    if kids.len() != x.children.len() {
        return Err(format!("node #{}: {} children vs {}", i, kids.len(), x.children.len()));
    }
    for (k, ci) in kids.iter().zip(x.children.iter()) {
        align_node(k, t, *ci, map, depth + 1)?;
    }
    Ok(())
}
