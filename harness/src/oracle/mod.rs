pub mod chars;
pub mod canon;
pub mod external;
pub mod xmap;
pub mod xjson;
pub mod domindex;
