pub mod chars;
pub mod canon;
