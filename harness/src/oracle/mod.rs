pub mod chars;
pub mod canon;
pub mod external;
