pub mod chars;
