//! Pre-order index of the library's own DOM (document order as the XPath data model defines it:
//! element, then its attributes, then its children), computed by navigation only. Used to compare
//! node-sets across two parses of the same text and to check document order without order keys.

use std::collections::HashMap;
use xml_dom::{AsNode, NamedNodeMap, Node, NodeList, XmlDocument, XmlNode};

/// (id, class) -> (pre-order index of the node or of the owning element, attribute rank)
pub type Index = HashMap<(usize, u8), (usize, usize)>;

pub fn class_of(n: &XmlNode) -> u8 {
    match n {
        XmlNode::Attribute(_) => 1,
        XmlNode::Namespace(_) => 2,
        _ => 0,
    }
}

pub fn index(doc: &XmlDocument) -> Index {
    let mut m = Index::new();
    let mut counter = 0usize;
    let mut stack: Vec<XmlNode> = vec![doc.as_node()];
    while let Some(n) = stack.pop() {
        if counter > 200_000 {
            break;
        }
        let my = counter;
        counter += 1;
        m.insert((n.id(), class_of(&n)), (my, 0));
        if let Some(attrs) = n.attributes() {
            // all attributes of one element share the element's slot; their mutual order is implementation-defined
            for a in attrs.iter() {
                let an = a.as_node();
                if an.id() != 0 {
                    m.insert((an.id(), 1), (my, 1));
                }
            }
        }
        let kids: Vec<XmlNode> = n.child_nodes().iter().filter(|k| !matches!(k, XmlNode::DocumentType(_))).collect();
        if matches!(n, XmlNode::Attribute(_)) {
            continue;
        }
        for k in kids.into_iter().rev() {
            stack.push(k);
        }
    }
    m
}

/// node-set as a vector of index pairs; None when a node is unknown to the index (namespace nodes, detached nodes)
pub fn positions(ix: &Index, nodes: &[XmlNode]) -> Option<Vec<(usize, usize)>> {
    nodes.iter().map(|n| ix.get(&(n.id(), class_of(n))).copied()).collect()
}
