//! Second opinions from mature parsers installed in the image (pyexpat through python3, libxml2
//! through xmllint). Used only to *confirm* a candidate violation before it is reported: a
//! disagreement between my recognizer and a comparable external parser discards the case.

use std::io::Write;
use std::process::{Command, Stdio};

/// Some(true) = expat parses it, Some(false) = expat rejects it, None = unavailable / not comparable
pub fn expat_accepts(text: &str) -> Option<bool> {
    // expat implements the 4th-edition name characters: only compare on ASCII-named documents
    if !text.is_ascii() {
        return None;
    }
    let script = "import sys, pyexpat\nd=sys.stdin.buffer.read()\np=pyexpat.ParserCreate()\ntry:\n    p.Parse(d, True)\n    print('WF')\nexcept pyexpat.ExpatError as e:\n    print('NWF')\n";
    let py = if std::path::Path::new("/usr/bin/python3").exists() { "/usr/bin/python3" } else { "python3" };
    let mut child = Command::new(py).arg("-c").arg(script).stdin(Stdio::piped()).stdout(Stdio::piped()).stderr(Stdio::null()).spawn().ok()?;
    child.stdin.take()?.write_all(text.as_bytes()).ok()?;
    let out = child.wait_with_output().ok()?;
    let s = String::from_utf8_lossy(&out.stdout);
    if s.contains("NWF") {
        Some(false)
    } else if s.contains("WF") {
        Some(true)
    } else {
        None
    }
}

pub fn xmllint_accepts(text: &str) -> Option<bool> {
    let exe = ["/root/miniconda/bin/xmllint", "/usr/bin/xmllint"].iter().find(|p| std::path::Path::new(p).exists())?;
    // libxml2 limits nesting depth to 256 without --huge
    let mut child = Command::new(exe).args(["--noout", "--nonet", "--huge", "-"]).stdin(Stdio::piped()).stdout(Stdio::null()).stderr(Stdio::null()).spawn().ok()?;
    child.stdin.take()?.write_all(text.as_bytes()).ok()?;
    let st = child.wait().ok()?;
    Some(st.success())
}

/// A candidate "ill-formed input accepted" is confirmed unless a comparable external parser accepts the input.
/// Returns (confirmed, note)
pub fn confirm_ill_formed(text: &str) -> (bool, String) {
    let e = expat_accepts(text);
    let x = xmllint_accepts(text);
    let note = format!("expat={:?} libxml2={:?}", e, x);
    if e == Some(true) || x == Some(true) {
        (false, note)
    } else {
        (true, note)
    }
}
