//! Character classes of XML 1.0 (Fifth Edition), transcribed from productions [2], [3], [4], [4a],
//! [13], [81] as sorted interval tables. Independent of xml_nom::xmlchar (never calls it).

pub type Table = &'static [(u32, u32)];

/// [2] Char
pub const CHAR: Table = &[(0x9, 0xA), (0xD, 0xD), (0x20, 0xD7FF), (0xE000, 0xFFFD), (0x10000, 0x10FFFF)];

/// [4] NameStartChar
pub const NAME_START: Table = &[
    (0x3A, 0x3A), // ':'
    (0x41, 0x5A), // A-Z
    (0x5F, 0x5F), // '_'
    (0x61, 0x7A), // a-z
    (0xC0, 0xD6),
    (0xD8, 0xF6),
    (0xF8, 0x2FF),
    (0x370, 0x37D),
    (0x37F, 0x1FFF),
    (0x200C, 0x200D),
    (0x2070, 0x218F),
    (0x2C00, 0x2FEF),
    (0x3001, 0xD7FF),
    (0xF900, 0xFDCF),
    (0xFDF0, 0xFFFD),
    (0x10000, 0xEFFFF),
];

/// [4a] NameChar = NameStartChar plus these
pub const NAME_EXTRA: Table = &[(0x2D, 0x2E), (0x30, 0x39), (0xB7, 0xB7), (0x300, 0x36F), (0x203F, 0x2040)];

/// [13] PubidChar: #x20 | #xD | #xA | [a-zA-Z0-9] | [-'()+,./:=?;!*#@$_%]
pub const PUBID: Table = &[
    (0xA, 0xA),
    (0xD, 0xD),
    (0x20, 0x21),  // space !
    (0x23, 0x25),  // # $ %
    (0x27, 0x2F),  // ' ( ) * + , - . /
    (0x30, 0x3B),  // 0-9 : ;
    (0x3D, 0x3D),  // =
    (0x3F, 0x5A),  // ? @ A-Z
    (0x5F, 0x5F),  // _
    (0x61, 0x7A),  // a-z
];

/// [81] EncName tail class: [A-Za-z0-9._] | '-'
pub const ENC_TAIL: Table = &[(0x2D, 0x2E), (0x30, 0x39), (0x41, 0x5A), (0x5F, 0x5F), (0x61, 0x7A)];

pub fn in_table(t: Table, c: u32) -> bool {
    let mut lo = 0usize;
    let mut hi = t.len();
    while lo < hi {
        let mid = (lo + hi) / 2;
        let (a, b) = t[mid];
        if c < a {
            hi = mid;
        } else if c > b {
            lo = mid + 1;
        } else {
            return true;
        }
    }
    false
}

pub fn is_char(c: char) -> bool {
    in_table(CHAR, c as u32)
}
pub fn is_name_start(c: char) -> bool {
    in_table(NAME_START, c as u32)
}
pub fn is_name_char(c: char) -> bool {
    in_table(NAME_START, c as u32) || in_table(NAME_EXTRA, c as u32)
}
pub fn is_pubid(c: char) -> bool {
    in_table(PUBID, c as u32)
}
pub fn is_enc_tail(c: char) -> bool {
    in_table(ENC_TAIL, c as u32)
}
pub fn is_space(c: char) -> bool {
    matches!(c, ' ' | '\t' | '\r' | '\n')
}

pub fn is_name(s: &str) -> bool {
    let mut it = s.chars();
    match it.next() {
        Some(c) if is_name_start(c) => it.all(is_name_char),
        _ => false,
    }
}
pub fn is_nmtoken(s: &str) -> bool {
    !s.is_empty() && s.chars().all(is_name_char)
}
pub fn is_ncname(s: &str) -> bool {
    is_name(s) && !s.contains(':')
}
pub fn is_qname(s: &str) -> bool {
    match s.split_once(':') {
        None => is_ncname(s),
        Some((p, l)) => is_ncname(p) && is_ncname(l),
    }
}
pub fn is_enc_name(s: &str) -> bool {
    let mut it = s.chars();
    match it.next() {
        Some(c) if c.is_ascii_alphabetic() => it.all(is_enc_tail),
        _ => false,
    }
}
