//! Canon — canonical extraction of what the library's DOM reports, through public accessors only.
//! The result is plain JSON so it can be compared with the expectation carried by a case.

use serde_json::{json, Value as Json};
use xml_dom::{
    AsExpandedName, Attr, CharacterData, Document, DocumentType, Element, Entity, NamedNodeMap, Node, NodeList, Notation,
    ProcessingInstruction, XmlDocument, XmlNode,
};

pub const MAX_DEPTH: usize = 4000;

fn attr_json(a: &xml_dom::XmlAttr) -> Json {
    let (local, uri) = match a.as_expanded_name() {
        Ok(Some((l, _p, u))) => (l, u),
        _ => (a.name(), None),
    };
    let value = match a.value() {
        Ok(v) => Json::String(v),
        Err(e) => json!({"error": format!("{:?}", e)}),
    };
    json!({"local": local, "uri": uri, "value": value, "spec": a.specified()})
}

/// children as the DOM lists them (raw or merged depending on the document's context)
pub fn node_json(n: &XmlNode, depth: usize) -> Json {
    if depth > MAX_DEPTH {
        return json!({"k": "too-deep"});
    }
    match n {
        XmlNode::Document(d) => {
            let kids: Vec<Json> = d.child_nodes().iter().map(|c| node_json(&c, depth + 1)).collect();
            json!({"k": "doc", "kids": kids})
        }
        XmlNode::DocumentType(dt) => {
            let mut ents: Vec<Json> = dt
                .entities()
                .iter()
                .map(|e| json!({"name": e.node_name(), "pub": e.public_id(), "sys": e.system_id(), "ndata": e.notation_name()}))
                .collect();
            ents.sort_by_key(|e| e["name"].as_str().unwrap_or("").to_string());
            let mut nots: Vec<Json> = dt
                .notations()
                .iter()
                .map(|e| json!({"name": e.node_name(), "pub": e.public_id(), "sys": e.system_id()}))
                .collect();
            nots.sort_by_key(|e| e["name"].as_str().unwrap_or("").to_string());
            json!({"k": "doctype", "name": dt.name(), "ents": ents, "nots": nots})
        }
        XmlNode::Element(e) => {
            let (local, uri) = match e.as_expanded_name() {
                Ok(Some((l, _p, u))) => (l, u),
                _ => (e.tag_name(), None),
            };
            let mut attrs: Vec<Json> = match e.attributes() {
                Some(m) => m.iter().map(|a| attr_json(&a)).collect(),
                None => vec![],
            };
            attrs.sort_by_key(|a| (a["uri"].as_str().unwrap_or("").to_string(), a["local"].as_str().unwrap_or("").to_string()));
            let kids: Vec<Json> = e.child_nodes().iter().map(|c| node_json(&c, depth + 1)).collect();
            json!({"k": "elem", "local": local, "uri": uri, "attrs": attrs, "kids": kids})
        }
        XmlNode::Attribute(a) => {
            let mut j = attr_json(a);
            j["k"] = json!("attr");
            let kids: Vec<Json> = a.child_nodes().iter().map(|c| node_json(&c, depth + 1)).collect();
            j["kids"] = json!(kids);
            j
        }
        XmlNode::Text(t) => json!({"k": "text", "v": t.data().unwrap_or_else(|e| format!("<error {:?}>", e))}),
        XmlNode::ExpandedText(t) => json!({"k": "text", "v": t.data().unwrap_or_else(|e| format!("<error {:?}>", e))}),
        XmlNode::CData(t) => json!({"k": "cdata", "v": t.data().unwrap_or_else(|e| format!("<error {:?}>", e))}),
        XmlNode::Comment(t) => json!({"k": "comment", "v": t.data().unwrap_or_else(|e| format!("<error {:?}>", e))}),
        XmlNode::PI(p) => json!({"k": "pi", "target": p.target(), "data": p.data()}),
        XmlNode::EntityReference(r) => {
            let v = match r.value() {
                Ok(v) => Json::String(v),
                Err(e) => json!({"error": format!("{:?}", e)}),
            };
            json!({"k": "ref", "name": r.node_name(), "v": v})
        }
        XmlNode::Entity(e) => json!({"k": "entity", "name": e.node_name()}),
        XmlNode::Notation(e) => json!({"k": "notation", "name": e.node_name()}),
        XmlNode::Namespace(e) => json!({"k": "ns", "prefix": e.node_name(), "uri": e.node_value().ok().flatten()}),
        XmlNode::DocumentFragment(f) => {
            let kids: Vec<Json> = f.child_nodes().iter().map(|c| node_json(&c, depth + 1)).collect();
            json!({"k": "frag", "kids": kids})
        }
    }
}

pub fn doc_json(d: &XmlDocument) -> Json {
    use xml_dom::AsNode;
    node_json(&d.as_node(), 0)
}

/// Coalesce adjacent text / cdata / ref children into single text nodes (the XPath data model /
/// "merged" view), recursively; empty text nodes are dropped.
pub fn merge(j: &Json) -> Json {
    match j {
        Json::Object(m) => {
            let mut out = m.clone();
            if let Some(Json::Array(kids)) = m.get("kids") {
                let mut nk: Vec<Json> = vec![];
                let mut acc: Option<String> = None;
                for k in kids {
                    let kind = k["k"].as_str().unwrap_or("");
                    if kind == "text" || kind == "cdata" || kind == "ref" {
                        let s = k["v"].as_str().map(|s| s.to_string()).unwrap_or_else(|| format!("<{}>", k["v"]));
                        match &mut acc {
                            Some(a) => a.push_str(&s),
                            None => acc = Some(s),
                        }
                    } else {
                        if let Some(a) = acc.take() {
                            if !a.is_empty() {
                                nk.push(json!({"k": "text", "v": a}));
                            }
                        }
                        nk.push(merge(k));
                    }
                }
                if let Some(a) = acc.take() {
                    if !a.is_empty() {
                        nk.push(json!({"k": "text", "v": a}));
                    }
                }
                out.insert("kids".into(), Json::Array(nk));
            }
            Json::Object(out)
        }
        other => other.clone(),
    }
}

/// first difference between two canonical trees, as a path + the two values
pub fn first_diff(a: &Json, b: &Json, path: &str) -> Option<String> {
    match (a, b) {
        (Json::Object(ma), Json::Object(mb)) => {
            let mut keys: Vec<&String> = ma.keys().chain(mb.keys()).collect();
            keys.sort();
            keys.dedup();
            // compare scalar fields before descending into children
            keys.sort_by_key(|k| (k.as_str() == "kids", k.as_str() == "attrs", (*k).clone()));
            for k in keys {
                match (ma.get(k), mb.get(k)) {
                    (Some(x), Some(y)) => {
                        if let Some(d) = first_diff(x, y, &format!("{}/{}", path, k)) {
                            return Some(d);
                        }
                    }
                    (x, y) => {
                        return Some(format!("{}/{}: {} vs {}", path, k, x.map(|v| v.to_string()).unwrap_or("<absent>".into()), y.map(|v| v.to_string()).unwrap_or("<absent>".into())));
                    }
                }
            }
            None
        }
        (Json::Array(xa), Json::Array(xb)) => {
            for (i, (x, y)) in xa.iter().zip(xb.iter()).enumerate() {
                if let Some(d) = first_diff(x, y, &format!("{}[{}]", path, i)) {
                    return Some(d);
                }
            }
            if xa.len() != xb.len() {
                let (longer, which) = if xa.len() > xb.len() { (xa, "left") } else { (xb, "right") };
                let extra = &longer[xa.len().min(xb.len())];
                return Some(format!("{}: length {} vs {}; first extra on the {}: {}", path, xa.len(), xb.len(), which, short(extra)));
            }
            None
        }
        (x, y) => {
            if x == y {
                None
            } else {
                Some(format!("{}: {} vs {}", path, short(x), short(y)))
            }
        }
    }
}

pub fn short(j: &Json) -> String {
    let s = j.to_string();
    if s.chars().count() > 160 {
        format!("{}…", s.chars().take(160).collect::<String>())
    } else {
        s
    }
}

/// document-level properties through the xml_info traits
pub fn info_props(text: &str) -> Result<Json, String> {
    use xml_info::{Document as _, DocumentTypeDeclaration as _, Notation as _, UnparsedEntity as _};
    let (rest, tree) = xml_parser::document(text).map_err(|e| format!("parse: {}", e))?;
    if !rest.is_empty() {
        return Err(format!("rest: {:?}", rest.chars().take(40).collect::<String>()));
    }
    let doc = xml_info::XmlDocument::new(&tree).map_err(|e| format!("info: {:?}", e))?;
    let d = doc.borrow();
    let enc = d.character_encoding_scheme().to_string();
    let dt = d.document_declaration();
    let (dpub, dsys) = match &dt {
        Some(dt) => (dt.borrow().public_identifier().map(|s| s.to_string()), dt.borrow().system_identifier().map(|s| s.to_string())),
        None => (None, None),
    };
    let mut nots: Vec<Json> = match d.notations() {
        Some(set) => set
            .iter()
            .map(|n| {
                let n = n.borrow();
                json!({"name": n.name(), "pub": n.public_identifier(), "sys": n.system_identifier()})
            })
            .collect(),
        None => vec![],
    };
    nots.sort_by_key(|e| e["name"].as_str().unwrap_or("").to_string());
    let mut unparsed: Vec<Json> = d
        .unparsed_entities()
        .iter()
        .map(|u| {
            let u = u.borrow();
            json!({"name": u.name(), "pub": u.public_identifier(), "sys": u.system_identifier(), "ndata": u.notation_name()})
        })
        .collect();
    unparsed.sort_by_key(|e| e["name"].as_str().unwrap_or("").to_string());
    Ok(json!({
        "version": d.version(),
        "encoding": if enc.is_empty() { Json::Null } else { json!(enc) },
        "standalone": d.standalone(),
        "doctype_pub": dpub,
        "doctype_sys": dsys,
        "notations": nots,
        "unparsed": unparsed,
    }))
}
