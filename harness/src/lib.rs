pub mod engine;
pub mod fuzzing;
pub mod gen;
pub mod oracle;
pub mod props;
