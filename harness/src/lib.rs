pub mod engine;
pub mod gen;
pub mod oracle;
pub mod props;
