//! Panic capture: message, location and the innermost frame inside the repository crates.

use std::cell::RefCell;
use std::collections::HashMap;
use std::panic::{self, AssertUnwindSafe};
use std::sync::Mutex;

#[derive(Clone, Debug, Default)]
pub struct PanicInfo {
    pub message: String,
    pub location: String,
    pub function: String,
}

impl PanicInfo {
    /// function-level key: "<function>:<message with digits stripped>"
    pub fn key(&self) -> String {
        let msg: String = self.message.chars().filter(|c| !c.is_ascii_digit()).take(60).collect();
        let msg: String = msg.chars().map(|c| if c.is_ascii_alphanumeric() { c } else { '_' }).collect();
        let f: String = self.function.chars().map(|c| if c.is_ascii_alphanumeric() || c == ':' || c == '_' { c } else { '_' }).collect();
        format!("{}:{}", f, msg.trim_matches('_'))
    }
}

thread_local! {
    static LAST: RefCell<Option<PanicInfo>> = RefCell::new(None);
}

static SITE_CACHE: Mutex<Option<HashMap<String, String>>> = Mutex::new(None);

fn innermost_repo_frame() -> String {
    let bt = std::backtrace::Backtrace::force_capture().to_string();
    // frames look like "  12: xml_info::XmlText::insert" followed by "             at /repo/info/src/lib.rs:123:4"
    let mut last_sym = String::new();
    for line in bt.lines() {
        let l = line.trim();
        if let Some((n, s)) = l.split_once(": ") {
            if !n.is_empty() && n.chars().all(|c| c.is_ascii_digit()) {
                last_sym = s.to_string();
                continue;
            }
        }
        if let Some(path) = l.strip_prefix("at ") {
            if let Some(rest) = path.strip_prefix("/repo/") {
                let krate = rest.split('/').next().unwrap_or("");
                // strip generic arguments and hash suffixes: keep the function path only
                let mut f = last_sym.clone();
                if let Some(p) = f.find('<') {
                    if p > 0 {
                        f.truncate(p);
                    }
                }
                if let Some(p) = f.rfind("::h") {
                    if f[p + 3..].chars().all(|c| c.is_ascii_hexdigit()) {
                        f.truncate(p);
                    }
                }
                let f = f.rsplit("::").next().unwrap_or("").to_string();
                return format!("{}:{}", krate, f);
            }
        }
    }
    "unknown".to_string()
}

pub fn install_hook() {
    panic::set_hook(Box::new(|info| {
        let message = if let Some(s) = info.payload().downcast_ref::<&str>() {
            s.to_string()
        } else if let Some(s) = info.payload().downcast_ref::<String>() {
            s.clone()
        } else {
            "non-string panic payload".to_string()
        };
        let location = info.location().map(|l| format!("{}:{}:{}", l.file(), l.line(), l.column())).unwrap_or_default();
        let function = {
            let mut g = SITE_CACHE.lock().unwrap_or_else(|e| e.into_inner());
            let map = g.get_or_insert_with(HashMap::new);
            if let Some(f) = map.get(&location) {
                f.clone()
            } else {
                let f = innermost_repo_frame();
                map.insert(location.clone(), f.clone());
                f
            }
        };
        LAST.with(|l| *l.borrow_mut() = Some(PanicInfo { message, location, function }));
    }));
}

pub fn catch<T>(f: impl FnOnce() -> T) -> Result<T, PanicInfo> {
    LAST.with(|l| *l.borrow_mut() = None);
    match panic::catch_unwind(AssertUnwindSafe(f)) {
        Ok(v) => Ok(v),
        Err(_) => Err(LAST.with(|l| l.borrow_mut().take()).unwrap_or_default()),
    }
}
