//! "current case" file shared with the parent (mmap, no syscall per case) and the CPU limit.

use super::Json;
use std::fs::OpenOptions;
use std::os::unix::io::AsRawFd;
use std::path::Path;

const CAP: usize = 4 << 20;

pub struct CurFile {
    ptr: *mut u8,
    _file: std::fs::File,
}

impl CurFile {
    pub fn create(path: &Path) -> std::io::Result<CurFile> {
        let file = OpenOptions::new().read(true).write(true).create(true).truncate(true).open(path)?;
        file.set_len(CAP as u64)?;
        let ptr = unsafe { libc::mmap(std::ptr::null_mut(), CAP, libc::PROT_READ | libc::PROT_WRITE, libc::MAP_SHARED, file.as_raw_fd(), 0) };
        if ptr == libc::MAP_FAILED {
            return Err(std::io::Error::last_os_error());
        }
        Ok(CurFile { ptr: ptr as *mut u8, _file: file })
    }

    /// layout: u64 seq | u64 len | bytes
    pub fn announce(&mut self, seq: u64, case: &Json) {
        let s = serde_json::to_vec(case).unwrap_or_default();
        let n = s.len().min(CAP - 16);
        unsafe {
            std::ptr::copy_nonoverlapping(0u64.to_le_bytes().as_ptr(), self.ptr.add(8), 8);
            std::ptr::copy_nonoverlapping(seq.to_le_bytes().as_ptr(), self.ptr, 8);
            std::ptr::copy_nonoverlapping(s.as_ptr(), self.ptr.add(16), n);
            std::ptr::copy_nonoverlapping((n as u64).to_le_bytes().as_ptr(), self.ptr.add(8), 8);
        }
    }
}

pub fn read_cur(path: &Path) -> Option<(u64, Json)> {
    let data = std::fs::read(path).ok()?;
    if data.len() < 16 {
        return None;
    }
    let seq = u64::from_le_bytes(data[0..8].try_into().ok()?);
    let len = u64::from_le_bytes(data[8..16].try_into().ok()?) as usize;
    if seq == 0 || len == 0 || 16 + len > data.len() {
        return None;
    }
    let case: Json = serde_json::from_slice(&data[16..16 + len]).ok()?;
    Some((seq, case))
}

/// Re-arm the soft RLIMIT_CPU so that the current case may use `budget` more CPU seconds.
/// SIGXCPU's default action terminates the worker; the parent attributes it to the announced case.
pub fn arm_cpu_limit(budget: u64) {
    unsafe {
        let mut ts: libc::timespec = std::mem::zeroed();
        libc::clock_gettime(libc::CLOCK_PROCESS_CPUTIME_ID, &mut ts);
        let want = ts.tv_sec as u64 + 1 + budget;
        thread_local! { static LAST: std::cell::Cell<u64> = std::cell::Cell::new(0); }
        let prev = LAST.with(|l| l.get());
        if prev == want {
            return;
        }
        LAST.with(|l| l.set(want));
        let mut rl: libc::rlimit = std::mem::zeroed();
        libc::getrlimit(libc::RLIMIT_CPU, &mut rl);
        rl.rlim_cur = want as libc::rlim_t;
        libc::setrlimit(libc::RLIMIT_CPU, &rl);
    }
}

/// limit address space of the worker so a blow-up is an allocation failure, not an OOM kill
pub fn limit_memory(bytes: u64) {
    unsafe {
        let rl = libc::rlimit { rlim_cur: bytes as libc::rlim_t, rlim_max: bytes as libc::rlim_t };
        libc::setrlimit(libc::RLIMIT_AS, &rl);
    }
}
