//! Engine: seeds, sharding, worker processes, generation + shrinking loop, finding keys,
//! known-findings file, evidence writer, replay.
//!
//! A *case* is a `serde_json::Value` produced by the property's strategy (structured value ->
//! `prop_map` -> concrete JSON holding the inputs and the oracle's expectations). The property's
//! `check` runs the library on the inputs and compares with the expectations, so a saved case
//! replays without proptest and without the generator.

pub mod known;
pub mod panics;
pub mod shm;

use proptest::strategy::{BoxedStrategy, Strategy, ValueTree};
use proptest::test_runner::{Config, RngAlgorithm, TestRng, TestRunner};
use serde_json::{json, Map, Value};
use std::collections::{BTreeMap, BTreeSet};
use std::io::Write;
use std::path::{Path, PathBuf};
use std::process::{Command, Stdio};
use std::time::Instant;

pub type Json = Value;

#[derive(Clone, Copy, Debug, PartialEq, Eq)]
pub enum Tier {
    Quick,
    Thorough,
}

impl Tier {
    pub fn name(self) -> &'static str {
        match self {
            Tier::Quick => "quick",
            Tier::Thorough => "thorough",
        }
    }
    pub fn pick<T>(self, q: T, t: T) -> T {
        match self {
            Tier::Quick => q,
            Tier::Thorough => t,
        }
    }
}

#[derive(Clone, Debug)]
pub enum Verdict {
    Pass,
    /// case not judged (outside the oracle's profile …); counted under the reason
    Discard(String),
    Fail { key: String, detail: String },
}

impl Verdict {
    pub fn fail(key: impl Into<String>, detail: impl Into<String>) -> Verdict {
        Verdict::Fail { key: key.into(), detail: detail.into() }
    }
}

/// Per-case observations made by `check` (labels are also taken from the case's `_labels`).
#[derive(Default)]
pub struct Obs {
    pub labels: Vec<String>,
    pub nontrivial: Option<bool>,
    /// known-finding keys that fired on this case although the case passed overall
    pub known_hits: Vec<String>,
}

impl Obs {
    pub fn label(&mut self, l: impl Into<String>) {
        self.labels.push(l.into());
    }
}

pub trait Property: Sync {
    fn id(&self) -> &'static str;
    /// how cases are generated and what makes one non-trivial (evidence.coverage.rule)
    fn rule(&self) -> String;
    fn assumptions(&self) -> Vec<String>;
    fn technique(&self) -> &'static str {
        "property-based testing (proptest) against an explicit oracle"
    }
    fn shards(&self, tier: Tier) -> usize {
        tier.pick(16, 16)
    }
    /// upper bound on shrink attempts per failure (each attempt re-runs the check)
    fn max_shrink_steps(&self) -> u64 {
        3000
    }
    fn cases_per_shard(&self, tier: Tier) -> u32;
    fn strategy(&self, tier: Tier) -> BoxedStrategy<Json>;
    /// the strategy of one shard; shards beyond the first sixteen may draw from a different generator (added later,
    /// so that the streams of the earlier shards stay what they were)
    fn strategy_for_shard(&self, tier: Tier, _shard: usize) -> BoxedStrategy<Json> {
        self.strategy(tier)
    }
    /// deterministic cases run in addition to the generated ones (families, tables, regressions)
    fn fixed_cases(&self, _tier: Tier) -> Vec<Json> {
        vec![]
    }
    fn check(&self, case: &Json, obs: &mut Obs) -> Verdict;
    /// true: a worker killed by a signal / CPU limit while running a case is a verdict (C03, C06)
    fn abort_is_verdict(&self) -> bool {
        false
    }
    /// CPU seconds a single case may use before the worker is killed
    fn cpu_budget_s(&self) -> u64 {
        20
    }
    /// label -> minimal fraction of evaluations; below it the run is inconclusive (exit 2)
    fn floors(&self, _tier: Tier) -> Vec<(&'static str, f64)> {
        vec![]
    }
    /// extra evidence keys (e.g. `exhaustive`)
    fn extra_coverage(&self, _tier: Tier) -> Map<String, Json> {
        Map::new()
    }
    /// second opinion on a failing case before it is reported (slow external oracles); Err = drop the
    /// case as an oracle disagreement
    fn confirm(&self, _case: &Json, _key: &str) -> Result<(), String> {
        Ok(())
    }
    /// key used for an abort (signal / cpu limit) on this case
    fn abort_key(&self, _case: &Json, what: &str) -> String {
        format!("abort.{}", what)
    }
}

pub fn verif_root() -> PathBuf {
    std::env::var("VERIF_ROOT").map(PathBuf::from).unwrap_or_else(|_| PathBuf::from("/verif"))
}

pub fn base_seed() -> u64 {
    std::env::var("VERIF_SEED").ok().and_then(|s| s.trim().parse::<i64>().ok()).map(|v| v as u64).unwrap_or(20260921)
}

fn splitmix(mut x: u64) -> u64 {
    x = x.wrapping_add(0x9E3779B97F4A7C15);
    let mut z = x;
    z = (z ^ (z >> 30)).wrapping_mul(0xBF58476D1CE4E5B9);
    z = (z ^ (z >> 27)).wrapping_mul(0x94D049BB133111EB);
    z ^ (z >> 31)
}

pub fn fnv(s: &[u8]) -> u64 {
    let mut h: u64 = 0xcbf29ce484222325;
    for b in s {
        h ^= *b as u64;
        h = h.wrapping_mul(0x100000001b3);
    }
    h
}

fn shard_seed(id: &str, seed: u64, shard: usize, tier: Tier) -> [u8; 32] {
    let mut out = [0u8; 32];
    let mut x = splitmix(seed ^ fnv(id.as_bytes()) ^ ((shard as u64) << 32) ^ (tier as u64));
    for c in out.chunks_mut(8) {
        x = splitmix(x);
        c.copy_from_slice(&x.to_le_bytes());
    }
    out
}

/// hash of the case without its meta fields (keys starting with '_')
pub fn case_hash(case: &Json) -> u64 {
    let stripped = strip_meta(case);
    fnv(serde_json::to_string(&stripped).unwrap_or_default().as_bytes())
}

pub fn strip_meta(case: &Json) -> Json {
    match case {
        Value::Object(m) => {
            let mut o = Map::new();
            for (k, v) in m {
                if !k.starts_with('_') {
                    o.insert(k.clone(), v.clone());
                }
            }
            Value::Object(o)
        }
        other => other.clone(),
    }
}

fn case_labels(case: &Json) -> Vec<String> {
    case.get("_labels")
        .and_then(|v| v.as_array())
        .map(|a| a.iter().filter_map(|x| x.as_str().map(|s| s.to_string())).collect())
        .unwrap_or_default()
}

fn truncate_json(v: &Json, max: usize) -> Json {
    match v {
        Value::String(s) if s.chars().count() > max => {
            let t: String = s.chars().take(max).collect();
            Value::String(format!("{}…[{} chars]", t, s.chars().count()))
        }
        Value::Array(a) => {
            let mut out: Vec<Json> = a.iter().take(40).map(|x| truncate_json(x, max)).collect();
            if a.len() > 40 {
                out.push(json!(format!("…[{} items]", a.len())));
            }
            Value::Array(out)
        }
        Value::Object(m) => Value::Object(m.iter().map(|(k, x)| (k.clone(), truncate_json(x, max))).collect()),
        o => o.clone(),
    }
}

/// Run `check` under catch_unwind; a panic is a failure with a key derived from the panic site.
pub fn guarded_check(p: &dyn Property, case: &Json, obs: &mut Obs) -> Verdict {
    if let Some(r) = case.get("_discard").and_then(|v| v.as_str()) {
        return Verdict::Discard(r.to_string());
    }
    let res = panics::catch(|| p.check(case, obs));
    match res {
        Ok(v) => v,
        Err(pi) => Verdict::Fail {
            key: format!("panic.{}", pi.key()),
            detail: format!("panic: {} at {} in {}", pi.message, pi.location, pi.function),
        },
    }
}

#[derive(Default)]
struct ShardStats {
    evaluations: u64,
    nontrivial: BTreeSet<u64>,
    labels: BTreeMap<String, u64>,
    discards: BTreeMap<String, u64>,
    known_hits: BTreeMap<String, u64>,
    violations: Vec<Json>,
    samples: Vec<Json>,
    shrink_steps: u64,
}

impl ShardStats {
    fn to_json(&self) -> Json {
        json!({
            "evaluations": self.evaluations,
            "nontrivial": self.nontrivial.iter().collect::<Vec<_>>(),
            "labels": self.labels,
            "discards": self.discards,
            "known_hits": self.known_hits,
            "violations": self.violations,
            "samples": self.samples,
            "shrink_steps": self.shrink_steps,
        })
    }
}

fn account(stats: &mut ShardStats, case: &Json, obs: &Obs, verdict: &Verdict, sample_slot: bool) {
    stats.evaluations += 1;
    let mut labels = case_labels(case);
    labels.extend(obs.labels.iter().cloned());
    labels.sort();
    labels.dedup();
    for l in labels {
        *stats.labels.entry(l).or_insert(0) += 1;
    }
    for k in &obs.known_hits {
        *stats.known_hits.entry(k.clone()).or_insert(0) += 1;
    }
    match verdict {
        Verdict::Discard(r) => {
            *stats.discards.entry(r.clone()).or_insert(0) += 1;
        }
        _ => {
            let nt = obs.nontrivial.unwrap_or_else(|| case.get("_nontrivial").and_then(|v| v.as_bool()).unwrap_or(false));
            if nt {
                stats.nontrivial.insert(case_hash(case));
            }
            if sample_slot && stats.samples.len() < 6 {
                stats.samples.push(truncate_json(&strip_meta(case), 400));
            }
        }
    }
}

/// The worker: runs one shard in this process.
pub fn run_worker(p: &dyn Property, tier: Tier, shard: usize, nshards: usize, skip: u64, out: &Path, cur: &Path) -> i32 {
    panics::install_hook();
    let known = known::load();
    let mut cur = shm::CurFile::create(cur).expect("cur file");
    let mut stats = ShardStats::default();
    let budget = p.cpu_budget_s();
    let mut seq: u64 = 0;
    let mut reported_keys: BTreeSet<String> = BTreeSet::new();
    // keys whose failing cases the second-opinion oracle refused twice: no longer shrunk/confirmed, only counted
    let mut unconfirmed: BTreeMap<String, u32> = BTreeMap::new();
    let max_viol = 4usize;

    let fixed = p.fixed_cases(tier);
    let mut last_flush = Instant::now();
    let total_gen = p.cases_per_shard(tier) as u64;

    // --- fixed cases assigned to this shard
    for (i, case) in fixed.iter().enumerate() {
        if i % nshards != shard {
            continue;
        }
        seq += 1;
        if seq <= skip {
            continue;
        }
        cur.announce(seq, case);
        shm::arm_cpu_limit(budget);
        let mut obs = Obs::default();
        let v = guarded_check(p, case, &mut obs);
        account(&mut stats, case, &obs, &v, i % 97 == 0);
        if let Verdict::Fail { key, detail } = v {
            if known.is_open(p.id(), &key) {
                *stats.known_hits.entry(key).or_insert(0) += 1;
            } else if !reported_keys.contains(&key) {
                match p.confirm(case, &key) {
                    Ok(()) => {
                        reported_keys.insert(key.clone());
                        stats.violations.push(json!({"key": key, "detail": detail, "case": case, "shrunk": false, "origin": "fixed"}));
                        write_stats(out, &stats, seq, false);
                    }
                    Err(why) => {
                        *stats.discards.entry(format!("unconfirmed:{}", why)).or_insert(0) += 1;
                    }
                }
            }
        }
        if last_flush.elapsed().as_millis() > 500 {
            write_stats(out, &stats, seq, false);
            last_flush = Instant::now();
        }
    }

    // --- generated cases
    let seed = shard_seed(p.id(), base_seed(), shard, tier);
    let config = Config { failure_persistence: None, cases: total_gen as u32, ..Config::default() };
    let mut runner = TestRunner::new_with_rng(config, TestRng::from_seed(RngAlgorithm::ChaCha, &seed));
    let strat = p.strategy_for_shard(tier, shard);
    let sample_every = (total_gen / 5).max(1);
    for i in 0..total_gen {
        let mut tree = match strat.new_tree(&mut runner) {
            Ok(t) => t,
            Err(_) => continue,
        };
        seq += 1;
        if seq <= skip {
            continue;
        }
        let case = tree.current();
        cur.announce(seq, &case);
        shm::arm_cpu_limit(budget);
        let mut obs = Obs::default();
        let v = guarded_check(p, &case, &mut obs);
        account(&mut stats, &case, &obs, &v, i % sample_every == 0);
        if let Verdict::Fail { key, detail } = v {
            if known.is_open(p.id(), &key) {
                *stats.known_hits.entry(key).or_insert(0) += 1;
            } else if unconfirmed.get(&key).copied().unwrap_or(0) >= 2 {
                *stats.discards.entry(format!("unconfirmed-key:{}", key)).or_insert(0) += 1;
            } else if !reported_keys.contains(&key) {
                // shrink: accept any failing candidate whose key is not an open known finding
                let mut best = case.clone();
                let mut best_key = key.clone();
                let mut best_detail = detail.clone();
                let mut steps = 0u64;
                if tree.simplify() {
                    loop {
                        steps += 1;
                        if steps > p.max_shrink_steps() {
                            break;
                        }
                        let c = tree.current();
                        cur.announce(seq, &c);
                        shm::arm_cpu_limit(budget);
                        let mut o2 = Obs::default();
                        let r = guarded_check(p, &c, &mut o2);
                        let failing = match &r {
                            Verdict::Fail { key: k2, .. } => !known.is_open(p.id(), k2),
                            _ => false,
                        };
                        if failing {
                            if let Verdict::Fail { key: k2, detail: d2 } = r {
                                best = c;
                                best_key = k2;
                                best_detail = d2;
                            }
                            if !tree.simplify() {
                                break;
                            }
                        } else if !tree.complicate() {
                            break;
                        }
                    }
                }
                stats.shrink_steps += steps;
                // second opinion: on the shrunk case first, on the original case otherwise
                let (rep_case, rep_key, rep_detail, was_shrunk) = match p.confirm(&best, &best_key) {
                    Ok(()) => (best, best_key, best_detail, true),
                    Err(why1) => match p.confirm(&case, &key) {
                        Ok(()) => (case.clone(), key.clone(), detail.clone(), false),
                        Err(_) => {
                            *stats.discards.entry(format!("unconfirmed:{}", why1)).or_insert(0) += 1;
                            *unconfirmed.entry(key.clone()).or_insert(0) += 1;
                            continue;
                        }
                    },
                };
                reported_keys.insert(key.clone());
                reported_keys.insert(rep_key.clone());
                stats.violations.push(json!({"key": rep_key, "detail": rep_detail, "case": rep_case, "shrunk": was_shrunk,
                    "origin": "generated", "original_key": key, "shard": shard, "index": i}));
                if stats.violations.len() >= max_viol {
                    write_stats(out, &stats, seq, true);
                    return 0;
                }
                write_stats(out, &stats, seq, false);
            }
        }
        if last_flush.elapsed().as_millis() > 500 {
            write_stats(out, &stats, seq, false);
            last_flush = Instant::now();
        }
        // The library's documents are reference cycles and are never freed: a worker that has grown past the limit
        // hands its statistics in and asks to be started again behind the case it has just finished.
        if i % 128 == 127 && i + 1 < total_gen && rss_mb() > rss_limit_mb() {
            write_stats_with(out, &stats, seq, false, true);
            return RECYCLE_EXIT;
        }
    }
    write_stats(out, &stats, seq, true);
    0
}

pub const RECYCLE_EXIT: i32 = 75;

fn rss_limit_mb() -> u64 {
    std::env::var("VERIF_WORKER_RSS_MB").ok().and_then(|v| v.parse().ok()).unwrap_or(900)
}

fn rss_mb() -> u64 {
    std::fs::read_to_string("/proc/self/statm")
        .ok()
        .and_then(|s| s.split_whitespace().nth(1).and_then(|v| v.parse::<u64>().ok()))
        .map(|pages| pages * 4096 / (1024 * 1024))
        .unwrap_or(0)
}

fn write_stats(out: &Path, stats: &ShardStats, seq: u64, done: bool) {
    write_stats_with(out, stats, seq, done, false)
}

fn write_stats_with(out: &Path, stats: &ShardStats, seq: u64, done: bool, recycle: bool) {
    let mut j = stats.to_json();
    j["seq"] = json!(seq);
    j["done"] = json!(done);
    j["recycle"] = json!(recycle);
    let tmp = out.with_extension("tmp");
    if let Ok(mut f) = std::fs::File::create(&tmp) {
        let _ = f.write_all(serde_json::to_string(&j).unwrap().as_bytes());
        let _ = std::fs::rename(&tmp, out);
    }
}

fn read_json(p: &Path) -> Option<Json> {
    let s = std::fs::read_to_string(p).ok()?;
    serde_json::from_str(&s).ok()
}

pub struct RunResult {
    pub exit: i32,
}

/// The parent: spawn workers, merge, apply known findings, write evidence, print lines.
pub fn run_parent(p: &dyn Property, tier: Tier) -> RunResult {
    let t0 = Instant::now();
    let root = verif_root();
    let id = p.id();
    let work = root.join("work").join(id).join(tier.name());
    let _ = std::fs::remove_dir_all(&work);
    std::fs::create_dir_all(&work).expect("work dir");
    let known = known::load();
    let exe = std::env::current_exe().expect("exe");
    let nshards = p.shards(tier);
    let maxpar: usize = std::env::var("VERIF_JOBS").ok().and_then(|s| s.parse().ok()).unwrap_or(16);

    let mut merged = ShardStats::default();
    let mut infra_errors: Vec<String> = vec![];
    let mut abort_events: Vec<Json> = vec![];
    let mut recycles: u64 = 0;

    // ---- witnesses of open known findings are replayed first (each in a child process)
    let mut known_lines: Vec<String> = vec![];
    for kf in known.open_for(id) {
        let wpath = root.join(&kf.witness);
        let res = replay_in_child(&exe, id, &wpath);
        // an abort observed in the replay child gets the property's abort key
        let res = match res {
            ReplayOutcome::Fail(key, d) if key.starts_with("abort.") => {
                let case = read_json(&wpath).map(|doc| if doc.get("case").is_some() { doc["case"].clone() } else { doc }).unwrap_or(Json::Null);
                ReplayOutcome::Fail(p.abort_key(&case, key.trim_start_matches("abort.")), d)
            }
            other => other,
        };
        match res {
            ReplayOutcome::Fail(key, _d) if key == kf.key => {
                known_lines.push(format!("KNOWN-FINDING: property={} key={} {}", id, kf.key, kf.description));
            }
            ReplayOutcome::Fail(key, d) => {
                // witness fails differently: treat as note, the generated search decides
                println!("NOTE: witness of {} now fails with key {} ({})", kf.key, key, d);
                known_lines.push(format!("KNOWN-FINDING: property={} key={} {}", id, kf.key, kf.description));
            }
            ReplayOutcome::Pass => {
                println!("NOTE: witness of open finding {} no longer fails; mark it fixed in KNOWN_FINDINGS.txt", kf.key);
            }
            ReplayOutcome::Infra(e) => {
                infra_errors.push(format!("witness {}: {}", kf.witness, e));
            }
        }
    }
    for l in &known_lines {
        println!("{}", l);
    }

    // ---- regression cases (committed minimal cases of earlier violations) are part of fixed work:
    // they live in regress/<ID>/*.json and are replayed strictly in-process by shard 0 via fixed_cases
    // (property implementations include them through `engine::regress_cases`).

    // ---- shards
    struct Running {
        shard: usize,
        child: std::process::Child,
        skip: u64,
        respawns: u32,
    }
    let mut pending: Vec<(usize, u64, u32)> = (0..nshards).map(|s| (s, 0u64, 0u32)).collect();
    pending.reverse();
    let mut running: Vec<Running> = vec![];
    let mut partials: BTreeMap<usize, Vec<Json>> = BTreeMap::new();
    let mut kill_retries: BTreeMap<(usize, u64), u32> = BTreeMap::new();
    loop {
        while running.len() < maxpar {
            if let Some((shard, skip, respawns)) = pending.pop() {
                let out = work.join(format!("shard-{}-{}.json", shard, respawns));
                let cur = work.join(format!("shard-{}.cur", shard));
                let child = Command::new(&exe)
                    .arg("--worker")
                    .arg(id)
                    .arg(tier.name())
                    .arg(shard.to_string())
                    .arg(nshards.to_string())
                    .arg(skip.to_string())
                    .arg(&out)
                    .arg(&cur)
                    .stdin(Stdio::null())
                    .stdout(Stdio::null())
                    .stderr(Stdio::piped())
                    .spawn();
                match child {
                    Ok(child) => running.push(Running { shard, child, skip, respawns }),
                    Err(e) => infra_errors.push(format!("spawn shard {}: {}", shard, e)),
                }
            } else {
                break;
            }
        }
        if running.is_empty() {
            break;
        }
        // poll
        let mut i = 0;
        let mut progressed = false;
        while i < running.len() {
            let status = running[i].child.try_wait();
            match status {
                Ok(Some(st)) => {
                    progressed = true;
                    let r = running.remove(i);
                    let out = work.join(format!("shard-{}-{}.json", r.shard, r.respawns));
                    let cur = work.join(format!("shard-{}.cur", r.shard));
                    let stats = read_json(&out);
                    let done = stats.as_ref().and_then(|s| s["done"].as_bool()).unwrap_or(false);
                    let mut stderr_txt = String::new();
                    if let Some(mut e) = r.child.stderr {
                        use std::io::Read;
                        let _ = e.read_to_string(&mut stderr_txt);
                    }
                    if st.success() && done {
                        partials.entry(r.shard).or_default().push(stats.unwrap());
                    } else if st.code() == Some(RECYCLE_EXIT) && stats.as_ref().map(|s| s["recycle"] == json!(true)).unwrap_or(false) {
                        // the worker asked for a fresh process (memory): go on behind its last case; not an abort
                        let s = stats.unwrap();
                        let next = s["seq"].as_u64().unwrap_or(r.skip);
                        partials.entry(r.shard).or_default().push(s);
                        recycles += 1;
                        pending.push((r.shard, next, r.respawns + 1000));
                    } else {
                        // worker died: which case?
                        use std::os::unix::process::ExitStatusExt;
                        let what = match st.signal() {
                            Some(libc::SIGXCPU) => "cpu-limit".to_string(),
                            Some(libc::SIGKILL) => "sigkill".to_string(),
                            Some(libc::SIGSEGV) => "sigsegv".to_string(),
                            Some(libc::SIGABRT) => "sigabrt".to_string(),
                            Some(s) => format!("signal{}", s),
                            None => format!("exit{}", st.code().unwrap_or(-1)),
                        };
                        let curcase = shm::read_cur(&cur);
                        if let Some(s) = stats {
                            partials.entry(r.shard).or_default().push(s);
                        }
                        // SIGKILL does not come from the case itself (the CPU budget announces itself with SIGXCPU, a
                        // stack overflow with SIGSEGV/SIGABRT): it is the kernel's out-of-memory killer or an operator
                        // on a loaded machine. The same case is run again, twice at most, before it is held against it.
                        // (For a property whose statement is not about time, a CPU-limit kill is re-tried the same way:
                        // a case that really loops is killed three times and then reported as inconclusive.)
                        if what == "sigkill" || (what == "cpu-limit" && !p.abort_is_verdict()) {
                            if let Some((seq, _)) = &curcase {
                                let n = kill_retries.entry((r.shard, *seq)).or_insert(0u32);
                                if *n < 2 {
                                    *n += 1;
                                    pending.push((r.shard, seq.saturating_sub(1), r.respawns + 1));
                                    continue;
                                }
                            }
                        }
                        match curcase {
                            Some((seq, case)) if st.signal().is_some() || stderr_txt.contains("stack overflow") || stderr_txt.contains("memory allocation") => {
                                abort_events.push(json!({"shard": r.shard, "seq": seq, "what": what, "case": case,
                                    "stderr": stderr_txt.chars().take(300).collect::<String>()}));
                                // every abort is already a recorded event (a verdict for C03/C06/C12/C13); a shard that
                                // keeps dying only burns its CPU budget again and again, so it is given up after a few
                                let limit = if p.abort_is_verdict() { 5 } else { 40 };
                                if r.respawns % 1000 < limit {
                                    pending.push((r.shard, seq, r.respawns + 1));
                                } else if !p.abort_is_verdict() {
                                    infra_errors.push(format!("shard {} died more than {} times", r.shard, limit));
                                }
                            }
                            _ => {
                                infra_errors.push(format!(
                                    "shard {} worker ended with {} (skip {}) stderr: {}",
                                    r.shard,
                                    what,
                                    r.skip,
                                    stderr_txt.chars().take(500).collect::<String>()
                                ));
                            }
                        }
                    }
                }
                Ok(None) => {
                    i += 1;
                }
                Err(e) => {
                    infra_errors.push(format!("wait: {}", e));
                    running.remove(i);
                }
            }
        }
        if !progressed {
            std::thread::sleep(std::time::Duration::from_millis(20));
        }
    }

    // ---- merge. A respawned worker restarts its statistics from the skip point, so partials add up,
    // except that a worker that died had flushed its stats at most 500 ms before: cases between that
    // flush and the death are counted by nobody (conservative under-count).
    for (_shard, parts) in &partials {
        for s in parts {
            merged.evaluations += s["evaluations"].as_u64().unwrap_or(0);
            merged.shrink_steps += s["shrink_steps"].as_u64().unwrap_or(0);
            if let Some(a) = s["nontrivial"].as_array() {
                for h in a {
                    if let Some(h) = h.as_u64() {
                        merged.nontrivial.insert(h);
                    }
                }
            }
            for (field, target) in [("labels", &mut merged.labels), ("discards", &mut merged.discards), ("known_hits", &mut merged.known_hits)] {
                if let Some(m) = s[field].as_object() {
                    for (k, v) in m {
                        *target.entry(k.clone()).or_insert(0) += v.as_u64().unwrap_or(0);
                    }
                }
            }
            if let Some(a) = s["violations"].as_array() {
                merged.violations.extend(a.iter().cloned());
            }
            if let Some(a) = s["samples"].as_array() {
                for x in a {
                    if merged.samples.len() < 12 {
                        merged.samples.push(x.clone());
                    }
                }
            }
        }
    }

    // ---- abort events
    let mut violations_out: Vec<(String, String, Json)> = vec![]; // key, detail, case
    for ev in &abort_events {
        let case = &ev["case"];
        let what = ev["what"].as_str().unwrap_or("?");
        merged.evaluations += 1;
        if p.abort_is_verdict() {
            let key = p.abort_key(case, what);
            if known.is_open(id, &key) {
                *merged.known_hits.entry(key).or_insert(0) += 1;
            } else {
                violations_out.push((key, format!("worker killed ({}) while running this case; stderr: {}", what, ev["stderr"].as_str().unwrap_or("")), case.clone()));
            }
        } else {
            let dump = work.join(format!("abort-shard{}-seq{}.json", ev["shard"], ev["seq"]));
            let _ = std::fs::write(&dump, serde_json::to_string_pretty(ev).unwrap());
            infra_errors.push(format!("worker killed ({}) on a case of a property where that is not a verdict; case saved to {}", what, dump.display()));
        }
    }
    for v in &merged.violations {
        violations_out.push((
            v["key"].as_str().unwrap_or("?").to_string(),
            v["detail"].as_str().unwrap_or("").to_string(),
            v["case"].clone(),
        ));
    }
    // dedupe by key
    let mut seen = BTreeSet::new();
    violations_out.retain(|(k, _, _)| seen.insert(k.clone()));

    // ---- write replays + print
    let replay_dir = root.join("replays").join(id);
    let mut nviol = 0;
    if !violations_out.is_empty() {
        let _ = std::fs::create_dir_all(&replay_dir);
    }
    for (key, detail, case) in &violations_out {
        let safe: String = key.chars().map(|c| if c.is_ascii_alphanumeric() || c == '.' || c == '-' || c == '_' { c } else { '_' }).take(80).collect();
        let path = replay_dir.join(format!("{}-{:08x}.json", safe, case_hash(case) as u32));
        let doc = json!({"property": id, "key": key, "detail": detail, "case": case});
        let _ = std::fs::write(&path, serde_json::to_string_pretty(&doc).unwrap());
        println!("VIOLATION property={} replay={}", id, path.display());
        println!("  key={} detail={}", key, detail.chars().take(600).collect::<String>());
        nviol += 1;
    }

    // ---- floors
    let mut floor_fail = vec![];
    if merged.evaluations > 0 {
        for (label, minfrac) in p.floors(tier) {
            let n = *merged.labels.get(label).unwrap_or(&0);
            let frac = n as f64 / merged.evaluations as f64;
            if frac < minfrac {
                floor_fail.push(format!("label '{}' at {:.5} below floor {}", label, frac, minfrac));
            }
        }
    }

    // ---- evidence
    let wall = t0.elapsed().as_secs_f64();
    let mut coverage = Map::new();
    coverage.insert("evaluations".into(), json!(merged.evaluations));
    coverage.insert("distinct_nontrivial".into(), json!(merged.nontrivial.len()));
    coverage.insert("rule".into(), json!(p.rule()));
    coverage.insert("samples".into(), json!(merged.samples));
    coverage.insert("labels".into(), json!(merged.labels));
    coverage.insert("excluded".into(), json!(merged.discards));
    coverage.insert("known_finding_hits".into(), json!(merged.known_hits));
    coverage.insert("shrink_steps".into(), json!(merged.shrink_steps));
    coverage.insert("worker_aborts".into(), json!(abort_events.len()));
    coverage.insert("worker_recycles_for_memory".into(), json!(recycles));
    coverage.insert("shards".into(), json!(nshards));
    coverage.insert("infrastructure_errors".into(), json!(infra_errors));
    coverage.insert("floor_failures".into(), json!(floor_fail));
    for (k, v) in p.extra_coverage(tier) {
        coverage.insert(k, v);
    }
    let ev = json!({
        "property_id": id,
        "tier": tier.name(),
        "seed": base_seed() as i64,
        "level": "exploration",
        "coverage": coverage,
        "assumptions": p.assumptions(),
        "wall_s": wall,
        "violations": nviol,
        "known_findings_reported": known_lines.len(),
    });
    let evdir = root.join("evidence");
    let _ = std::fs::create_dir_all(&evdir);
    let evpath = evdir.join(format!("{}.json", id));
    if let Err(e) = std::fs::write(&evpath, serde_json::to_string_pretty(&ev).unwrap()) {
        infra_errors.push(format!("cannot write evidence: {}", e));
    }

    println!(
        "{} {}: {} cases, {} distinct non-trivial, {} known-finding hits, {} violations, {:.1}s",
        id,
        tier.name(),
        merged.evaluations,
        merged.nontrivial.len(),
        merged.known_hits.values().sum::<u64>(),
        nviol,
        wall
    );
    let exit = if nviol > 0 {
        1
    } else if !infra_errors.is_empty() || !floor_fail.is_empty() {
        for e in &infra_errors {
            println!("INCONCLUSIVE: {}", e);
        }
        for e in &floor_fail {
            println!("INCONCLUSIVE: {}", e);
        }
        2
    } else {
        0
    };
    RunResult { exit }
}

/// Monitors that skip open known findings and keep checking (history properties) ask this; in
/// strict mode (witness replay, `--replay`) nothing is skipped so the true key surfaces.
pub fn skip_known(property: &str, key: &str) -> bool {
    use std::sync::OnceLock;
    static K: OnceLock<known::Known> = OnceLock::new();
    if std::env::var("VERIF_STRICT").map(|v| v == "1").unwrap_or(false) {
        return false;
    }
    K.get_or_init(known::load).is_open(property, key)
}

pub fn signal_name(sig: i32) -> String {
    match sig {
        libc::SIGXCPU => "cpu-limit".to_string(),
        libc::SIGKILL => "sigkill".to_string(),
        libc::SIGSEGV => "sigsegv".to_string(),
        libc::SIGABRT => "sigabrt".to_string(),
        s => format!("signal{}", s),
    }
}

pub enum ReplayOutcome {
    Pass,
    Fail(String, String),
    Infra(String),
}

/// run one saved case in a child process (so that aborts are observable)
pub fn replay_in_child(exe: &Path, id: &str, file: &Path) -> ReplayOutcome {
    let out = Command::new(exe).arg("--replay-child").arg(id).arg(file).env("VERIF_STRICT", if std::env::var("VERIF_LENIENT").is_ok() { "0" } else { "1" }).stdin(Stdio::null()).output();
    match out {
        Err(e) => ReplayOutcome::Infra(format!("spawn: {}", e)),
        Ok(o) => {
            use std::os::unix::process::ExitStatusExt;
            let so = String::from_utf8_lossy(&o.stdout).to_string();
            if let Some(sig) = o.status.signal() {
                return ReplayOutcome::Fail(format!("abort.{}", signal_name(sig)), "killed by signal".into());
            }
            for line in so.lines() {
                if let Some(rest) = line.strip_prefix("REPLAY-FAIL ") {
                    let (k, d) = rest.split_once(' ').unwrap_or((rest, ""));
                    return ReplayOutcome::Fail(k.to_string(), d.to_string());
                }
                if line.starts_with("REPLAY-PASS") {
                    return ReplayOutcome::Pass;
                }
                if line.starts_with("REPLAY-DISCARD") {
                    return ReplayOutcome::Pass;
                }
            }
            let se = String::from_utf8_lossy(&o.stderr).to_string();
            if se.contains("stack overflow") {
                return ReplayOutcome::Fail("abort.sigabrt".into(), "stack overflow".into());
            }
            ReplayOutcome::Infra(format!("no verdict from replay child: {} {}", so, se))
        }
    }
}

pub fn replay_child(p: &dyn Property, file: &Path) -> i32 {
    panics::install_hook();
    let doc = match read_json(file) {
        Some(d) => d,
        None => {
            println!("REPLAY-INFRA cannot read {}", file.display());
            return 2;
        }
    };
    let case = if doc.get("case").is_some() { doc["case"].clone() } else { doc.clone() };
    shm::arm_cpu_limit(p.cpu_budget_s().max(30));
    let mut obs = Obs::default();
    match guarded_check(p, &case, &mut obs) {
        Verdict::Pass => println!("REPLAY-PASS"),
        Verdict::Discard(r) => println!("REPLAY-DISCARD {}", r),
        Verdict::Fail { key, detail } => println!("REPLAY-FAIL {} {}", key, detail.replace('\n', " ")),
    }
    0
}

/// `./check <ID> --replay file`
pub fn replay_cmd(p: &dyn Property, file: &Path) -> i32 {
    let exe = std::env::current_exe().expect("exe");
    let known = known::load();
    match replay_in_child(&exe, p.id(), file) {
        ReplayOutcome::Pass => {
            println!("replay: property {} holds on {}", p.id(), file.display());
            0
        }
        ReplayOutcome::Fail(mut key, detail) => {
            if key.starts_with("abort.") {
                if let Some(doc) = read_json(file) {
                    let case = if doc.get("case").is_some() { doc["case"].clone() } else { doc };
                    key = p.abort_key(&case, key.trim_start_matches("abort."));
                }
            }
            if known.is_open(p.id(), &key) {
                println!("KNOWN-FINDING: property={} key={} (replayed {})", p.id(), key, file.display());
                0
            } else {
                println!("VIOLATION property={} replay={}", p.id(), file.display());
                println!("  key={} detail={}", key, detail);
                1
            }
        }
        ReplayOutcome::Infra(e) => {
            println!("INCONCLUSIVE: {}", e);
            2
        }
    }
}

/// committed regression cases for a property: regress/<ID>/*.json (each {"case": …} or a bare case)
pub fn regress_cases(id: &str) -> Vec<Json> {
    let dir = verif_root().join("regress").join(id);
    let mut files: Vec<PathBuf> = match std::fs::read_dir(&dir) {
        Ok(rd) => rd.filter_map(|e| e.ok().map(|e| e.path())).filter(|p| p.extension().map(|x| x == "json").unwrap_or(false)).collect(),
        Err(_) => vec![],
    };
    files.sort();
    files
        .iter()
        .filter_map(|f| read_json(f))
        .map(|d| if d.get("case").is_some() { d["case"].clone() } else { d })
        .collect()
}

/// Helper for strategies: monotone index mapping (shrinks towards 0).
pub fn pick_index(raw: u16, len: usize) -> usize {
    if len == 0 {
        0
    } else {
        ((raw as usize) * len) >> 16
    }
}

pub fn boxed<S: Strategy<Value = Json> + 'static>(s: S) -> BoxedStrategy<Json> {
    s.boxed()
}
