//! KNOWN_FINDINGS.txt: one line per root cause.
//!   open:  property=C02 key=<key> witness=<path relative to /verif> :: description
//!   fixed: property=C18 <commit> description            (suppresses nothing)
//! The file is only ever read at run time.

use super::verif_root;

#[derive(Clone, Debug)]
pub struct Finding {
    pub property: String,
    pub key: String,
    pub witness: String,
    pub description: String,
}

#[derive(Default)]
pub struct Known {
    pub open: Vec<Finding>,
}

impl Known {
    pub fn is_open(&self, property: &str, key: &str) -> bool {
        self.open.iter().any(|f| f.property == property && f.key == key)
    }
    pub fn open_for(&self, property: &str) -> Vec<Finding> {
        self.open.iter().filter(|f| f.property == property).cloned().collect()
    }
}

pub fn load() -> Known {
    let path = verif_root().join("KNOWN_FINDINGS.txt");
    let mut k = Known::default();
    let text = match std::fs::read_to_string(path) {
        Ok(t) => t,
        Err(_) => return k,
    };
    for line in text.lines() {
        let line = line.trim();
        if !line.starts_with("open:") {
            continue;
        }
        let body = line["open:".len()..].trim();
        let (head, desc) = body.split_once("::").unwrap_or((body, ""));
        let mut property = String::new();
        let mut key = String::new();
        let mut witness = String::new();
        for tok in head.split_whitespace() {
            if let Some(v) = tok.strip_prefix("property=") {
                property = v.to_string();
            } else if let Some(v) = tok.strip_prefix("key=") {
                key = v.to_string();
            } else if let Some(v) = tok.strip_prefix("witness=") {
                witness = v.to_string();
            }
        }
        if !property.is_empty() && !key.is_empty() {
            k.open.push(Finding { property, key, witness, description: desc.trim().to_string() });
        }
    }
    k
}
