//! C06 — XPath parsing and evaluation are total.

use crate::engine::{panics, Json, Obs, Property, Tier, Verdict};
use crate::gen::genes::Genes;
use crate::gen::mutate;
use crate::gen::xgen::{self, ExprGen, Rng, Ty};
use proptest::prelude::*;
use serde_json::json;

pub struct C06;

pub const DOCS: &[&str] = &[
    "<a/>",
    "<?p q?><r xmlns:p=\"urn:x\"><a id=\"1\" p:k=\"v\">x<b/>y</a><!--c--><c xml:lang=\"en\"><d/></c><?p2 q2?>t</r><!--e-->",
    "<!DOCTYPE r [<!ENTITY e \"ee\"><!ENTITY u SYSTEM \"s\" NDATA n><!NOTATION n SYSTEM \"n\"><!ATTLIST a d CDATA \"dv\" r CDATA #REQUIRED>]><r>t1<a n=\"1\">&e;<![CDATA[cd]]>&#65;</a><b><c><d>deep</d></c></b></r>",
    "<r xmlns=\"urn:x\" xmlns:q=\"urn:y\"><q:a q:n=\"1\"><b xmlns=\"\">1</b><b>2</b></q:a><a>10</a><a> 3 </a></r>",
    "<!DOCTYPE r [<!ENTITY e0 \"x\"><!ENTITY e1 \"&e0;&e0;\"><!ENTITY e2 \"&e1;&e1;\"><!ENTITY e3 \"&e2;&e2;\">]><r a=\"&e3;\">&e3;<x>&e2;</x></r>",
    // siblings that are equal in content but distinct nodes (identity vs equality), at two levels
    "<r><a/><b/><a/>t<d>x</d>t<d>x</d><b><a/><b/><a/></b><b><a/><b/><a/></b></r>",
];

const SOUP: &[&str] = &[
    "/", "//", ".", "..", "@", "*", "::", "[", "]", "(", ")", ",", "|", "+", "-", "=", "!=", "<", "<=", ">", ">=", " ", "\t", "\n", "and", "or", "div", "mod", "a", "b", "x:a", "x:*", "$v",
    "$x:v", "child", "parent", "ancestor", "self", "attribute", "namespace", "following", "preceding-sibling", "descendant-or-self", "text()", "node()", "comment()",
    "processing-instruction()", "processing-instruction('p')", "id(", "id('x')", "count(", "last()", "position()", "string(", "concat(", "substring(", "translate(", "sum(", "not(",
    "lang('en')", "1", "0", "1.5", ".5", "5.", "1e3", "999999999999999999999999", "'", "\"", "'s'", "\"s\"", "''", "\u{e9}", "\u{1F600}", "#", "{", "}", ":", "::*", "@*", "//*", "[1]", "[last()]", "[0]",
    "[-1]", "[1.5]", "[.]", "[..]", "unknown(", "true()", "false()", "number(", "round(", "1 div 0", "0 div 0", "-", "--",
];

fn family(name: &str, n: usize) -> String {
    match name {
        "nested-parens" => format!("{}1{}", "(".repeat(n), ")".repeat(n)),
        "nested-calls" => format!("{}1{}", "not(".repeat(n), ")".repeat(n)),
        "nested-string-calls" => format!("{}'x'{}", "string(".repeat(n), ")".repeat(n)),
        "nested-predicates" => format!("a{}1{}", "[a".repeat(n), "]".repeat(n)),
        "nested-filter-predicates" => format!("{}//a{}", "(".repeat(n), ")[1]".repeat(n)),
        "operand-chain-plus" => (0..n).map(|i| i.to_string()).collect::<Vec<_>>().join("+"),
        "operand-chain-or" => (0..n).map(|_| "a".to_string()).collect::<Vec<_>>().join(" or "),
        "union-chain" => (0..n).map(|_| "//a".to_string()).collect::<Vec<_>>().join("|"),
        "long-path" => (0..n).map(|_| "a".to_string()).collect::<Vec<_>>().join("/"),
        "long-descendant-path" => (0..n).map(|_| "*".to_string()).collect::<Vec<_>>().join("//"),
        // fan out and come back: without de-duplication between steps the work multiplies at every pair
        "child-parent-steps" => format!("/r{}", "/node()/..".repeat(n)),
        "descendant-or-self-steps" => format!("/{}", "/descendant-or-self::node()".repeat(n)).replacen("//", "/", 1),
        "sibling-steps" => format!("/r/node(){}", "/following-sibling::node()/preceding-sibling::node()".repeat(n)),
        "ancestor-descendant-steps" => format!("//node(){}", "/ancestor::node()/descendant::node()".repeat(n)),
        // parentheses that are each continued at their own level (a parser that tries '(' twice doubles per level)
        "nested-parens-continued" => format!("{}1{}", "(".repeat(n), "+1)".repeat(n)),
        "nested-path-parens" => format!("{}/r{}", "(".repeat(n), "/a)".repeat(n)),
        "nested-predicate-parens" => format!("{}//a{}", "(".repeat(n), "[1])".repeat(n)),
        // '//' steps on elements nested in elements of the same name (document: a chain of 2n <a>, see nesting_doc):
        // the descendant sets of nested context nodes overlap, so duplicates must go after every step
        "descendant-steps-on-nesting" => "//a".repeat(n),
        "descendant-star-steps-on-nesting" => format!("/r{}", "//*".repeat(n)),
        "descendant-steps-in-count-on-nesting" => format!("count(/r{}/@id)", "//a".repeat(n)),
        "descendant-steps-in-predicate-on-nesting" => format!("//a[.{}]", "//a".repeat(n)),
        "minus-run" => format!("{}1", "-".repeat(n)),
        "parent-run" => (0..n).map(|_| "..".to_string()).collect::<Vec<_>>().join("/"),
        "unclosed-parens" => "(".repeat(n),
        "unclosed-predicates" => format!("a{}", "[".repeat(n)),
        "huge-number" => "9".repeat(n),
        "concat-args" => format!("concat({})", (0..n.max(2)).map(|_| "'x'".to_string()).collect::<Vec<_>>().join(",")),
        _ => String::new(),
    }
}

const FAMILIES: &[(&str, &[usize])] = &[
    ("nested-parens", &[2, 8, 14, 20, 26, 40, 200, 2000]),
    ("nested-calls", &[2, 8, 14, 20, 26, 40, 200, 2000]),
    ("nested-string-calls", &[2, 8, 14, 20, 26, 40, 200]),
    ("nested-predicates", &[2, 8, 14, 20, 26, 40, 200]),
    ("nested-filter-predicates", &[2, 8, 14, 20, 26, 40]),
    ("operand-chain-plus", &[10, 100, 2000]),
    ("operand-chain-or", &[10, 100, 2000]),
    ("union-chain", &[10, 100, 1000]),
    ("long-path", &[10, 100, 2000]),
    ("long-descendant-path", &[2, 4, 6, 8, 10, 12]),
    ("child-parent-steps", &[2, 4, 8, 12, 16, 40]),
    ("descendant-or-self-steps", &[2, 4, 6, 8, 12, 24]),
    ("sibling-steps", &[2, 4, 6, 10, 20]),
    ("ancestor-descendant-steps", &[2, 4, 6, 10, 20]),
    ("nested-parens-continued", &[2, 8, 14, 20, 26, 40]),
    ("nested-path-parens", &[2, 8, 14, 20, 26, 40]),
    ("nested-predicate-parens", &[2, 8, 14, 20, 26, 40]),
    ("descendant-steps-on-nesting", &[2, 4, 8, 12, 14, 16]),
    ("descendant-star-steps-on-nesting", &[2, 4, 8, 12, 16, 20]),
    ("descendant-steps-in-count-on-nesting", &[2, 4, 8, 12, 16, 20]),
    ("descendant-steps-in-predicate-on-nesting", &[2, 4, 8, 12, 16]),
    ("minus-run", &[10, 1000, 100000]),
    ("parent-run", &[10, 1000]),
    ("unclosed-parens", &[10, 1000, 100000]),
    ("unclosed-predicates", &[10, 1000, 100000]),
    ("huge-number", &[10, 400, 10000]),
    ("concat-args", &[10, 5000]),
];

/// 2n elements <a id=".."> nested in each other, with a leaf at the bottom
fn nesting_doc(n: usize) -> String {
    let mut s = String::from("<r>");
    for i in 0..(2 * n) {
        s.push_str(&format!("<a id=\"{}\">", i));
    }
    s.push_str("<b/>t");
    s.push_str(&"</a>".repeat(2 * n));
    s.push_str("</r>");
    s
}

pub enum Out {
    Value(xml_xpath::eval::model::Value),
    Err(String),
}

pub fn run(doc: &xml_dom::XmlDocument, expr: &str) -> Out {
    let mut ctx = xml_xpath::eval::model::Context::default();
    ctx.add_ns(Some("x"), "urn:x");
    ctx.add_ns(Some("y"), "urn:y");
    ctx.add_ns(Some("z"), "urn:z");
    ctx.add_ns(Some("xml"), "http://www.w3.org/XML/1998/namespace");
    match xml_xpath::query(doc.clone(), expr, &mut ctx) {
        Ok(v) => {
            // using the value must be total as well (string-value of the nodes, as xq would print)
            let s = format!("{}", v);
            std::hint::black_box(s.len());
            Out::Value(v)
        }
        Err(e) => Out::Err(format!("{:?}", e)),
    }
}

impl Property for C06 {
    fn id(&self) -> &'static str {
        "C06"
    }
    fn rule(&self) -> String {
        "expression strings x a pool of accepted documents and generated documents (PIs, namespaces, DTD-defaulted and #REQUIRED attributes, unparsed entities, CDATA and references, a doubling entity chain): \
         (a) token soup over the XPath alphabet incl. variable references, id(), processing-instruction('t'), unknown functions, axis names, odd numbers, unbalanced quotes and brackets; \
         (b) spellings of generated ASTs with 12% deliberately erroneous sub-expressions (variables, unknown functions, wrong arity, wrong argument types); (c) character-level mutants \
         of valid spellings; (d) sized families: nested parentheses (plain and continued at every level) / function calls / predicates / filter predicates, operand and union chains, long paths, fan-out-and-return step chains (child/parent, descendant-or-self, siblings, ancestor/descendant), chains of '//' steps on a document of 2n elements nested in each other, runs of '-' and '..', every kind of context node (incl. DTD-supplied attributes and namespace nodes) x every axis and x absolute paths inside its predicate, \
         unclosed brackets, huge numbers, many arguments. Oracle: in a worker process xml_xpath::query and the formatting of its result must return: a panic is caught and keyed by its \
         site, a worker death or an exhausted CPU budget (8 s) is attributed to the announced case; in addition '$v' must be an error, id() an error or an empty node-set, and '/..' \
         an error or an empty node-set. Non-trivial = the expression parsed and evaluation ran (a value or an evaluation error), or the case is a family member; distinct by (document, expression)."
            .into()
    }
    fn assumptions(&self) -> Vec<String> {
        vec!["CPU-time thresholds on sized families cannot prove polynomial behaviour".into()]
    }
    fn cases_per_shard(&self, tier: Tier) -> u32 {
        tier.pick(6000, 200000)
    }
    fn abort_is_verdict(&self) -> bool {
        true
    }
    fn cpu_budget_s(&self) -> u64 {
        8 // the slowest family member needs < 1 s
    }
    fn abort_key(&self, case: &Json, what: &str) -> String {
        let what = if what.starts_with("sig") && what != "sigkill" { "crash" } else { what };
        match case["family"].as_str() {
            // every kind of deep nesting dies in the same recursive-descent parser / recursive evaluator
            Some(f) if what == "crash" && (f.starts_with("nested-") || f.starts_with("unclosed-") || f == "minus-run") => "c06.crash.expression-nesting".to_string(),
            Some(f) => format!("c06.{}.family-{}", what, f),
            None => format!("c06.{}.generated", what),
        }
    }
    fn strategy(&self, _tier: Tier) -> BoxedStrategy<Json> {
        let soup = (proptest::collection::vec(any::<u16>(), 0..24), 0usize..DOCS.len()).prop_map(|(idx, d)| {
            let s: String = idx.iter().map(|i| SOUP[crate::engine::pick_index(*i, SOUP.len())]).collect();
            json!({"doc": d, "expr": s, "_labels": ["source:soup"]})
        });
        let ast = (
            proptest::collection::vec(any::<u16>(), 0..120),
            proptest::collection::vec(any::<u8>(), 0..40),
            0usize..5,
            1u32..6,
            0usize..DOCS.len(),
            proptest::collection::vec(any::<u16>(), 0..8),
        )
            .prop_map(|(e, s, ty, depth, d, m)| {
                let gen = ExprGen { error_pct: 12, coerce_pct: 25, ..ExprGen::default() };
                let mut gen = gen;
                gen.elem_names = vec![(None, "a".into()), (None, "b".into()), (Some("x".into()), "a".into()), (None, "r".into()), (None, "d".into())];
                gen.attr_names = vec![(None, "id".into()), (None, "n".into()), (Some("x".into()), "k".into()), (None, "d".into())];
                let mut re = Rng::new(e);
                let a = gen.gen(&mut re, [Ty::NodeSet, Ty::NodeSet, Ty::Num, Ty::Str, Ty::Bool][ty], depth);
                let mut ch = vp_xref::Choices::new(s);
                let mut sp = match vp_xref::spell(&a, &mut ch) {
                    Ok(s) => s,
                    Err(_) => return json!({"_discard": "unspellable"}),
                };
                let mut label = "source:ast";
                if !m.is_empty() {
                    let mut g = Genes::new(m);
                    if g.chance(1, 2) {
                        sp = mutate::char_edit(&sp, &mut g);
                        label = "source:mutant";
                    }
                }
                json!({"doc": d, "expr": sp, "_labels": [label]})
            });
        // generated documents (reference tree generator) with expressions over their own vocabulary
        let gendoc = (proptest::collection::vec(any::<u16>(), 0..160), proptest::collection::vec(any::<u16>(), 0..120), proptest::collection::vec(any::<u8>(), 0..40), 0usize..5, 1u32..6).prop_map(|(t, e, s, ty, depth)| {
            let mut rt = Rng::new(t);
            let tree = xgen::gen_tree(&mut rt);
            let text = vp_xref::to_xml(&tree);
            let gen = ExprGen { error_pct: 6, coerce_pct: 25, ..ExprGen::default() }.with_vocabulary(&tree);
            let mut re = Rng::new(e);
            let a = gen.gen(&mut re, [Ty::NodeSet, Ty::NodeSet, Ty::Num, Ty::Str, Ty::Bool][ty], depth);
            let mut ch = vp_xref::Choices::new(s);
            match vp_xref::spell(&a, &mut ch) {
                Ok(sp) => json!({"doc": 0, "doc_text": text, "expr": sp, "_labels": ["source:generated-document"]}),
                Err(_) => json!({"_discard": "unspellable"}),
            }
        });
        prop_oneof![2 => soup, 5 => ast, 3 => gendoc].boxed()
    }
    fn fixed_cases(&self, _tier: Tier) -> Vec<Json> {
        let mut v = vec![];
        for (name, sizes) in FAMILIES {
            for n in sizes.iter() {
                v.push(json!({"family": name, "n": n, "doc": 1, "_labels": [format!("family:{}", name)], "_nontrivial": true}));
            }
        }
        for (i, _) in DOCS.iter().enumerate() {
            for e in ["$v", "$x:v + 1", "id('x')", "id(//a)", "//a[id('1')]", "/..", "/../a", "//@*/..", "//@*/../..", "//namespace::*/..", "processing-instruction('p')", "//processing-instruction('p2')", "string(//@d)", "string(/)", "//@r", "count(//@*)", "//text()[1]", "sum(//a)", "/r/@a", "string(/r/@a)", "string-length(/)"] {
                v.push(json!({"doc": i, "expr": e, "_labels": ["hand-written"], "_nontrivial": true}));
            }
        }
        // every kind of context node x every axis, and absolute paths evaluated from it (inside a predicate the context
        // node is an attribute - written or supplied by the DTD -, a namespace node, a text node, a comment, a PI ...)
        const CONTEXTS: &[&str] = &["//@*", "//namespace::*", "//text()", "//comment()", "//processing-instruction()", "//*", "/", "//@d", "//@r"];
        const AXES: &[&str] = &["ancestor", "ancestor-or-self", "attribute", "child", "descendant", "descendant-or-self", "following", "following-sibling", "namespace", "parent", "preceding", "preceding-sibling", "self"];
        const FROM_ROOT: &[&str] = &["/", "//*", "/*/@*", "/r/..", "//b = .", ". = /r/@a", "count(//node()) > 0", "/descendant::node()[1]", "string(/) = ."];
        for (i, _) in DOCS.iter().enumerate() {
            for c in CONTEXTS {
                for a in AXES {
                    v.push(json!({"doc": i, "expr": format!("{}/{}::node()", c, a), "_labels": ["context-x-axis"], "_nontrivial": true}));
                    v.push(json!({"doc": i, "expr": format!("count({}[{}::node()])", c, a), "_labels": ["context-x-axis"], "_nontrivial": true}));
                }
                for p in FROM_ROOT {
                    v.push(json!({"doc": i, "expr": format!("{}[{}]", c, p), "_labels": ["absolute-path-from-context"], "_nontrivial": true}));
                }
            }
        }
        v.extend(crate::engine::regress_cases("C06"));
        v
    }
    fn check(&self, case: &Json, obs: &mut Obs) -> Verdict {
        let di = case["doc"].as_u64().unwrap_or(0) as usize % DOCS.len();
        let expr: String = match case["family"].as_str() {
            Some(f) => family(f, case["n"].as_u64().unwrap_or(1) as usize),
            None => case["expr"].as_str().unwrap_or("").to_string(),
        };
        let nested = match case["family"].as_str() {
            Some(f) if f.ends_with("-on-nesting") => Some(nesting_doc(case["n"].as_u64().unwrap_or(1) as usize)),
            _ => None,
        };
        let doc_text = nested.as_deref().unwrap_or_else(|| case["doc_text"].as_str().unwrap_or(DOCS[di]));
        let doc = match xml_dom::XmlDocument::from_raw_with_context(doc_text, xml_dom::Context::from_text_expanded(true)) {
            Ok((rest, d)) if rest.is_empty() => d,
            _ => return Verdict::Discard("document-rejected".into()),
        };
        let t0 = cpu_ms();
        let out = run(&doc, &expr);
        let dt = cpu_ms() - t0;
        if case["family"].is_string() {
            obs.label(format!("cpu_ms:{}:n={}:{}", case["family"].as_str().unwrap_or(""), case["n"], bucket(dt)));
        }
        let trimmed = expr.trim();
        match &out {
            Out::Err(e) => {
                obs.label(if e.starts_with("ExprSyntax") || e.starts_with("ExprRemain") { "syntax-error" } else { "evaluation-error" });
                obs.nontrivial = Some(!(e.starts_with("ExprSyntax") || e.starts_with("ExprRemain")) || case["family"].is_string());
            }
            Out::Value(v) => {
                obs.label("value");
                obs.nontrivial = Some(true);
                // constructs the statement names
                if trimmed.starts_with('$') && !trimmed.contains(|c: char| c.is_whitespace() || "+-*/|=<>[](),".contains(c)) {
                    return Verdict::fail("c06.variable-reference-has-a-value", format!("{:?} evaluates to {:?}", expr, v));
                }
                if trimmed == "/.." || trimmed == "/../a" {
                    if let xml_xpath::eval::model::Value::Node(ns) = v {
                        if !ns.is_empty() {
                            return Verdict::fail("c06.parent-of-root-selects-something", format!("{:?} selects {} node(s)", expr, ns.len()));
                        }
                    }
                }
                if trimmed.starts_with("id(") && trimmed.ends_with(')') && trimmed.matches('(').count() == 1 {
                    match v {
                        xml_xpath::eval::model::Value::Node(ns) if ns.is_empty() => {}
                        other => return Verdict::fail("c06.id-has-a-value", format!("{:?} evaluates to {:?}", expr, other)),
                    }
                }
            }
        }
        let _ = panics::catch(|| ());
        Verdict::Pass
    }
    fn floors(&self, _tier: Tier) -> Vec<(&'static str, f64)> {
        vec![("value", 0.1), ("evaluation-error", 0.05), ("syntax-error", 0.1)]
    }
}

fn cpu_ms() -> u64 {
    unsafe {
        let mut ts: libc::timespec = std::mem::zeroed();
        libc::clock_gettime(libc::CLOCK_PROCESS_CPUTIME_ID, &mut ts);
        ts.tv_sec as u64 * 1000 + ts.tv_nsec as u64 / 1_000_000
    }
}

fn bucket(ms: u64) -> &'static str {
    match ms {
        0..=9 => "<10ms",
        10..=99 => "<100ms",
        100..=999 => "<1s",
        1000..=4999 => "<5s",
        _ => ">=5s",
    }
}
