//! C17 — xe rewrites exactly the selected nodes; xq prints exactly the selection (the two CLI processes).

use crate::engine::{skip_known, verif_root, Json, Obs, Property, Tier, Verdict};
use crate::gen::xgen::{self, ExprGen, Rng, Ty};
use crate::oracle::xjson;
use crate::props::c01::{attribute, labels_of};
use proptest::prelude::*;
use serde_json::json;
use std::io::Write;
use std::process::{Command, Stdio};
use vp_xref::tree::{Kind, XTree};

pub struct C17;

pub const TRIGGERS: &[(&str, &str)] = &[
    ("value-has-character-reference", "c17.xe.refused.character-reference-in-value"),
    ("value-has-prefixed-name", "c17.xe.wrong-result.prefix-or-namespace-declaration-in-value-dropped"),
    ("attribute-gets-tab-or-line-end", "c17.xe.wrong-result.tab-or-line-end-in-attribute-value-printed-literally"),
];

// ---------------------------------------------------------------------------------------------
// running the tools

pub struct Out {
    pub code: Option<i32>,
    pub stdout: Vec<u8>,
    pub stderr: String,
}

fn tool_path(tool: &str) -> std::path::PathBuf {
    verif_root().join("target/repo/release/examples").join(tool)
}

fn run_tool(tool: &str, args: &[String], stdin: Option<&[u8]>) -> Result<Out, String> {
    let mut cmd = Command::new(tool_path(tool));
    cmd.args(args).env("RUST_BACKTRACE", "0").stdout(Stdio::piped()).stderr(Stdio::piped());
    cmd.stdin(if stdin.is_some() { Stdio::piped() } else { Stdio::null() });
    let mut child = cmd.spawn().map_err(|e| format!("cannot start {}: {}", tool, e))?;
    if let Some(data) = stdin {
        if let Some(mut si) = child.stdin.take() {
            let _ = si.write_all(data); // EPIPE when the tool stops before reading
        }
    }
    let o = child.wait_with_output().map_err(|e| format!("wait: {}", e))?;
    Ok(Out { code: o.status.code(), stdout: o.stdout, stderr: String::from_utf8_lossy(&o.stderr).to_string() })
}

fn scratch_file(text: &[u8]) -> Result<std::path::PathBuf, String> {
    use std::sync::atomic::{AtomicU64, Ordering};
    static N: AtomicU64 = AtomicU64::new(0);
    let dir = verif_root().join("work/c17");
    std::fs::create_dir_all(&dir).map_err(|e| e.to_string())?;
    let p = dir.join(format!("{}-{}.xml", std::process::id(), N.fetch_add(1, Ordering::Relaxed) % 4));
    std::fs::write(&p, text).map_err(|e| e.to_string())?;
    Ok(p)
}

// ---------------------------------------------------------------------------------------------
// model helpers

/// canonical JSON of a subtree of the reference tree (namespace nodes left out; attributes sorted)
fn sub_json(t: &XTree, i: usize, strip_ws: bool) -> Json {
    let n = &t.nodes[i];
    let clean = |s: &str| -> String {
        if strip_ws {
            s.chars().filter(|c| !c.is_whitespace()).collect()
        } else {
            s.to_string()
        }
    };
    match n.kind {
        Kind::Root | Kind::Element => {
            let mut attrs: Vec<(String, String, Json)> = n
                .attrs
                .iter()
                .map(|&a| {
                    let x = &t.nodes[a];
                    (x.uri.clone().unwrap_or_default(), x.local.clone(), json!({"p": x.prefix, "l": x.local, "u": x.uri, "v": x.value}))
                })
                .collect();
            attrs.sort_by(|a, b| (&a.0, &a.1).cmp(&(&b.0, &b.1)));
            let mut kids: Vec<Json> = vec![];
            for &c in &n.children {
                let k = &t.nodes[c];
                if strip_ws && k.kind == Kind::Text {
                    let v = clean(&k.value);
                    if v.is_empty() {
                        continue;
                    }
                    // text split by pretty printing: merge with a preceding text
                    if let Some(last) = kids.last_mut() {
                        if last["k"] == "text" {
                            let merged = format!("{}{}", last["v"].as_str().unwrap_or(""), v);
                            last["v"] = json!(merged);
                            continue;
                        }
                    }
                    kids.push(json!({"k": "text", "v": v}));
                    continue;
                }
                kids.push(sub_json(t, c, strip_ws));
            }
            json!({"k": if n.kind == Kind::Root { "root" } else { "elem" }, "p": n.prefix, "l": n.local, "u": n.uri, "a": attrs.into_iter().map(|x| x.2).collect::<Vec<_>>(), "c": kids})
        }
        Kind::Text => json!({"k": "text", "v": clean(&n.value)}),
        Kind::Comment => json!({"k": "comment", "v": n.value}),
        Kind::PI => json!({"k": "pi", "l": n.local, "v": if strip_ws { n.value.trim().to_string() } else { n.value.clone() }}),
        Kind::Attribute => json!({"k": "attr", "p": n.prefix, "l": n.local, "u": n.uri, "v": n.value}),
        Kind::Namespace => json!({"k": "ns", "l": n.local, "v": n.value}),
    }
}

fn unescape(s: &str) -> Option<String> {
    let mut out = String::new();
    let mut rest = s;
    while let Some(i) = rest.find('&') {
        out.push_str(&rest[..i]);
        let tail = &rest[i + 1..];
        let j = tail.find(';')?;
        let name = &tail[..j];
        match name {
            "lt" => out.push('<'),
            "gt" => out.push('>'),
            "amp" => out.push('&'),
            "quot" => out.push('"'),
            "apos" => out.push('\''),
            _ => {
                let cp = if let Some(h) = name.strip_prefix("#x") { u32::from_str_radix(h, 16).ok()? } else { name.strip_prefix('#')?.parse::<u32>().ok()? };
                out.push(char::from_u32(cp)?);
            }
        }
        rest = &tail[j + 1..];
    }
    out.push_str(rest);
    Some(out)
}

fn sanitize_for_lines(t: &mut XTree) {
    for n in t.nodes.iter_mut() {
        if n.value.contains('\n') || n.value.contains('\r') {
            n.value = n.value.replace(['\n', '\r'], " ");
        }
    }
}

// ---------------------------------------------------------------------------------------------
// generators

const FRAG_TEXT: &[&str] = &["Z", "new text", "a b", "x&amp;y", "&lt;tag&gt;", "1", " ", "\u{e9}t\u{e9}", "", "it's", "say &quot;hi&quot;", "q\"q", "2 &gt; 1", "]]&gt;", "a\tb", "l1\nl2", "Tom's \"best\"", "'&quot;'"];
const FRAG_MARKUP: &[&str] = &[
    "<n/>", "<n k=\"v\">t</n>", "<i><j/>t</i>", "<!--c-->", "<![CDATA[<raw>&]]>", "<a id=\"1\"/>", "<b>b<b>bb</b></b>", "<n k=\"a&amp;b\" m='x'/>", "<![CDATA[]]>", "<n>&lt;</n>",
    "<div k=\"1\"><div/></div>", "<!---->",
];
const FRAG_KNOWN: &[(&str, &str)] = &[
    ("&#65;", "value-has-character-reference"),
    ("x&#x20;y", "value-has-character-reference"),
    ("<q:e xmlns:q=\"urn:q\"/>", "value-has-prefixed-name"),
    ("<e xmlns=\"urn:d\"/>", "value-has-prefixed-name"),
    ("<e q:k=\"1\" xmlns:q=\"urn:q\"/>", "value-has-prefixed-name"),
    ("<n xml:lang=\"en\">t</n>", "value-has-prefixed-name"),
];
const BAD_VALUES: &[&str] = &["<a>", "</a>", "&", "<", "a<!--", "&undefined;", "<a b=c/>", "<a><b></a></b>", "<![CDATA[x", "<a b=\"1\" b=\"2\"/>", "<?xml version=\"1.0\"?>", "\u{1}", "<a/ >"];
const BAD_EXPR_SUFFIX: &[&str] = &["[", "(", ")", "]", " |", " and", "/@", "::", " div", "[1", "//", "/..."];
const BAD_EXPRS: &[&str] = &["", " ", "$v", "nosuchfunction()", "//undeclared:a", "count()", "//a[", "1 +", "'unterminated", "child::", "//*[@]", "!", "a b", "/..//@@k", "string(1,2)"];

fn fragment(r: &mut Rng, labels: &mut Vec<String>) -> String {
    let mut s = String::new();
    let style = r.below(10);
    if style < 4 {
        // text only (usable for attribute targets)
        for _ in 0..(1 + r.below(2)) {
            s.push_str(*r.pick(FRAG_TEXT));
        }
        labels.push("value:text-only".into());
        return s;
    }
    if style == 9 {
        let (f, l) = *r.pick(FRAG_KNOWN);
        labels.push(l.to_string());
        if r.pct(50) {
            s.push_str(*r.pick(FRAG_TEXT));
        }
        s.push_str(f);
        return s;
    }
    let n = r.below(4);
    for _ in 0..n {
        if r.pct(35) {
            s.push_str(*r.pick(FRAG_TEXT));
        } else {
            s.push_str(*r.pick(FRAG_MARKUP));
        }
    }
    if r.pct(4) {
        s.push_str("<?p d?>");
        labels.push("value-has-pi".into());
    }
    labels.push(if n == 0 { "value:empty".into() } else { "value:mixed".into() });
    s
}

struct Mode {
    no_indent: bool,
    stdin: bool,
    setns: bool,
    xml_decl: bool,
}

fn mode(r: &mut Rng) -> Mode {
    Mode { no_indent: !r.pct(25), stdin: r.pct(30), setns: true, xml_decl: r.pct(20) }
}

fn setns_args(ns: &[(String, String)], args: &mut Vec<String>) {
    for (p, u) in ns {
        args.push("--setns".into());
        args.push(format!("xmlns:{}={}", p, u));
    }
}

fn make_case(tg: Vec<u16>, eg: Vec<u16>, sg: Vec<u8>, mg: Vec<u16>) -> Json {
    let mut r = Rng::new(mg);
    let tool = if r.pct(55) { "xe" } else { "xq" };
    let kind_roll = r.below(100);
    let mut labels: Vec<String> = vec![format!("tool:{}", tool)];
    let mut rt = Rng::new(tg);
    let mut tree = xgen::gen_tree(&mut rt);
    if tool == "xq" {
        sanitize_for_lines(&mut tree);
    }
    // markup-significant characters in character data and attribute values: the writer escapes them, so
    // the parsed DOM has several pieces (text, reference, text) behind one merged text node
    for i in 0..tree.nodes.len() {
        if matches!(tree.nodes[i].kind, Kind::Text | Kind::Attribute) && tree.nodes[i].prefix.as_deref() != Some("xml") && r.pct(30) {
            let extra = *r.pick(&["&", "<", "a&b", "x<y>z", "&amp;", "\"", "'", "]]>", "&&"]);
            if r.pct(50) {
                tree.nodes[i].value.push_str(extra);
            } else {
                tree.nodes[i].value = format!("{}{}", extra, tree.nodes[i].value);
            }
            if !labels.contains(&"doc-has-escaped-characters".to_string()) {
                labels.push("doc-has-escaped-characters".into());
            }
        }
    }
    // now and then a document that does not fit one read buffer, with multi-byte characters all along
    if r.pct(8) {
        if let Some(i) = (0..tree.nodes.len()).find(|&i| tree.nodes[i].kind == Kind::Text) {
            let unit = *r.pick(&["\u{e9}", "\u{3042}", "\u{1F600}"]);
            let n = 8192 / unit.len() + 40 + r.below(3) as usize;
            let pad = format!("{}{}", "a".repeat(r.below(4) as usize), unit.repeat(n));
            tree.nodes[i].value = format!("{}{}", pad, tree.nodes[i].value);
            labels.push("document-larger-than-8k".into());
        }
    }
    let m = mode(&mut r);
    let mut doc = vp_xref::to_xml(&tree);
    if m.xml_decl {
        doc = format!("<?xml version=\"1.0\" encoding=\"UTF-8\"?>{}", doc);
        labels.push("xml-decl".into());
    }
    // the tree as the tools will read it (to_xml writes tab/newline in attribute values as references)
    let tree = match vp_xref::tree::from_xml(&doc) {
        Ok(t) => t,
        Err(e) => return json!({"_discard": format!("reference-reader:{}", e.chars().take(30).collect::<String>())}),
    };
    let mut re = Rng::new(eg);
    let gen = ExprGen { error_pct: 0, ..ExprGen::default() }.with_vocabulary(&tree);
    let ns = xgen::expr_ns();
    let ty = if tool == "xe" || r.pct(65) { Ty::NodeSet } else { *r.pick(&[Ty::Num, Ty::Str, Ty::Bool]) };
    let ast = gen.gen(&mut re, ty, 1 + r.below(3) as u32);
    let mut ch = vp_xref::Choices::new(sg);
    let mut expr = match vp_xref::spell(&ast, &mut ch) {
        Ok(s) => s,
        Err(_) => return json!({"_discard": "unspellable"}),
    };
    if ty == Ty::NodeSet {
        let elems: Vec<usize> = (0..tree.nodes.len()).filter(|&i| tree.nodes[i].kind == Kind::Element).collect();
        let path_to = |i: usize| -> String {
            // positional path among element siblings
            let mut steps: Vec<String> = vec![];
            let mut cur = i;
            while let Some(p) = tree.nodes[cur].parent {
                let pos = tree.nodes[p].children.iter().filter(|&&c| tree.nodes[c].kind == Kind::Element).position(|&c| c == cur).unwrap_or(0) + 1;
                steps.push(format!("/*[{}]", pos));
                cur = p;
            }
            steps.reverse();
            steps.concat()
        };
        let wrap = r.below(if tool == "xe" { 20 } else { 30 });
        expr = match wrap {
            0 | 1 | 2 => format!("({})/self::*", expr),
            3 | 4 => format!("({})/@*", expr),
            5 => format!("({})/descendant-or-self::*", expr),
            6 => "/".to_string(),
            7 => format!("/ | ({})/self::*", expr),
            8 => r.pick(&["//*", "/*", "//*[1]", "//*[last()]", "/*/*", "//*[@*]", "//*[not(*)]", "//*[text()]"]).to_string(),
            9 => r.pick(&["//@*", "/*/@*", "//@id", "//@k", "//*[1]/@*", "//@xml:lang"]).to_string(),
            10 | 11 | 12 if !elems.is_empty() => path_to(*r.pick(&elems)),
            13 | 14 if !elems.is_empty() => {
                let e = *r.pick(&elems);
                if tree.nodes[e].attrs.is_empty() {
                    format!("{}/@*", path_to(e))
                } else {
                    let a = *r.pick(&tree.nodes[e].attrs);
                    match &tree.nodes[a].prefix {
                        // the caller's prefixes are not the document's: address by position instead
                        Some(p) if p != "xml" => format!("{}/@*[local-name()='{}']", path_to(e), tree.nodes[a].local),
                        _ => format!("{}/@{}", path_to(e), tree.name(a)),
                    }
                }
            }
            15 if elems.len() >= 2 => format!("{} | {}", path_to(*r.pick(&elems)), path_to(*r.pick(&elems))),
            16 if !elems.is_empty() => format!("{}//*", path_to(*r.pick(&elems))),
            // an element together with its own attributes (replacing an element's children leaves its attributes alone)
            17 | 18 => format!("({0})/self::* | ({0})/@*", expr),
            19 => r.pick(&["//@*|//@*/..", "//*[@*][1]|//*[@*][1]/@*", "//*[last()]|//*[last()]/@*", "/*|/*/@*"]).to_string(),
            _ => expr,
        };
    }
    let value = if tool == "xe" { fragment(&mut r, &mut labels) } else { String::new() };
    // ---- unusable input --------------------------------------------------------------------
    let mut args: Vec<String> = vec![];
    let mut bad: Option<String> = None;
    let mut doc_bytes: Vec<u8> = doc.clone().into_bytes();
    let mut file_arg: Option<String> = None; // None = scratch file / stdin per mode
    let mut expr_used = expr.clone();
    let mut value_used = value.clone();
    let mut drop_xpath = false;
    let mut extra: Vec<String> = vec![];
    if kind_roll < 24 {
        match r.below(9) {
            0 => {
                // truncated document
                let chars: Vec<char> = doc.chars().collect();
                let cut = if chars.is_empty() { 0 } else { r.below(chars.len()) };
                let t: String = chars[..cut].iter().collect();
                if let vp_wf::Verdict::IllFormed { .. } = vp_wf::check(&t) {
                    doc_bytes = t.into_bytes();
                    bad = Some("document-truncated".into());
                }
            }
            1 => {
                let s = *r.pick(&["", "<a>", "<a></b>", "text", "<a/><b/>", "<a b=\"1\" b=\"2\"/>", "<a>&nosuch;</a>", "<a><!-- -- --></a>", "<?xml version=\"1.0\"?>"]);
                doc_bytes = s.as_bytes().to_vec();
                bad = Some("document-ill-formed".into());
            }
            2 => {
                doc_bytes = vec![b'<', b'a', b'>', 0xff, 0xfe, b'<', b'/', b'a', b'>'];
                bad = Some("document-not-utf8".into());
            }
            3 => {
                expr_used = format!("{}{}", expr, r.pick(BAD_EXPR_SUFFIX));
                if vp_xref::parse(&expr_used).is_err() {
                    bad = Some("expression-syntax".into());
                } else {
                    expr_used = expr.clone();
                }
            }
            4 => {
                expr_used = r.pick(BAD_EXPRS).to_string();
                bad = Some("expression-invalid".into());
            }
            5 => {
                if tool == "xe" {
                    if r.pct(60) {
                        value_used = r.pick(BAD_VALUES).to_string();
                        bad = Some("value-ill-formed".into());
                    } else {
                        expr_used = r.pick(&["count(//*)", "'s'", "1 = 1", "string(/)", "1 div 0"]).to_string();
                        bad = Some("expression-is-scalar".into());
                    }
                } else {
                    file_arg = Some(verif_root().join("work/c17/no-such-file.xml").to_string_lossy().to_string());
                    bad = Some("file-missing".into());
                }
            }
            6 => {
                file_arg = Some(verif_root().join("work/c17/no-such-file.xml").to_string_lossy().to_string());
                bad = Some("file-missing".into());
            }
            7 => {
                let choice = r.below(6);
                match choice {
                    0 => {
                        drop_xpath = true;
                        bad = Some("args-no-xpath".into());
                    }
                    1 => {
                        extra = vec!["--xpath".into(), "/".into()];
                        bad = Some("args-xpath-twice".into());
                    }
                    2 => {
                        extra = vec!["--setns".into(), r.pick(&["p=urn:x", "xml:p=urn:x", "xmlns:p", "nonsense"]).to_string()];
                        bad = Some("args-setns-malformed".into());
                    }
                    3 => {
                        extra = vec!["second-file.xml".into()];
                        bad = Some("args-two-files".into());
                    }
                    4 => {
                        extra = vec![r.pick(&["--xpath", "--setns"]).to_string()];
                        bad = Some("args-flag-without-value".into());
                    }
                    _ => {
                        if tool == "xe" {
                            value_used = "\u{0}none".into(); // marker: leave --value out
                            bad = Some("args-no-value".into());
                        } else {
                            extra = vec!["--setns".into()];
                            bad = Some("args-flag-without-value".into());
                        }
                    }
                }
            }
            _ => {
                // node types xe cannot edit
                if tool == "xe" {
                    expr_used = r.pick(&["//text()", "//comment()", "//processing-instruction()", "//node()", "//*/text() | //*"]).to_string();
                    // only unusable when something of that type is selected: decided by the model below
                }
            }
        }
    }
    if let Some(b) = &bad {
        labels.push(format!("unusable:{}", b));
    }
    // ---- the model ---------------------------------------------------------------------------
    let mut expected = json!(null);
    if bad.is_none() {
        let ast2 = match vp_xref::parse(&expr_used) {
            Ok(a) => a,
            Err(e) => return json!({"_discard": format!("reference-parser:{}", e.chars().take(24).collect::<String>())}),
        };
        let env = vp_xref::Env::new(&tree, &ns);
        vp_xref::trace::start();
        let v = vp_xref::eval_root(&ast2, &env);
        let trace = vp_xref::trace::take();
        if trace.num_to_str.iter().any(|x| *x == 0.0 && x.is_sign_negative()) {
            return json!({"_discard": "excluded:negative-zero-to-string"});
        }
        let mut f = vec![];
        crate::props::c05::features(&ast2, &mut f);
        if f.iter().any(|x| x == "axis:namespace") {
            return json!({"_discard": "excluded:namespace-axis"});
        }
        match (tool, v) {
            (_, Err(_)) => return json!({"_discard": "reference-says-error"}),
            ("xq", Ok(vp_xref::Value::NodeSet(sel))) => {
                let lines: Vec<Json> = sel
                    .iter()
                    .map(|&i| {
                        let n = &tree.nodes[i];
                        let scope: Vec<Json> = match n.parent {
                            Some(p) if tree.nodes[p].kind == Kind::Element => tree.nodes[p].nss.iter().map(|&x| json!([tree.nodes[x].local, tree.nodes[x].value])).collect(),
                            _ => vec![],
                        };
                        json!({"node": sub_json(&tree, i, false), "loose": sub_json(&tree, i, true), "scope": scope, "name": tree.name(i)})
                    })
                    .collect();
                labels.push(format!("selected:{}", sel.len().min(3)));
                for &i in &sel {
                    let l = format!("prints:{:?}", tree.nodes[i].kind).to_lowercase();
                    if !labels.contains(&l) {
                        labels.push(l);
                    }
                }
                expected = json!({"t": "nodes", "lines": lines});
            }
            ("xq", Ok(v)) => {
                labels.push("prints:scalar".into());
                expected = json!({"t": "scalar", "v": xjson::value_to_json(&Ok(v))});
            }
            (_, Ok(vp_xref::Value::NodeSet(sel))) => {
                let kinds: Vec<Kind> = sel.iter().map(|&i| tree.nodes[i].kind).collect();
                let frag = vp_xref::tree::from_xml(&format!("<e>{}</e>", value_used));
                let frag = match frag {
                    Ok(t) => t,
                    Err(e) => return json!({"_discard": format!("fragment-reader:{}", e.chars().take(24).collect::<String>())}),
                };
                let fe = frag.document_element().unwrap_or(0);
                let fkids: Vec<Kind> = frag.nodes[fe].children.iter().map(|&c| frag.nodes[c].kind).collect();
                let text_value = frag.string_value(fe);
                let has_cdata = value_used.contains("<![CDATA[");
                if kinds.contains(&Kind::Attribute) && text_value.contains(['\t', '\n', '\r']) {
                    labels.push("attribute-gets-tab-or-line-end".into());
                }
                let has_pi = fkids.contains(&Kind::PI);
                let mut reason: Option<&str> = None;
                let mut lenient = has_pi;
                if kinds.iter().any(|k| !matches!(k, Kind::Root | Kind::Element | Kind::Attribute)) {
                    reason = Some("selection-has-uneditable-node");
                }
                if reason.is_none() && kinds.contains(&Kind::Attribute) {
                    if fkids.iter().any(|k| *k != Kind::Text) {
                        reason = Some("markup-for-attribute");
                    } else if has_cdata {
                        lenient = true;
                    }
                }
                if reason.is_none() && kinds.contains(&Kind::Root) {
                    let nelem = fkids.iter().filter(|k| **k == Kind::Element).count();
                    let text_nodes: Vec<&str> = frag.nodes[fe].children.iter().filter(|&&c| frag.nodes[c].kind == Kind::Text).map(|&c| frag.nodes[c].value.as_str()).collect();
                    if nelem != 1 {
                        reason = Some("document-needs-one-element");
                    } else if text_nodes.iter().any(|t| !t.trim().is_empty()) || has_cdata {
                        reason = Some("text-for-document");
                    } else if !text_nodes.is_empty() {
                        lenient = true;
                    }
                }
                labels.push(format!("selected:{}", sel.len().min(3)));
                for k in &kinds {
                    let l = format!("edits:{:?}", k).to_lowercase();
                    if !labels.contains(&l) {
                        labels.push(l);
                    }
                }
                match reason {
                    Some(why) => {
                        labels.push(format!("unusable:{}", why));
                        bad = Some(why.to_string());
                    }
                    None => {
                        let ed = vp_xref::Edit { selected: &sel, fragment: &value_used, attr_value: &text_value };
                        let mut text = vp_xref::to_xml_edited(&tree, &ed);
                        if m.xml_decl && !sel.contains(&0) {
                            text = format!("<?xml version=\"1.0\" encoding=\"UTF-8\"?>{}", text);
                        }
                        // nested selections: something selected lies inside a selected element
                        let nested = sel.iter().any(|&i| {
                            let mut p = tree.nodes[i].parent;
                            while let Some(x) = p {
                                if sel.contains(&x) && tree.nodes[x].kind != Kind::Root {
                                    return true;
                                }
                                p = tree.nodes[x].parent;
                            }
                            false
                        });
                        if nested {
                            labels.push("nested-selection".into());
                        }
                        expected = json!({"t": if lenient { "edited-or-refused" } else { "edited" }, "text": text});
                    }
                }
            }
            (_, Ok(_)) => {
                bad = Some("expression-is-scalar".into());
                labels.push("unusable:expression-is-scalar".into());
            }
        }
    }
    if let Some(b) = &bad {
        expected = json!({"t": "fail", "why": b});
    }
    // ---- the command line --------------------------------------------------------------------
    if !drop_xpath {
        args.push("--xpath".into());
        args.push(expr_used.clone());
    }
    if tool == "xe" && value_used != "\u{0}none" {
        args.push("--value".into());
        args.push(value_used.clone());
    }
    if m.setns {
        setns_args(&ns, &mut args);
    }
    if m.no_indent {
        args.push("--no-indent".into());
    } else {
        labels.push("indented".into());
    }
    args.extend(extra);
    let input = if let Some(f) = file_arg {
        args.push(f);
        "none"
    } else if m.stdin {
        labels.push("stdin".into());
        "stdin"
    } else {
        "file"
    };
    if args.iter().any(|a| a.contains('\0')) {
        return json!({"_discard": "nul-in-argument"});
    }
    let nontrivial = match expected["t"].as_str().unwrap_or("") {
        "edited" | "edited-or-refused" => labels.iter().any(|l| l == "selected:1" || l == "selected:2" || l == "selected:3"),
        "nodes" => labels.iter().any(|l| l == "selected:1" || l == "selected:2" || l == "selected:3"),
        "scalar" => true,
        _ => true,
    };
    json!({
        "tool": tool,
        "args": args,
        "input": input,
        "doc": String::from_utf8_lossy(&doc_bytes),
        "doc_bytes": if String::from_utf8(doc_bytes.clone()).is_ok() { json!(null) } else { json!(doc_bytes) },
        "no_indent": m.no_indent,
        "expected": expected,
        "_labels": labels,
        "_nontrivial": nontrivial,
    })
}

// ---------------------------------------------------------------------------------------------

fn first_diff(a: &Json, b: &Json) -> String {
    crate::oracle::canon::first_diff(a, b, "").unwrap_or_else(|| "?".into())
}

impl Property for C17 {
    fn id(&self) -> &'static str {
        "C17"
    }
    fn rule(&self) -> String {
        "the xe and xq executables built from /repo's working tree are run as processes (document through a file or stdin, --setns bindings, with and without --no-indent). Documents: \
         the reference generator's namespace-rich trees; paths: generated node-set expressions, optionally narrowed to elements (/self::*), attributes (/@*), the document node (/), \
         and unions of them; replacement values: text, markup, comments, CDATA, mixtures. Oracle for xe: the selection is computed by the reference evaluator vp-xref on the reference \
         tree, the edit is applied to the reference tree (children of each selected element / attribute / document node replaced by the fragment), and the compact output must be \
         well-formed (vp-wf) and read back (reference reader) to exactly that tree, attribute order aside; the indented output must agree up to white space. Oracle for xq: one output \
         line per selected node in document order; an element line re-reads (inside a wrapper carrying the inherited namespace declarations) to the node's subtree, text/attribute/\
         comment/PI lines unescape to the node; scalars print the reference value. Unusable input (ill-formed or non-UTF-8 or missing document, invalid or scalar expression, ill-formed \
         value, markup for an attribute, no or several elements for the document node, uneditable node types, bad command lines) must end with a non-zero status and a message on \
         stderr. Any signal, status 101 or panic message is a crash. Non-trivial = at least one node selected (or a scalar printed, or an unusable input); distinct by command line \
         and document."
            .into()
    }
    fn assumptions(&self) -> Vec<String> {
        vec![
            "vp-xref computes the selection and vp_xref::tree::from_xml reads the tools' output (both independent of the library)".into(),
            "documents with a DOCTYPE are not generated here (C01/C04 cover how the library keeps declarations); namespace-axis selections are excluded (C05's open finding)".into(),
            "a value with a processing instruction, CDATA for an attribute, or white space around the element for the document node may be refused or applied".into(),
            "for xq, line ends inside values are replaced by spaces before the document is written so that one line is one node".into(),
        ]
    }
    fn shards(&self, _tier: Tier) -> usize {
        std::env::var("C17_SHARDS").ok().and_then(|s| s.parse().ok()).unwrap_or(4)
    }
    fn cases_per_shard(&self, tier: Tier) -> u32 {
        tier.pick(800, 40000)
    }
    fn cpu_budget_s(&self) -> u64 {
        20
    }
    fn max_shrink_steps(&self) -> u64 {
        250 // every attempt starts a process
    }
    fn strategy(&self, _tier: Tier) -> BoxedStrategy<Json> {
        (
            proptest::collection::vec(any::<u16>(), 0..160),
            proptest::collection::vec(any::<u16>(), 0..80),
            proptest::collection::vec(any::<u8>(), 0..40),
            proptest::collection::vec(any::<u16>(), 4..40),
        )
            .prop_map(|(t, e, s, m)| make_case(t, e, s, m))
            .boxed()
    }
    fn fixed_cases(&self, _tier: Tier) -> Vec<Json> {
        crate::engine::regress_cases("C17")
    }
    fn check(&self, case: &Json, obs: &mut Obs) -> Verdict {
        let tool = case["tool"].as_str().unwrap_or("xq");
        let mut args: Vec<String> = case["args"].as_array().map(|a| a.iter().filter_map(|x| x.as_str().map(|s| s.to_string())).collect()).unwrap_or_default();
        let doc_bytes: Vec<u8> = match case["doc_bytes"].as_array() {
            Some(a) => a.iter().filter_map(|x| x.as_u64().map(|v| v as u8)).collect(),
            None => case["doc"].as_str().unwrap_or("").as_bytes().to_vec(),
        };
        let labels = labels_of(case);
        let stdin = match case["input"].as_str().unwrap_or("file") {
            "stdin" => Some(doc_bytes.as_slice()),
            "file" => {
                match scratch_file(&doc_bytes) {
                    Ok(p) => args.push(p.to_string_lossy().to_string()),
                    Err(e) => return Verdict::Discard(format!("scratch:{}", e)),
                }
                None
            }
            _ => None,
        };
        if !tool_path(tool).exists() {
            // an infrastructure error, not a verdict about the tools
            eprintln!("INCONCLUSIVE: {} is not built (./check --build)", tool_path(tool).display());
            std::process::exit(2);
        }
        let out = match run_tool(tool, &args, stdin) {
            Ok(o) => o,
            Err(e) => panic!("cannot run {}: {}", tool, e),
        };
        let cmdline = format!("{} {}", tool, args.iter().map(|a| format!("{:?}", a)).collect::<Vec<_>>().join(" "));
        let shown_doc: String = String::from_utf8_lossy(&doc_bytes).to_string();
        macro_rules! fail {
            ($key:expr, $detail:expr) => {{
                let k: String = attribute("C17", &labels, $key, TRIGGERS);
                if skip_known("C17", &k) {
                    obs.known_hits.push(k);
                    return Verdict::Pass;
                }
                return Verdict::fail(k, format!("{} [{} on {:?}]", $detail, cmdline, shown_doc));
            }};
        }
        // crashes first
        let stderr_head: String = out.stderr.chars().take(200).collect();
        match out.code {
            None => fail!(format!("c17.{}.crash.signal", tool), format!("killed by a signal; stderr {:?}", stderr_head)),
            Some(101) => fail!(format!("c17.{}.crash.panic", tool), format!("panicked: {:?}", stderr_head)),
            _ => {}
        }
        if out.stderr.contains("panicked at") {
            fail!(format!("c17.{}.crash.panic", tool), format!("panicked: {:?}", stderr_head));
        }
        let code = out.code.unwrap_or(-1);
        let exp = &case["expected"];
        let t = exp["t"].as_str().unwrap_or("");
        if code != 0 && out.stderr.trim().is_empty() {
            fail!(format!("c17.{}.silent-failure", tool), format!("status {} without a message", code));
        }
        if t == "fail" {
            let why = exp["why"].as_str().unwrap_or("?");
            if code == 0 {
                fail!(format!("c17.{}.accepted.{}", tool, why), format!("unusable input ({}) but status 0 and output {:?}", why, String::from_utf8_lossy(&out.stdout).chars().take(200).collect::<String>()));
            }
            return Verdict::Pass;
        }
        if code != 0 {
            if t == "edited-or-refused" {
                obs.label("refused-leniently");
                return Verdict::Pass;
            }
            fail!(format!("c17.{}.refused.usable-input", tool), format!("status {} and {:?} on usable input", code, stderr_head));
        }
        let stdout = match String::from_utf8(out.stdout.clone()) {
            Ok(s) => s,
            Err(_) => fail!(format!("c17.{}.output-not-utf8", tool), "output is not UTF-8".to_string()),
        };
        let no_indent = case["no_indent"].as_bool().unwrap_or(true);
        match t {
            "edited" | "edited-or-refused" => {
                let want_text = exp["text"].as_str().unwrap_or("");
                let want = match vp_xref::tree::from_xml(want_text) {
                    Ok(t) => t,
                    Err(e) => return Verdict::Discard(format!("model-text-unreadable:{}", e.chars().take(24).collect::<String>())),
                };
                let body = stdout.strip_suffix('\n').unwrap_or(&stdout);
                if no_indent {
                    match vp_wf::check(body) {
                        vp_wf::Verdict::IllFormed { rule, .. } => fail!("c17.xe.output-ill-formed".to_string(), format!("compact output {:?} is not well-formed ({})", body, rule)),
                        _ => {}
                    }
                }
                let got = match vp_xref::tree::from_xml(body) {
                    Ok(t) => t,
                    Err(e) => fail!("c17.xe.output-unreadable".to_string(), format!("output {:?} cannot be read back: {}", body, e)),
                };
                let (a, b) = (sub_json(&want, 0, !no_indent), sub_json(&got, 0, !no_indent));
                if a != b {
                    fail!(format!("c17.xe.wrong-result{}", if no_indent { "" } else { ".indented" }), format!("output {:?} differs from the model {:?} at {}", body, want_text, first_diff(&a, &b)));
                }
                Verdict::Pass
            }
            "scalar" => {
                let v = &exp["v"];
                let line = stdout.strip_suffix('\n').unwrap_or(&stdout);
                let ok = match v["t"].as_str().unwrap_or("") {
                    "bool" => line == if v["v"].as_bool().unwrap_or(false) { "true" } else { "false" },
                    "str" => Some(line) == v["v"].as_str(),
                    "num" => {
                        let want = xjson::num_of(v);
                        let got = match line {
                            "Infinity" => Some(f64::INFINITY),
                            "-Infinity" => Some(f64::NEG_INFINITY),
                            l => l.parse::<f64>().ok(),
                        };
                        match got {
                            Some(g) => (g.is_nan() && want.is_nan()) || g == want,
                            None => false,
                        }
                    }
                    _ => false,
                };
                if !ok || !stdout.ends_with('\n') {
                    fail!("c17.xq.wrong-scalar".to_string(), format!("printed {:?}, XPath 1.0 says {}", stdout, crate::oracle::canon::short(v)));
                }
                Verdict::Pass
            }
            "nodes" => {
                let lines_exp = exp["lines"].as_array().cloned().unwrap_or_default();
                if !no_indent {
                    // indented: compare the concatenation up to white space, node by node is not possible
                    let mut rest: String = stdout.chars().filter(|c| !c.is_whitespace()).collect();
                    for (i, l) in lines_exp.iter().enumerate() {
                        // each node must leave its mark in order: its name / value without white space
                        let mark: String = match l["node"]["k"].as_str().unwrap_or("") {
                            "elem" => format!("<{}", l["name"].as_str().unwrap_or("")),
                            "attr" => format!("{}=", l["name"].as_str().unwrap_or("")),
                            "comment" => "<!--".to_string(),
                            "pi" => format!("<?{}", l["node"]["l"].as_str().unwrap_or("")),
                            _ => String::new(),
                        };
                        match rest.find(&mark) {
                            Some(p) => rest = rest[p + mark.len()..].to_string(),
                            None => fail!("c17.xq.wrong-output.indented".to_string(), format!("node {} ({}) not found in order in the indented output {:?}", i, mark, stdout)),
                        }
                    }
                    return Verdict::Pass;
                }
                let body = if stdout.is_empty() { "" } else { stdout.strip_suffix('\n').unwrap_or(&stdout) };
                let got_lines: Vec<&str> = if lines_exp.is_empty() && body.is_empty() { vec![] } else { body.split('\n').collect() };
                if got_lines.len() != lines_exp.len() {
                    fail!("c17.xq.wrong-line-count".to_string(), format!("{} lines printed, {} nodes selected; output {:?}", got_lines.len(), lines_exp.len(), stdout));
                }
                for (i, (line, l)) in got_lines.iter().zip(lines_exp.iter()).enumerate() {
                    let node = &l["node"];
                    let kind = node["k"].as_str().unwrap_or("");
                    let problem: Option<String> = match kind {
                        "root" | "elem" => {
                            let mut w = String::from("<vp-wrapper");
                            for b in l["scope"].as_array().cloned().unwrap_or_default() {
                                let (p, u) = (b[0].as_str().unwrap_or(""), b[1].as_str().unwrap_or(""));
                                if p == "xml" {
                                    continue;
                                }
                                let esc = u.replace('&', "&amp;").replace('"', "&quot;").replace('<', "&lt;");
                                if p.is_empty() {
                                    w.push_str(&format!(" xmlns=\"{}\"", esc));
                                } else {
                                    w.push_str(&format!(" xmlns:{}=\"{}\"", p, esc));
                                }
                            }
                            let text = if kind == "root" { line.to_string() } else { format!("{}>{}</vp-wrapper>", w, line) };
                            match vp_xref::tree::from_xml(&text) {
                                Err(e) => Some(format!("cannot be read back: {}", e)),
                                Ok(t) => {
                                    let got = if kind == "root" {
                                        sub_json(&t, 0, false)
                                    } else {
                                        let wr = t.document_element().unwrap_or(0);
                                        let kids = &t.nodes[wr].children;
                                        if kids.len() != 1 {
                                            json!({"k": "several nodes"})
                                        } else {
                                            sub_json(&t, kids[0], false)
                                        }
                                    };
                                    if &got != node {
                                        Some(format!("differs from the selected node at {}", first_diff(node, &got)))
                                    } else {
                                        None
                                    }
                                }
                            }
                        }
                        "text" => match unescape(line) {
                            Some(s) if Some(s.as_str()) == node["v"].as_str() && !line.contains('<') => None,
                            _ => Some(format!("is not the text {:?}", node["v"])),
                        },
                        "attr" => {
                            let name = l["name"].as_str().unwrap_or("");
                            let ok = line.strip_prefix(name).and_then(|r| r.strip_prefix('=')).and_then(|r| {
                                let q = r.chars().next()?;
                                if q != '"' && q != '\'' {
                                    return None;
                                }
                                let inner = r.strip_prefix(q)?.strip_suffix(q)?;
                                if inner.contains(q) || inner.contains('<') {
                                    return None;
                                }
                                unescape(inner)
                            });
                            // tab / newline written as references or literally: the value read back is what counts
                            match ok {
                                Some(v) if Some(v.as_str()) == node["v"].as_str() => None,
                                _ => Some(format!("is not the attribute {}={:?}", name, node["v"])),
                            }
                        }
                        "comment" => {
                            if line.strip_prefix("<!--").and_then(|r| r.strip_suffix("-->")) == node["v"].as_str() {
                                None
                            } else {
                                Some(format!("is not the comment {:?}", node["v"]))
                            }
                        }
                        "pi" => {
                            let inner = line.strip_prefix("<?").and_then(|r| r.strip_suffix("?>"));
                            let target = node["l"].as_str().unwrap_or("");
                            let data = node["v"].as_str().unwrap_or("");
                            match inner {
                                Some(s) if s.strip_prefix(target).map(|d| d.trim_start() == data && (d.is_empty() || d.starts_with(char::is_whitespace))).unwrap_or(false) => None,
                                _ => Some(format!("is not the processing instruction {} {:?}", target, data)),
                            }
                        }
                        _ => None,
                    };
                    if let Some(p) = problem {
                        fail!(format!("c17.xq.wrong-line.{}", kind), format!("line {} {:?} {}; whole output {:?}", i, line, p, stdout));
                    }
                }
                Verdict::Pass
            }
            _ => Verdict::Discard("no-expectation".into()),
        }
    }
    fn floors(&self, _tier: Tier) -> Vec<(&'static str, f64)> {
        vec![
            ("tool:xe", 0.3),
            ("doc-has-escaped-characters", 0.3),
            ("tool:xq", 0.3),
            ("edits:element", 0.06),
            ("edits:attribute", 0.015),
            ("edits:root", 0.01),
            ("nested-selection", 0.01),
            ("prints:element", 0.025),
            ("prints:scalar", 0.03),
            ("indented", 0.1),
            ("stdin", 0.1),
            ("unusable:document-truncated", 0.005),
            ("unusable:markup-for-attribute", 0.003),
        ]
    }
}
