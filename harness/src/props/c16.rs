//! C16 — character-data operations work on character offsets with DOM semantics.

use crate::engine::{skip_known, Json, Obs, Property, Tier, Verdict};
use crate::gen::genes::Genes;
use crate::gen::hist::{self, offset_of, HistCfg, Outcome, Pool};
use proptest::prelude::*;
use std::collections::BTreeMap;
use xml_dom::{Node, NodeList, XmlNode};

pub struct C16;

fn data_of(n: &XmlNode) -> Option<String> {
    hist::with_chardata(n, |c| c.data().ok()).flatten()
}

fn len_of(n: &XmlNode) -> Option<usize> {
    hist::with_chardata(n, |c| c.length())
}

fn class(s: &str) -> &'static str {
    if s.chars().any(|c| (c as u32) > 0xFFFF) {
        "astral"
    } else if s.chars().any(|c| !c.is_ascii()) {
        "multibyte"
    } else {
        "ascii"
    }
}

enum Expect {
    Ok,
    IndexSize,
}

fn is_index_size(o: &Outcome) -> bool {
    matches!(o, Outcome::Err(e) if e.contains("IndexSizeErr"))
}

impl Property for C16 {
    fn id(&self) -> &'static str {
        "C16"
    }
    fn rule(&self) -> String {
        "histories of length/substring_data/append_data/insert_data/delete_data/replace_data/set_data/split_text calls (plus creation and attachment of text, comment \
         and CDATA nodes) from a proptest gene vector; content strings over ASCII, 2-, 3-, 4-byte characters and combining marks (no markup-significant characters: those are \
         C15's subject); offsets and counts in 0..=11 and usize::MAX, usize::MAX-1. Oracle: a Vec<char> model per node with the DOM Level 1 rules (offset > length -> \
         INDEX_SIZE_ERR, count clipped to the end, split_text leaves two adjacent siblings whose data concatenate to the original, and leaves the character data of the parent as a whole unchanged in both views); after every call the result class, the \
         returned string, data() and length() are compared. Non-trivial = a call on non-ASCII content, or with an offset/count at or beyond the length, or a split; \
         distinct by operation list."
            .into()
    }
    fn assumptions(&self) -> Vec<String> {
        vec![
            "split_text on a node without a parent may either fail (HierarchyRequestErr, data unchanged) or split: DOM Level 1 does not say".into(),
            "the model of a parsed node starts from the data() the library reports for it".into(),
        ]
    }
    fn cases_per_shard(&self, tier: Tier) -> u32 {
        tier.pick(2500, 60000)
    }
    fn strategy(&self, tier: Tier) -> BoxedStrategy<Json> {
        let max_ops = tier.pick(14usize, 40usize);
        proptest::collection::vec(any::<u16>(), 0..(max_ops * 8 + 8))
            .prop_map(move |genes| {
                let mut g = Genes::new(genes);
                let cfg = HistCfg { max_ops, safe_strings: true, w_struct: 2, w_attr: 0, w_chardata: 12, w_create: 3, huge_offsets: true, max_doc: 5, w_compound: 3, seams: true, ..Default::default() };
                hist::gen_history(&mut g, &cfg)
            })
            .boxed()
    }
    fn fixed_cases(&self, _tier: Tier) -> Vec<Json> {
        crate::engine::regress_cases("C16")
    }
    fn check(&self, case: &Json, obs: &mut Obs) -> Verdict {
        let docs: Vec<String> = case["docs"].as_array().map(|a| a.iter().filter_map(|x| x.as_str().map(|s| s.to_string())).collect()).unwrap_or_default();
        let merged = case["merged"].as_bool().unwrap_or(false);
        let mut pool = match Pool::new(&docs, merged) {
            Some(p) => p,
            None => return Verdict::Discard("start-document-rejected".into()),
        };
        let ops = case["ops"].as_array().cloned().unwrap_or_default();
        // model: pool index -> characters
        let mut model: BTreeMap<(usize, usize), Vec<char>> = BTreeMap::new();
        let mut nontrivial = false;
        macro_rules! fail {
            ($key:expr, $detail:expr) => {{
                let k: String = $key;
                if skip_known("C16", &k) {
                    if !obs.known_hits.contains(&k) {
                        obs.known_hits.push(k);
                    }
                    // the model can no longer be trusted for this history
                    return Verdict::Pass;
                } else {
                    return Verdict::fail(k, $detail);
                }
            }};
        }
        for (step, op) in ops.iter().enumerate() {
            let kind = op["op"].as_str().unwrap_or("").to_string();
            let is_cd = matches!(kind.as_str(), "set_data" | "append_data" | "insert_data" | "delete_data" | "replace_data" | "substring" | "length" | "split_text");
            // with a document type its entity declarations go, and the data of text that refers to them with it: the
            // model of such nodes is void from there on, so the history ends
            let drops_doctype = match kind.as_str() {
                "remove" => matches!(pool.nodes[pool.idx(&op["c"])], XmlNode::DocumentType(_)),
                "replace" => matches!(pool.nodes[pool.idx(&op["o"])], XmlNode::DocumentType(_)),
                _ => false,
            };
            if drops_doctype {
                obs.label("history-ended:document-type-taken-out");
                break;
            }
            if !is_cd {
                let before = pool.nodes.len();
                let out = hist::apply(&mut pool, op);
                // creations: remember the initial content
                if let Outcome::Ok(_) = out {
                    if pool.nodes.len() > before && matches!(kind.as_str(), "create_text" | "create_comment" | "create_cdata") {
                        let key = (pool.origin[pool.nodes.len() - 1], pool.nodes[pool.nodes.len() - 1].id());
                        model.insert(key, op["s"].as_str().unwrap_or("").chars().collect());
                    }
                }
                continue;
            }
            let idx = pool.idx(&op["n"]);
            let node = pool.nodes[idx].clone();
            let writable = matches!(node, XmlNode::Text(_) | XmlNode::Comment(_) | XmlNode::CData(_));
            let readable = writable || matches!(node, XmlNode::ExpandedText(_));
            if !readable {
                continue;
            }
            // the model is keyed by node identity (document of origin, node id): one node may sit at several pool positions
            let mkey = (pool.origin[idx] + if matches!(node, XmlNode::ExpandedText(_)) { 1000 } else { 0 }, node.id());
            if !model.contains_key(&mkey) {
                match data_of(&node) {
                    Some(d) => {
                        model.insert(mkey, d.chars().collect());
                    }
                    None => continue,
                }
            }
            let cur: Vec<char> = model[&mkey].clone();
            let len = cur.len();
            let cur_s: String = cur.iter().collect();
            let off = offset_of(&op["off"]);
            let cnt = offset_of(&op["cnt"]);
            let s = op["s"].as_str().unwrap_or("");
            let ccl = class(&format!("{}{}", cur_s, s));
            obs.label(format!("content:{}", ccl));
            if ccl != "ascii" || off >= len || cnt >= len || kind == "split_text" {
                nontrivial = true;
            }
            let had_parent = node.parent_node().is_some();
            // the character data of the parent as a whole: a split must not change it, in either view
            let parent_text_before: Option<String> = node.parent_node().and_then(|p| xml_dom::AsStringValue::as_string_value(&p).ok());
            let parent_print_before: Option<String> = node.parent_node().map(|p| p.to_string());
            let before = pool.nodes.len();
            let out = hist::apply(&mut pool, op);
            if let Outcome::NotApplicable | Outcome::Excluded(_) = out {
                continue;
            }
            obs.label(format!("op:{}", kind));
            if let Outcome::Panic(k, d) = &out {
                fail!(format!("c16.{}.panic.{}", kind, k), format!("step {} {} on {:?} (len {}): panic {}", step, op, cur_s, len, d));
            }
            // expected result
            let clip_end = off.saturating_add(cnt).min(len);
            let (expect, new_model, returned): (Expect, Vec<char>, Option<String>) = match kind.as_str() {
                "length" => (Expect::Ok, cur.clone(), Some(len.to_string())),
                "substring" => {
                    if off > len {
                        (Expect::IndexSize, cur.clone(), None)
                    } else {
                        (Expect::Ok, cur.clone(), Some(cur[off..clip_end].iter().collect()))
                    }
                }
                "append_data" => {
                    let mut m = cur.clone();
                    m.extend(s.chars());
                    (Expect::Ok, m, None)
                }
                "set_data" => (Expect::Ok, s.chars().collect(), None),
                "insert_data" => {
                    if off > len {
                        (Expect::IndexSize, cur.clone(), None)
                    } else {
                        let mut m = cur.clone();
                        let tail = m.split_off(off);
                        m.extend(s.chars());
                        m.extend(tail);
                        (Expect::Ok, m, None)
                    }
                }
                "delete_data" => {
                    if off > len {
                        (Expect::IndexSize, cur.clone(), None)
                    } else {
                        let mut m = cur.clone();
                        m.drain(off..clip_end);
                        (Expect::Ok, m, None)
                    }
                }
                "replace_data" => {
                    if off > len {
                        (Expect::IndexSize, cur.clone(), None)
                    } else {
                        let mut m = cur.clone();
                        m.drain(off..clip_end);
                        let tail = m.split_off(off);
                        m.extend(s.chars());
                        m.extend(tail);
                        (Expect::Ok, m, None)
                    }
                }
                "split_text" => {
                    if off > len {
                        (Expect::IndexSize, cur.clone(), None)
                    } else {
                        (Expect::Ok, cur[..off].to_vec(), None)
                    }
                }
                _ => continue,
            };
            let boundary = if off == usize::MAX || off == usize::MAX - 1 || cnt == usize::MAX || cnt == usize::MAX - 1 {
                "huge"
            } else if off > len {
                "offset-beyond"
            } else if off.saturating_add(cnt) > len {
                "count-past-end"
            } else {
                "inside"
            };
            obs.label(format!("args:{}", boundary));
            match (&expect, &out) {
                (Expect::IndexSize, o) if is_index_size(o) => {}
                (Expect::IndexSize, Outcome::Ok(_)) => {
                    fail!(format!("c16.{}.missing-index-size-error", kind), format!("step {} {} on {:?} (len {}): offset beyond the length accepted", step, op, cur_s, len));
                }
                (Expect::IndexSize, Outcome::Err(e)) => {
                    fail!(format!("c16.{}.wrong-error", kind), format!("step {} {} on {:?}: expected IndexSizeErr, got {}", step, op, cur_s, e));
                }
                (Expect::Ok, Outcome::Err(e)) => {
                    if kind == "split_text" && !had_parent && !e.contains("IndexSizeErr") {
                        // admissible reading for a parentless node; data must be unchanged
                        if data_of(&node).as_deref() != Some(cur_s.as_str()) {
                            fail!("c16.split_text.failed-but-changed".to_string(), format!("step {} {}: refused split changed the data to {:?}", step, op, data_of(&node)));
                        }
                        continue;
                    }
                    // content that the node kind cannot hold in a serialisable document (']]>', markup characters, '--' in
                    // a comment) may be refused — but then nothing may have changed
                    let would_be: String = new_model.iter().collect();
                    let unstorable = would_be.contains("]]>") || would_be.contains('<') || would_be.contains('&') || (matches!(node, XmlNode::Comment(_)) && (would_be.contains("--") || would_be.ends_with('-')));
                    if unstorable && !e.contains("IndexSizeErr") {
                        obs.label("refused:unstorable-content");
                        if data_of(&node).as_deref() != Some(cur_s.as_str()) {
                            // the receiver already held data it could not be given today (left there by the unchecked
                            // delete_data, C15's open finding): the refused call deletes and cannot put back (C13's open
                            // finding c13.not-atomic.*.receiver-already-held-invalid-data; the same root cause here)
                            let already = cur_s.contains("]]>") || cur_s.contains('<') || cur_s.contains('&') || (matches!(node, XmlNode::Comment(_)) && (cur_s.contains("--") || cur_s.ends_with('-')));
                            if already {
                                fail!("c16.refused-call-changed-data.receiver-already-held-invalid-data".to_string(), format!("step {} {} on {:?}: the call is refused ({}) but the data is now {:?}", step, op, cur_s, e, data_of(&node)));
                            }
                            fail!(format!("c16.{}.refused-but-changed", kind), format!("step {} {} on {:?}: the call is refused ({}) but the data is now {:?}", step, op, cur_s, e, data_of(&node)));
                        }
                        if len_of(&node) != Some(len) {
                            fail!(format!("c16.{}.refused-but-changed", kind), format!("step {} {} on {:?}: the call is refused ({}) but the length is now {:?}", step, op, cur_s, e, len_of(&node)));
                        }
                        continue;
                    }
                    let cls = if e.contains("IndexSizeErr") { format!("index-size-error.{}", boundary) } else { "other-error".to_string() };
                    fail!(format!("c16.{}.unexpected-{}", kind, cls), format!("step {} {} on {:?} (len {}): DOM Level 1 says success, got {}", step, op, cur_s, len, e));
                }
                (Expect::Ok, Outcome::Ok(ret)) => {
                    if let Some(want) = &returned {
                        if ret != want {
                            fail!(format!("c16.{}.wrong-result.{}", kind, ccl), format!("step {} {} on {:?}: returned {:?}, expected {:?}", step, op, cur_s, ret, want));
                        }
                    }
                }
                _ => {}
            }
            // post-state of the node
            let want: String = if matches!(expect, Expect::Ok) { new_model.iter().collect() } else { cur_s.clone() };
            let got = data_of(&node);
            if got.as_deref() != Some(want.as_str()) {
                fail!(format!("c16.{}.wrong-data.{}", kind, ccl), format!("step {} {} on {:?}: data() is {:?}, expected {:?}", step, op, cur_s, got, want));
            }
            if len_of(&node) != Some(want.chars().count()) {
                fail!(format!("c16.{}.wrong-length.{}", kind, ccl), format!("step {} {}: length() is {:?} for data {:?}", step, op, len_of(&node), want));
            }
            if matches!(expect, Expect::Ok) {
                model.insert(mkey, new_model);
            }
            if kind == "split_text" && matches!(out, Outcome::Ok(_)) && matches!(expect, Expect::Ok) && pool.nodes.len() > before {
                let newn = pool.nodes.last().unwrap().clone();
                let tail: String = cur[off..].iter().collect();
                if data_of(&newn).as_deref() != Some(tail.as_str()) {
                    fail!(format!("c16.split_text.wrong-tail.{}", ccl), format!("step {} {} on {:?}: new node holds {:?}, expected {:?}", step, op, cur_s, data_of(&newn), tail));
                }
                model.insert((pool.origin[pool.nodes.len() - 1], newn.id()), tail.chars().collect());
                if had_parent {
                    let parent_text_after: Option<String> = node.parent_node().and_then(|p| xml_dom::AsStringValue::as_string_value(&p).ok());
                    if parent_text_before.is_some() && parent_text_before != parent_text_after {
                        fail!(
                            "c16.split_text.parent-text-changed".to_string(),
                            format!("step {} {}: the split changed the character data of the parent from {:?} to {:?}", step, op, parent_text_before, parent_text_after)
                        );
                    }
                }
                if had_parent {
                    // the parent prints as before, but for the boundary a split CDATA section needs
                    let after = node.parent_node().map(|p| p.to_string()).unwrap_or_default();
                    let before_p = parent_print_before.clone().unwrap_or_default();
                    let same = after == before_p || {
                        let pat = "]]><![CDATA[";
                        let mut found = false;
                        let mut from = 0;
                        while let Some(i) = after[from..].find(pat) {
                            let at = from + i;
                            let candidate = format!("{}{}", &after[..at], &after[at + pat.len()..]);
                            if candidate == before_p {
                                found = true;
                                break;
                            }
                            from = at + 1;
                        }
                        found
                    };
                    if !same {
                        fail!(
                            "c16.split_text.parent-serialisation-changed".to_string(),
                            format!("step {} {}: the split changed the parent from {:?} to {:?}", step, op, before_p, after)
                        );
                    }
                }
                if had_parent && !merged {
                    // (in the merged-text view adjacent text pieces are presented as one node)
                    // the two nodes must be adjacent siblings, in this order, under the same parent
                    let ok = match node.parent_node() {
                        Some(p) => {
                            let kids: Vec<XmlNode> = p.child_nodes().iter().collect();
                            let pos = kids.iter().position(|k| k.id() == node.id());
                            match pos {
                                Some(i) => kids.get(i + 1).map(|k| k.id() == newn.id()).unwrap_or(false),
                                None => false,
                            }
                        }
                        None => false,
                    };
                    if !ok {
                        fail!("c16.split_text.not-adjacent-siblings".to_string(), format!("step {} {}: after the split the two nodes are not adjacent siblings under the original parent", step, op));
                    }
                }
            }
        }
        obs.nontrivial = Some(nontrivial);
        Verdict::Pass
    }
    fn floors(&self, _tier: Tier) -> Vec<(&'static str, f64)> {
        vec![("content:astral", 0.1), ("args:huge", 0.05), ("args:offset-beyond", 0.06), ("args:count-past-end", 0.06), ("op:split_text", 0.03)]
    }
}
