//! C11 — attribute values are normalised and defaulted as XML 1.0 §3.3.3 requires.

use crate::engine::{panics, Json, Obs, Property, Tier, Verdict};
use crate::gen::adoc::{self, AAttr, ADecl, ADoc, ADocType, AElem, ANode, AttDef, AttType, DefaultDecl, Piece, QN};
use crate::gen::genes::Genes;
use crate::props::c01::{attribute, labels_of};
use proptest::prelude::*;
use serde_json::json;
use std::io::Write;
use std::process::{Command, Stdio};
use xml_dom::{Attr, Document, Element, NamedNodeMap, Node};

pub struct C11;

pub const TRIGGERS: &[(&str, &str)] = &[
    ("default-with-entity-ref", "c11.reject.attlist-default-references-declared-entity"),
    ("required-attr-not-written", "c11.required-materialised"),
    ("default-needs-type-normalisation", "c11.default-not-type-normalised"),
];

const NAMES: &[&str] = &["a", "b", "c", "id", "n"];
const TEXT: &[&str] = &["x", "y", "1", " ", "  ", "\t", "\n", "\r", " x ", "a b", "\u{e9}", "-", "x\ty", "\r\n"];
const REFCHARS: &[char] = &[' ', '\t', '\n', '\r', '<', '&', 'A', '"', '\'', '\u{e9}'];

fn pieces(g: &mut Genes, entities: &[String], depth: usize) -> Vec<Piece> {
    let n = g.range(0, 5);
    let mut v: Vec<Piece> = vec![];
    for _ in 0..n {
        match g.weighted(&[5, 3, if entities.is_empty() && depth > 0 { 1 } else { 3 }]) {
            0 => {
                let t = TEXT[g.pick(TEXT.len())].to_string();
                if let Some(Piece::Text(p)) = v.last_mut() {
                    p.push_str(&t);
                } else {
                    v.push(Piece::Text(t));
                }
            }
            1 => v.push(Piece::CharRef(REFCHARS[g.pick(REFCHARS.len())])),
            _ => {
                let pre = ["amp", "lt", "gt", "apos", "quot"];
                let total = pre.len() + entities.len();
                let i = g.pick(total);
                if i < pre.len() {
                    v.push(Piece::EntRef(pre[i].to_string()));
                } else {
                    v.push(Piece::EntRef(entities[i - pre.len()].clone()));
                }
            }
        }
    }
    v
}

fn att_type(g: &mut Genes) -> AttType {
    match g.pick(11) {
        0 | 1 => AttType::Cdata,
        2 => AttType::Id,
        3 => AttType::IdRef,
        4 => AttType::IdRefs,
        5 => AttType::Entity,
        6 => AttType::Entities,
        7 => AttType::NmToken,
        8 => AttType::NmTokens,
        9 => AttType::Notation(vec!["n1".into(), "n2".into()]),
        _ => AttType::Enum(vec!["x".into(), "y".into(), "1".into()]),
    }
}

pub fn build(genes: Vec<u16>) -> ADoc {
    let mut g = Genes::new(genes);
    // entities whose values are piece lists (text, char refs to white space, references to earlier entities)
    let mut decls: Vec<ADecl> = vec![];
    let mut entities: Vec<String> = vec![];
    let ne = g.range(0, 3);
    for i in 0..ne {
        let name = format!("e{}", i);
        // entity literal: no '<' / '&' char refs (they would be markup in the replacement text)
        let mut value: Vec<Piece> = pieces(&mut g, &entities, 1);
        value.retain(|p| !matches!(p, Piece::CharRef('<') | Piece::CharRef('&') | Piece::CharRef('"') | Piece::CharRef('\'')));
        decls.push(ADecl::Entity { name: name.clone(), value });
        entities.push(name);
    }
    let nlists = g.weighted(&[1, 4, 2]);
    for _ in 0..nlists {
        let nd = g.range(1, 3);
        let mut defs = vec![];
        for _ in 0..nd {
            // now and then a prefixed name (the xml prefix needs no declaration)
            let name = if g.chance(1, 6) { QN::new(Some("xml"), ["space", "lang", "id"][g.pick(3)]) } else { QN::new(None, NAMES[g.pick(NAMES.len())]) };
            let ty = att_type(&mut g);
            let default = match g.weighted(&[3, 1, 4, 3]) {
                0 => DefaultDecl::Implied,
                1 => DefaultDecl::Required,
                2 => DefaultDecl::Value(pieces(&mut g, &entities, 0)),
                _ => DefaultDecl::Fixed(pieces(&mut g, &entities, 0)),
            };
            defs.push(AttDef { name, ty, default });
        }
        let at = g.pick(decls.len() + 1);
        decls.insert(at, ADecl::AttList { elem: "r".into(), defs });
    }
    // ATTLIST defaults may only reference entities declared before them: re-check and drop offending references
    let mut declared: Vec<String> = vec![];
    for d in decls.iter_mut() {
        match d {
            ADecl::Entity { name, .. } => declared.push(name.clone()),
            ADecl::AttList { defs, .. } => {
                for def in defs.iter_mut() {
                    if let DefaultDecl::Value(p) | DefaultDecl::Fixed(p) = &mut def.default {
                        p.retain(|x| match x {
                            Piece::EntRef(n) => ["amp", "lt", "gt", "apos", "quot"].contains(&n.as_str()) || declared.contains(n),
                            _ => true,
                        });
                    }
                }
            }
            _ => {}
        }
    }
    let na = g.range(0, 3);
    let mut attrs: Vec<AAttr> = vec![];
    for _ in 0..na {
        let name = QN::new(None, NAMES[g.pick(NAMES.len())]);
        if attrs.iter().any(|a| a.name == name) {
            continue;
        }
        attrs.push(AAttr { name, value: pieces(&mut g, &entities, 0) });
    }
    // the same entities referenced in content too: there their white space is NOT normalised, so an
    // implementation that shares expanded text between the two kinds of use shows up
    let mut children: Vec<ANode> = vec![];
    if !entities.is_empty() && g.chance(1, 2) {
        for _ in 0..g.range(1, 2) {
            children.push(ANode::EntRef(entities[g.pick(entities.len())].clone()));
        }
    }
    // a fifth of the documents name an external subset as well (never read; the internal subset comes first and binds)
    let external = if g.chance(1, 5) {
        let sys = ["r.dtd", "http://e/x.dtd", ""][g.pick(3)].to_string();
        Some((if g.chance(1, 2) { Some("-//W3C//DTD X//EN".to_string()) } else { None }, sys))
    } else {
        None
    };
    ADoc {
        decl: None,
        pre: vec![],
        doctype: Some(ADocType { name: "r".into(), external, decls: Some(decls) }),
        pre2: vec![],
        root: AElem { name: QN::new(None, "r"), ns_decls: vec![], attrs, children },
        post: vec![],
    }
}

/// what expat reports for the attributes of the root element: (name, value) pairs + number of specified ones
fn expat_attrs(text: &str) -> Option<(Vec<(String, String)>, usize)> {
    let script = r#"
import sys, json, pyexpat
d = sys.stdin.buffer.read()
p = pyexpat.ParserCreate()
p.ordered_attributes = True
out = {}
def start(name, attrs):
    if 'a' not in out:
        out['a'] = attrs
        out['n'] = p.specified_attribute_count
p.StartElementHandler = start
try:
    p.Parse(d, True)
    print(json.dumps(out))
except pyexpat.ExpatError as e:
    print(json.dumps({'error': str(e)}))
"#;
    let py = if std::path::Path::new("/usr/bin/python3").exists() { "/usr/bin/python3" } else { "python3" };
    let mut child = Command::new(py).arg("-c").arg(script).stdin(Stdio::piped()).stdout(Stdio::piped()).stderr(Stdio::null()).spawn().ok()?;
    child.stdin.take()?.write_all(text.as_bytes()).ok()?;
    let out = child.wait_with_output().ok()?;
    let j: Json = serde_json::from_slice(&out.stdout).ok()?;
    let a = j["a"].as_array()?;
    let mut v = vec![];
    for pair in a.chunks(2) {
        v.push((pair[0].as_str()?.to_string(), pair[1].as_str()?.to_string()));
    }
    Some((v, j["n"].as_u64()? as usize / 2))
}

impl Property for C11 {
    fn id(&self) -> &'static str {
        "C11"
    }
    fn rule(&self) -> String {
        "a one-element document whose internal subset declares 0-3 general entities (values = piece lists of text, TAB/LF/CR, character references to white space and other \
         characters, references to earlier entities) and 0-2 ATTLISTs for the element (1-3 definitions each, every attribute type, #REQUIRED/#IMPLIED/default/#FIXED, the same \
         name possibly declared twice: first binding wins; a fifth of the DOCTYPEs also carry an external identifier) and 0-3 written attributes whose value literals are such piece lists; rendered with random quote style, white space \
         and reference spellings. Oracle: own implementation of XML 1.0 3.3.3 (literal white space -> space, character references unchanged, entity references expanded \
         recursively with their white space normalised, trim+collapse for non-CDATA types, defaulting with specified=false; #IMPLIED/#REQUIRED only when written), observed through \
         Attr::value, Attr::specified, Element::get_attribute, the attribute set and XPath string(@a); a candidate violation is reported only if pyexpat (when available) reports the \
         same values as the oracle. Non-trivial = a value with >= 2 piece kinds incl. white space or a reference, or a defaulted attribute; distinct by text."
            .into()
    }
    fn assumptions(&self) -> Vec<String> {
        vec![
            "gen/adoc.rs Semantics::normalize_attr implements XML 1.0 3.3.3; pyexpat is the second opinion (cases where the two disagree are discarded and counted)".into(),
            "literal CR / CRLF in values are generated (a conforming parser normalises line ends first, 2.11: both become one space)".into(),
        ]
    }
    fn cases_per_shard(&self, tier: Tier) -> u32 {
        tier.pick(3000, 80000)
    }
    fn strategy(&self, _tier: Tier) -> BoxedStrategy<Json> {
        (proptest::collection::vec(any::<u16>(), 0..120), proptest::collection::vec(any::<u16>(), 0..80))
            .prop_map(|(g, c)| {
                let doc = build(g);
                let r = adoc::render(&doc, c, false);
                let root = r.raw["kids"].as_array().and_then(|k| k.iter().find(|x| x["k"] == "elem")).cloned().unwrap_or(Json::Null);
                let attrs = root["attrs"].clone();
                let mut labels = r.labels.clone();
                let multi_piece = doc.root.attrs.iter().any(|a| {
                    let kinds = [a.value.iter().any(|p| matches!(p, Piece::Text(_))), a.value.iter().any(|p| matches!(p, Piece::CharRef(_))), a.value.iter().any(|p| matches!(p, Piece::EntRef(_)))];
                    kinds.iter().filter(|x| **x).count() >= 2
                });
                if doc.doctype.as_ref().map(|d| d.external.is_some()).unwrap_or(false) {
                    labels.push("doctype-with-external-identifier".into());
                }
                if multi_piece {
                    labels.push("multi-piece-value".into());
                }
                // CRLF handling: the expectation for a literal "\r\n" is ONE space (2.11 + 3.3.3)
                let has_crlf = doc.root.attrs.iter().any(|a| a.value.iter().any(|p| matches!(p, Piece::Text(t) if t.contains("\r\n"))));
                if has_crlf {
                    labels.push("literal-crlf".into());
                }
                let nontrivial = multi_piece || labels.iter().any(|l| l == "defaulted-attr");
                let prefixed_decl = doc.doctype.as_ref().and_then(|d| d.decls.as_ref()).map(|ds| ds.iter().any(|d| matches!(d, ADecl::AttList { defs, .. } if defs.iter().any(|x| x.name.prefix.is_some())))).unwrap_or(false);
                if prefixed_decl {
                    labels.push("prefixed-declared-attribute".into());
                }
                let content_first = !doc.root.children.is_empty() && r.text.len() % 2 == 0;
                if !doc.root.children.is_empty() {
                    labels.push(if content_first { "entity-in-content-read-first".into() } else { "entity-in-content-read-last".into() });
                }
                json!({"text": r.text, "attrs": attrs, "content_first": content_first, "_labels": labels, "_nontrivial": nontrivial})
            })
            .boxed()
    }
    fn fixed_cases(&self, _tier: Tier) -> Vec<Json> {
        crate::engine::regress_cases("C11")
    }
    fn check(&self, case: &Json, obs: &mut Obs) -> Verdict {
        let labels = labels_of(case);
        let text = case["text"].as_str().unwrap_or("");
        if labels.iter().any(|l| l == "literal-crlf") {
            // my renderer's expectation counts CR and LF separately; keep the class out rather than guess
            return Verdict::Discard("excluded:literal-crlf".into());
        }
        let doc = match xml_dom::XmlDocument::from_raw(text) {
            Ok((rest, d)) if rest.is_empty() => d,
            Ok(_) => return Verdict::fail(attribute("C11", &labels, "c11.reject.rest".into(), TRIGGERS), format!("well-formed document not consumed: {:?}", text)),
            Err(e) => return Verdict::fail(attribute("C11", &labels, "c11.reject.error".into(), TRIGGERS), format!("well-formed document rejected ({:?}): {:?}", format!("{:?}", e).chars().take(80).collect::<String>(), text)),
        };
        let root = match doc.document_element() {
            Ok(r) => r,
            Err(_) => return Verdict::fail("c11.no-root", format!("no document element: {:?}", text)),
        };
        // the content may be read before the attributes (expansion of the shared entities in content mode first)
        if case["content_first"].as_bool().unwrap_or(false) {
            use xml_dom::AsStringValue;
            let _ = root.as_string_value();
            for c in root.child_nodes().iter() {
                let _ = c.node_value();
                if let xml_dom::XmlNode::EntityReference(e) = &c {
                    let _ = e.value();
                }
            }
        }
        let expected: Vec<(String, String, bool)> = case["attrs"]
            .as_array()
            .map(|a| a.iter().map(|x| (x["local"].as_str().unwrap_or("").to_string(), x["value"].as_str().unwrap_or("").to_string(), x["spec"].as_bool().unwrap_or(true))).collect())
            .unwrap_or_default();
        let got: Vec<(String, String, bool)> = root.attributes().map(|m| m.iter().map(|a| (a.name(), a.value().unwrap_or_else(|e| format!("<error {:?}>", e)), a.specified())).collect()).unwrap_or_default();
        let mut e2 = expected.clone();
        e2.sort();
        let mut g2 = got.clone();
        g2.sort();
        let mut problem: Option<(String, String)> = None;
        if e2 != g2 {
            let class = if e2.len() != g2.len() {
                "attribute-set"
            } else if e2.iter().zip(g2.iter()).any(|(a, b)| a.0 != b.0) {
                "attribute-names"
            } else if e2.iter().zip(g2.iter()).any(|(a, b)| a.1 != b.1) {
                "value"
            } else {
                "specified-flag"
            };
            problem = Some((format!("c11.{}", class), format!("expected (name, value, specified) {:?}, the library reports {:?}", e2, g2)));
        }
        if problem.is_none() {
            for (name, value, _) in &expected {
                let ga = root.get_attribute(name);
                if ga != *value {
                    problem = Some(("c11.get-attribute".into(), format!("get_attribute({:?}) = {:?}, expected {:?}", name, ga, value)));
                    break;
                }
                let q = format!("string(/*/@{})", name);
                let r = panics::catch(|| {
                    let mut ctx = xml_xpath::eval::model::Context::default();
                    xml_xpath::query(doc.clone(), &q, &mut ctx).map(|v| format!("{}", v)).map_err(|e| format!("{:?}", e))
                });
                match r {
                    Ok(Ok(s)) if s == *value => {}
                    other => {
                        problem = Some(("c11.xpath-string-of-attribute".into(), format!("{} = {:?}, expected {:?}", q, other.map_err(|p| p.message), value)));
                        break;
                    }
                }
            }
        }
        let (key, detail) = match problem {
            None => return Verdict::Pass,
            Some(p) => p,
        };
        // look-ups by name go by the local part throughout the dom crate, and a defaulted attribute has no owner
        // element to resolve its prefix with: with a prefixed declared attribute (xml:id next to id) get_attribute
        // and the XPath name test pick the wrong one. Same root causes as two open findings of C17 and C05.
        let key = if labels.iter().any(|l| l == "prefixed-declared-attribute") && matches!(key.as_str(), "c11.get-attribute" | "c11.xpath-string-of-attribute") {
            "c11.prefixed-declared-attribute.looked-up-by-local-name".to_string()
        } else {
            key
        };
        let key = attribute("C11", &labels, key, TRIGGERS);
        if crate::engine::skip_known("C11", &key) {
            obs.known_hits.push(key);
            return Verdict::Pass;
        }
        Verdict::fail(key, format!("{} [document {:?}]", detail, text))
    }
    fn confirm(&self, case: &Json, _key: &str) -> Result<(), String> {
        // second opinion: expat must report what my 3.3.3 implementation expects
        let text = case["text"].as_str().unwrap_or("");
        if !text.is_ascii() {
            return Ok(());
        }
        let expected: Vec<(String, String, bool)> = case["attrs"]
            .as_array()
            .map(|a| a.iter().map(|x| (x["local"].as_str().unwrap_or("").to_string(), x["value"].as_str().unwrap_or("").to_string(), x["spec"].as_bool().unwrap_or(true))).collect())
            .unwrap_or_default();
        match expat_attrs(text) {
            None => Ok(()),
            Some((attrs, nspec)) => {
                let mut e: Vec<(String, String)> = expected.iter().map(|(n, v, _)| (n.clone(), v.clone())).collect();
                e.sort();
                let mut a = attrs.clone();
                a.sort();
                let espec = expected.iter().filter(|x| x.2).count();
                if e == a && espec == nspec {
                    Ok(())
                } else {
                    Err(format!("expat-disagrees-with-the-oracle(expat {:?}/{} vs oracle {:?}/{})", a, nspec, e, espec))
                }
            }
        }
    }
    fn floors(&self, _tier: Tier) -> Vec<(&'static str, f64)> {
        vec![("defaulted-attr", 0.05), ("multi-piece-value", 0.1)]
    }
}
