use crate::engine::Property;

pub mod c01;
pub mod c02;
pub mod c03;
pub mod c04;
pub mod c05;
pub mod c06;
pub mod c07;
pub mod c08;
pub mod c09;
pub mod c10;
pub mod c11;
pub mod c12;
pub mod c13;
pub mod c14;
pub mod c15;
pub mod c16;
pub mod c17;
pub mod c18;
pub mod c19;

pub fn all() -> Vec<Box<dyn Property>> {
    vec![Box::new(c01::C01), Box::new(c02::C02), Box::new(c03::C03), Box::new(c04::C04), Box::new(c05::C05), Box::new(c06::C06), Box::new(c07::C07), Box::new(c08::C08), Box::new(c09::C09), Box::new(c10::C10), Box::new(c11::C11), Box::new(c12::C12), Box::new(c13::C13), Box::new(c14::C14), Box::new(c15::C15), Box::new(c16::C16), Box::new(c17::C17), Box::new(c18::C18), Box::new(c19::C19)]
}

pub fn by_id(id: &str) -> Option<Box<dyn Property>> {
    all().into_iter().find(|p| p.id() == id)
}
