//! C07 — node-sets are duplicate-free, document-ordered and obey set algebra (no reference evaluator).

use crate::engine::{panics, skip_known, Json, Obs, Property, Tier, Verdict};
use crate::gen::xgen::{self, ExprGen, Rng};
use crate::oracle::domindex;
use crate::props::c05::features;
use proptest::prelude::*;
use serde_json::json;
use xml_dom::XmlNode;

pub struct C07;

type Pos = Vec<(usize, usize, usize)>;

enum R {
    Set(Vec<XmlNode>),
    Other,
    Err,
    Panic(String),
}

fn eval(doc: &xml_dom::XmlDocument, expr: &str, ns: &[(String, String)]) -> R {
    let r = panics::catch(|| {
        let mut ctx = xml_xpath::eval::model::Context::default();
        for (p, u) in ns {
            ctx.add_ns(Some(p.as_str()), u.as_str());
        }
        xml_xpath::query(doc.clone(), expr, &mut ctx).map_err(|e| format!("{:?}", e))
    });
    match r {
        Err(pi) => R::Panic(pi.key()),
        Ok(Err(_)) => R::Err,
        Ok(Ok(xml_xpath::eval::model::Value::Node(v))) => R::Set(v),
        Ok(Ok(_)) => R::Other,
    }
}

fn number(doc: &xml_dom::XmlDocument, expr: &str, ns: &[(String, String)]) -> Option<f64> {
    let mut ctx = xml_xpath::eval::model::Context::default();
    for (p, u) in ns {
        ctx.add_ns(Some(p.as_str()), u.as_str());
    }
    match panics::catch(|| xml_xpath::query(doc.clone(), expr, &mut ctx).ok()) {
        Ok(Some(xml_xpath::eval::model::Value::Number(n))) => Some(n),
        _ => None,
    }
}

/// does the value of the node-set expression depend on the context node it is evaluated in? (absolute paths, filter
/// expressions over such, and unions of such do not)
fn is_context_free(e: &vp_xref::Expr) -> bool {
    match e {
        vp_xref::Expr::Path(p) => match &p.start {
            vp_xref::PathStart::Root => true,
            vp_xref::PathStart::Context => false,
            vp_xref::PathStart::Filter(inner, _) => is_context_free(inner),
        },
        vp_xref::Expr::Bin(vp_xref::BinOp::Union, x, y) => is_context_free(x) && is_context_free(y),
        _ => false,
    }
}

fn sorted_union(a: &Pos, b: &Pos) -> Pos {
    let mut v: Pos = a.iter().chain(b.iter()).cloned().collect();
    v.sort();
    v.dedup();
    v
}

impl Property for C07 {
    fn id(&self) -> &'static str {
        "C07"
    }
    fn rule(&self) -> String {
        "documents and three node-set-valued expression ASTs A, B, C (all axes incl. reverse ones, predicates, unions, filter expressions) from proptest gene vectors. Oracle = \
         invariants and algebra only, no reference evaluator: every result lists each node at most once and in document order (positions come from a pre-order walk of the DOM, \
         not from the library's order keys); A|B = B|A = sorted duplicate-free merge of the results of A and B; A|A = A; (A|B)|C = A|(B|C); max(|A|,|B|) <= count(A|B) <= |A|+|B|; \
         (A)[k] is the k-th member of A, (A)[last()] the last, (A)[position()<=k] the first k; and A evaluated as a sub-expression inside a predicate on the root node (same context as the top level) has the same cardinality, a member at position |A| and none at |A|+1. Non-trivial = A and B overlap partially or one of them is produced through a \
         reverse axis / in non-document order; distinct by (document, A, B, C)."
            .into()
    }
    fn assumptions(&self) -> Vec<String> {
        vec![
            "attributes of one element share one position (their mutual order is implementation-defined)".into(),
            "expressions using the namespace axis are excluded: namespace nodes have no identity in the API (see finding c05.namespace-nodes-shared-between-elements)".into(),
        ]
    }
    fn cases_per_shard(&self, tier: Tier) -> u32 {
        tier.pick(4000, 100000)
    }
    fn strategy(&self, _tier: Tier) -> BoxedStrategy<Json> {
        (
            proptest::collection::vec(any::<u16>(), 0..160),
            proptest::collection::vec(any::<u16>(), 0..60),
            proptest::collection::vec(any::<u16>(), 0..60),
            proptest::collection::vec(any::<u16>(), 0..60),
            1u32..4,
            any::<u16>(),
        )
            .prop_map(|(t, a, b, c, depth, k)| {
                let mut rt = Rng::new(t);
                let tree = xgen::gen_tree(&mut rt);
                let text = vp_xref::to_xml(&tree);
                let gen = ExprGen { error_pct: 0, ..ExprGen::default() }.with_vocabulary(&tree);
                let mut exprs = vec![];
                let mut feats = vec![];
                for genes in [a, b, c] {
                    let mut r = Rng::new(genes);
                    let ast = gen.nodeset(&mut r, depth);
                    features(&ast, &mut feats);
                    match vp_xref::spell_min(&ast) {
                        Ok(s) => exprs.push(s),
                        Err(_) => return json!({"_discard": "unspellable"}),
                    }
                }
                let ns = xgen::expr_ns();
                json!({"doc": text, "a": exprs[0], "b": exprs[1], "c": exprs[2], "k": 1 + (k % 4),
                       "ns": ns.iter().map(|(p, u)| json!([p, u])).collect::<Vec<_>>(), "features": feats, "_labels": feats})
            })
            .boxed()
    }
    fn fixed_cases(&self, _tier: Tier) -> Vec<Json> {
        crate::engine::regress_cases("C07")
    }
    fn check(&self, case: &Json, obs: &mut Obs) -> Verdict {
        let text = case["doc"].as_str().unwrap_or("");
        let doc = match xml_dom::XmlDocument::from_raw_with_context(text, xml_dom::Context::from_text_expanded(true)) {
            Ok((rest, d)) if rest.is_empty() => d,
            _ => return Verdict::Discard("document-rejected".into()),
        };
        let feats: Vec<&str> = case["features"].as_array().map(|a| a.iter().filter_map(|x| x.as_str()).collect()).unwrap_or_default();
        if feats.contains(&"axis:namespace") {
            // namespace nodes have no identity in the library's API (C05 lists the finding): nothing can be checked
            return Verdict::Discard("excluded:namespace-axis".into());
        }
        let ns: Vec<(String, String)> = case["ns"].as_array().map(|a| a.iter().map(|x| (x[0].as_str().unwrap_or("").to_string(), x[1].as_str().unwrap_or("").to_string())).collect()).unwrap_or_default();
        let ix = domindex::index(&doc);
        let (a, b, c) = (case["a"].as_str().unwrap_or(""), case["b"].as_str().unwrap_or(""), case["c"].as_str().unwrap_or(""));
        let k = case["k"].as_u64().unwrap_or(1) as usize;
        macro_rules! fail {
            ($key:expr, $detail:expr) => {{
                let key: String = $key;
                if skip_known("C07", &key) {
                    obs.known_hits.push(key);
                    return Verdict::Pass;
                }
                return Verdict::fail(key, format!("{} [document {:?}]", $detail, text));
            }};
        }
        // evaluate and check the two invariants on every result
        let mut sets: Vec<(String, Pos)> = vec![];
        let exprs: Vec<String> = vec![
            a.to_string(),
            b.to_string(),
            c.to_string(),
            format!("({})|({})", a, b),
            format!("({})|({})", b, a),
            format!("({})|({})", a, a),
            format!("(({})|({}))|({})", a, b, c),
            format!("({})|(({})|({}))", a, b, c),
            format!("({})[{}]", a, k),
            format!("({})[last()]", a),
            format!("({})[position()<={}]", a, k),
        ];
        for e in &exprs {
            match eval(&doc, e, &ns) {
                R::Set(v) => {
                    let pos2 = match domindex::positions(&ix, &v) {
                        Some(p) => p,
                        None => return Verdict::Discard("node-without-identity-in-result".into()),
                    };
                    // (pre-order position, attribute rank, node id); attributes of one element share a position
                    let pos: Pos = pos2.iter().zip(v.iter()).map(|((p, r), n)| (*p, *r, n.id())).collect();
                    // duplicate-free: ids pairwise distinct
                    let mut ids: Vec<(usize, u8)> = v.iter().map(|n| (n.id(), domindex::class_of(n))).collect();
                    ids.sort();
                    let n0 = ids.len();
                    ids.dedup();
                    if ids.len() != n0 {
                        fail!("c07.duplicate-node".to_string(), format!("{} returns a node twice: positions {:?}", e, pos));
                    }
                    // document order: non-decreasing, equal only for attributes of one element
                    for w in pos.windows(2) {
                        let (x, y) = ((w[0].0, w[0].1), (w[1].0, w[1].1));
                        if y < x || (y == x && x.1 == 0) {
                            fail!("c07.not-in-document-order".to_string(), format!("{} returns positions {:?}", e, pos));
                        }
                    }
                    // the mutual order of the attributes of one element is not prescribed: normalise it
                    let mut pos = pos;
                    pos.sort();
                    sets.push((e.clone(), pos));
                }
                R::Other => return Verdict::Discard("not-a-node-set".into()),
                R::Err => return Verdict::Discard("evaluation-error".into()),
                R::Panic(k) => fail!(format!("c07.panic.{}", k), format!("{} panics", e)),
            }
        }
        let get = |i: usize| -> &Pos { &sets[i].1 };
        let (ra, rb, rc) = (get(0), get(1), get(2));
        let overlap = ra.iter().filter(|x| rb.contains(x)).count();
        let reverse = feats.iter().any(|f| matches!(*f, "axis:ancestor" | "axis:ancestor-or-self" | "axis:preceding" | "axis:preceding-sibling" | "axis:parent"));
        obs.nontrivial = Some((overlap > 0 && (overlap < ra.len() || overlap < rb.len())) || (reverse && !ra.is_empty()));
        if overlap > 0 && (overlap < ra.len() || overlap < rb.len()) {
            obs.label("partial-overlap");
        }
        if reverse {
            obs.label("reverse-axis");
        }
        let uab = sorted_union(ra, rb);
        if *get(3) != uab {
            fail!("c07.union-not-set-union".to_string(), format!("{} = {:?} but the operands give {:?} and {:?}", exprs[3], get(3), ra, rb));
        }
        if get(3) != get(4) {
            fail!("c07.union-not-commutative".to_string(), format!("{} = {:?}, {} = {:?}", exprs[3], get(3), exprs[4], get(4)));
        }
        if get(5) != ra {
            fail!("c07.union-not-idempotent".to_string(), format!("{} = {:?}, A = {:?}", exprs[5], get(5), ra));
        }
        if get(6) != get(7) || *get(6) != sorted_union(&uab, rc) {
            fail!("c07.union-not-associative".to_string(), format!("{} = {:?}, {} = {:?}", exprs[6], get(6), exprs[7], get(7)));
        }
        // count bounds through the library's own count()
        if let Some(n) = number(&doc, &format!("count(({})|({}))", a, b), &ns) {
            let n = n as usize;
            if n < ra.len().max(rb.len()) || n > ra.len() + rb.len() || n != uab.len() {
                fail!("c07.count-of-union".to_string(), format!("count(A|B) = {} with |A| = {}, |B| = {}, |A u B| = {}", n, ra.len(), rb.len(), uab.len()));
            }
        }
        // positional filters on a parenthesised node-set count in document order
        let kth: Pos = ra.get(k - 1).cloned().into_iter().collect();
        if *get(8) != kth {
            fail!("c07.positional-filter".to_string(), format!("{} = {:?} but A = {:?}", exprs[8], get(8), ra));
        }
        let last: Pos = ra.last().cloned().into_iter().collect();
        if *get(9) != last {
            fail!("c07.positional-filter-last".to_string(), format!("{} = {:?} but A = {:?}", exprs[9], get(9), ra));
        }
        let firstk: Pos = ra.iter().take(k).cloned().collect();
        if *get(10) != firstk {
            fail!("c07.positional-filter-range".to_string(), format!("{} = {:?} but A = {:?}", exprs[10], get(10), ra));
        }
        // "every node-set produced by any expression": the same A as a sub-expression. Inside a predicate on the
        // root node the context (node = root, position 1 of 1) is that of the top level, so A must be the same set
        // there: same cardinality, a last member at |A| and none beyond.
        let na = ra.len();
        let probes: Vec<(String, f64)> = vec![
            (format!("count((/)[count({}) = {}])", a, na), 1.0),
            (format!("count((/)[count(({})|({})) = {}])", a, b, uab.len()), 1.0),
            (format!("count((/)[({})[{}]])", a, na.max(1)), if na > 0 { 1.0 } else { 0.0 }),
            (format!("count((/)[({})[{}]])", a, na + 1), 0.0),
        ];
        for (q, want) in probes {
            if let Some(got) = number(&doc, &q, &ns) {
                if got != want {
                    fail!("c07.sub-expression-node-set-differs".to_string(), format!("{} = {} (expected {}): A has {} members at top level: {:?}", q, got, want, na, ra));
                }
                obs.label("sub-expression-probe");
            }
        }
        // positional filters on a parenthesised set count in document order wherever they are written - also inside the
        // predicate of a reverse-axis step. For an absolute A the filter's value does not depend on the context node, so a
        // fingerprint of the selected nodes (how many nodes precede them, how many ancestors they have, how many they are)
        // taken at top level must be met in every context of such a step.
        let context_free = vp_xref::parse(a).map(|e| is_context_free(&e)).unwrap_or(false);
        if na >= 2 {
            for sel in [format!("({})[{}]", a, k), format!("({})[last()]", a), format!("({})[position()<={}]", a, k), format!("({})[1]", a)] {
                let f = format!("count(({0})/preceding::node()) + 1000 * count(({0})/ancestor::node()) + 1000000 * count({0})", sel);
                let v = match number(&doc, &f, &ns) {
                    Some(v) if v.is_finite() => v,
                    _ => continue,
                };
                // (a context-dependent A is asked only where the context is the root node again, as at top level)
                let wrappers: &[&str] = if context_free {
                    &["/*/ancestor::node()", "/*/ancestor-or-self::node()", "(//node())[last()]/ancestor-or-self::node()", "(//node())[last()]/preceding::node()", "(//node())[last()]/preceding-sibling::node()", "//*[1]"]
                } else {
                    &["/*/ancestor::node()", "/*/ancestor-or-self::node()[last()]", "/*/preceding::node()/.. | /*/ancestor::node()"]
                };
                for w in wrappers.iter() {
                    let all = number(&doc, &format!("count({})", w), &ns);
                    let met = number(&doc, &format!("count({}[{} = {}])", w, f, v as u64), &ns);
                    if let (Some(all), Some(met)) = (all, met) {
                        if all > 0.0 {
                            obs.label("filter-inside-reverse-step-predicate");
                        }
                        if all != met {
                            fail!("c07.positional-filter-depends-on-enclosing-step".to_string(), format!("{} selects nodes with fingerprint {} at top level, but inside the predicate of {} only {} of {} context nodes see the same selection", sel, v, w, met, all));
                        }
                    }
                }
            }
        }
        Verdict::Pass
    }
    fn floors(&self, _tier: Tier) -> Vec<(&'static str, f64)> {
        vec![("partial-overlap", 0.02), ("reverse-axis", 0.1)]
    }
}
