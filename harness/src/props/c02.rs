//! C02 — ill-formed input is never reported as a completely parsed document.

use crate::engine::{skip_known, Json, Obs, Property, Tier, Verdict};
use crate::gen::adoc::{self, DocCfg};
use crate::gen::genes::Genes;
use crate::gen::mutate;
use crate::oracle::external;
use proptest::prelude::*;
use serde_json::json;

pub struct C02;

pub fn accepted_completely(text: &str) -> (bool, bool) {
    let a = matches!(xml_dom::XmlDocument::from_raw(text), Ok((rest, _)) if rest.is_empty());
    let b = matches!(xml_dom::XmlDocument::from_raw_with_context(text, xml_dom::Context::from_text_expanded(true)), Ok((rest, _)) if rest.is_empty());
    (a, b)
}

pub fn mutant_case(genes: Vec<u16>, choices: Vec<u16>, mgenes: Vec<u16>, max_nodes: usize) -> Json {
    let cfg = DocCfg::full(max_nodes);
    let (doc, _feats) = adoc::build(genes, &cfg);
    let r = adoc::render(&doc, choices, false);
    let mut g = Genes::new(mgenes);
    let n = 1 + g.pick(2);
    let mut text = r.text.clone();
    let mut applied: Vec<&'static str> = vec![];
    for _ in 0..n {
        let which = if g.chance(1, 4) { 0 } else { g.pick(mutate::MUTATORS.len()) };
        let (t, name) = mutate::mutate(&text, which, &mut g);
        text = t;
        applied.push(name);
    }
    let labels: Vec<String> = applied.iter().map(|m| format!("mutator:{}", m)).collect();
    json!({"parent": r.text, "text": text, "_labels": labels})
}

/// finding key: root causes that show up under several recogniser rules/contexts get one key
pub fn root_cause_key(text: &str, rule: &str, context: &str, offset: usize) -> String {
    if rule == "entity-content-not-wf" {
        // markup inside an entity's replacement text is not parsed at all (it is treated as text)
        return "c02.accept.entity-replacement-text-not-parsed".to_string();
    }
    // The recognizer reports an error found *inside* an entity's replacement text at the offset of the reference
    // that included it, under the rule of the markup that is wrong there (bad-markup-decl, unterminated-tag, ...):
    // the same root cause as entity-content-not-wf.
    if let Some(rest) = text.get(offset..) {
        if let Some(r) = rest.strip_prefix('&') {
            let name_len = r.chars().take_while(|c| crate::oracle::chars::is_name_char(*c)).map(|c| c.len_utf8()).sum::<usize>();
            let is_entity_ref = name_len > 0 && r[name_len..].starts_with(';') && !r.starts_with('#');
            let about_the_reference = matches!(rule, "undeclared-entity" | "entity-recursion" | "unparsed-entity-ref" | "external-entity-in-attr" | "lt-in-entity-used-in-attr" | "entity-ref-syntax");
            if is_entity_ref && !about_the_reference && context != "attr-value" {
                return "c02.accept.entity-replacement-text-not-parsed".to_string();
            }
        }
    }
    if let Some(rest) = text.get(offset..) {
        let mut r = rest;
        for p in ["<?", "</", "<!", "<", "&", "%"] {
            if let Some(x) = r.strip_prefix(p) {
                r = x;
                break;
            }
        }
        if let Some(c) = r.chars().next() {
            if crate::oracle::chars::is_name_char(c) && !crate::oracle::chars::is_name_start(c) && !matches!(rule, "charref-syntax" | "charref-not-char") {
                return "c02.accept.name-starts-with-namechar-only".to_string();
            }
        }
    }
    format!("c02.accept.{}.{}", rule, context)
}

impl Property for C02 {
    fn id(&self) -> &'static str {
        "C02"
    }
    fn rule(&self) -> String {
        "a rendering of a generated abstract document (C01's generator) to which 1-2 mutators are applied: 33 token-level breaking mutators aimed at the well-formedness \
         rules (end-tag rename/delete/swap, duplicate attribute, '<' / bare '&' in attribute value or content, '--' in comment, ']]>' in character data, undeclared or \
         recursive or external/unparsed entity reference, missing/multiple roots, text after the root, misplaced XML declaration, reserved PI target, illegal characters, \
         bad name start, character reference to a non-Char, missing quote/=/space, truncation, DOCTYPE after the root, unterminated comment) and plain character-level \
         insert/delete/replace edits over a markup alphabet. Oracle: the independent reference recognizer vp-wf (XML 1.0 5th Ed. productions and well-formedness constraints, \
         differentially validated against expat and libxml2) says IllFormed => from_raw and from_raw_with_context must each answer Err or a non-empty rest; before a violation \
         is reported the input is shown to pyexpat (ASCII inputs) and xmllint, and discarded if either accepts it. Non-trivial = the mutant differs from its parent, is judged \
         IllFormed, and the parent is accepted by the library; distinct by mutant text."
            .into()
    }
    fn assumptions(&self) -> Vec<String> {
        vec![
            "vp-wf (oracles/wf) returns IllFormed only for inputs that are not well-formed XML 1.0 (5th Ed.); inputs outside its profile (parameter entities, non-UTF-8 encoding declarations, undeclared entities with an external subset, ...) are discarded and counted".into(),
            "rejecting more than XML 1.0 requires (namespace constraints) is not judged here".into(),
            "python3/pyexpat and xmllint are consulted only to confirm candidate violations; when they are missing the recognizer's verdict stands alone".into(),
        ]
    }
    fn cases_per_shard(&self, tier: Tier) -> u32 {
        tier.pick(2500, 120000)
    }
    fn strategy(&self, tier: Tier) -> BoxedStrategy<Json> {
        let max_genes = tier.pick(200usize, 600usize);
        let max_nodes = tier.pick(25usize, 120usize);
        (
            proptest::collection::vec(any::<u16>(), 0..max_genes),
            proptest::collection::vec(any::<u16>(), 0..120),
            proptest::collection::vec(any::<u16>(), 1..24),
        )
            .prop_map(move |(g, c, m)| mutant_case(g, c, m, max_nodes))
            .boxed()
    }
    fn fixed_cases(&self, _tier: Tier) -> Vec<Json> {
        let mut v: Vec<Json> = HAND
            .iter()
            .map(|t| json!({"parent": "", "text": t, "_labels": ["hand-written"]}))
            .collect();
        v.extend(crate::engine::regress_cases("C02"));
        v
    }
    fn check(&self, case: &Json, obs: &mut Obs) -> Verdict {
        let text = case["text"].as_str().unwrap_or("");
        let parent = case["parent"].as_str().unwrap_or("");
        if text == parent {
            return Verdict::Discard("mutant-equals-parent".into());
        }
        let verdict = vp_wf::check(text);
        let (rule, context, offset) = match verdict {
            vp_wf::Verdict::WellFormed(_) => {
                obs.label("mutant:still-well-formed");
                return Verdict::Discard("mutant-well-formed".into());
            }
            vp_wf::Verdict::OutsideProfile(r) => {
                return Verdict::Discard(format!("outside-profile:{}", r));
            }
            vp_wf::Verdict::IllFormed { rule, context, offset } => (rule, context, offset),
        };
        obs.label(format!("rule:{}", rule));
        let parent_ok = parent.is_empty() || accepted_completely(parent).0;
        obs.nontrivial = Some(parent_ok);
        let (a, b) = accepted_completely(text);
        if !a && !b {
            return Verdict::Pass;
        }
        let key = root_cause_key(text, rule, context, offset);
        if skip_known("C02", &key) {
            obs.known_hits.push(key);
            return Verdict::Pass;
        }
        Verdict::fail(
            key,
            format!(
                "ill-formed input accepted completely (from_raw: {}, merged view: {}); recognizer: {} in {} at byte {}; input={:?}",
                a, b, rule, context, offset, text
            ),
        )
    }
    fn confirm(&self, case: &Json, _key: &str) -> Result<(), String> {
        let text = case["text"].as_str().unwrap_or("");
        let (confirmed, note) = external::confirm_ill_formed(text);
        if confirmed {
            Ok(())
        } else {
            Err(format!("external-parser-accepts({})", note))
        }
    }
    fn floors(&self, _tier: Tier) -> Vec<(&'static str, f64)> {
        vec![("rule:end-tag-mismatch", 0.006), ("rule:dup-attr", 0.003), ("rule:illegal-char", 0.006), ("rule:undeclared-entity", 0.003)]
    }
}

/// hand-written ill-formed classics (each judged by the recognizer like any other case)
const HAND: &[&str] = &[
    // WFC PEs in Internal Subset, also for an entity that is never referenced
    "<!DOCTYPE a [<!ENTITY e \"%p;\">]><a/>",
    "<!DOCTYPE a [<!ENTITY % p \"x\"><!ENTITY e \"%p;\">]><a/>",
    "<!DOCTYPE a [<!ENTITY e '50% off'>]><a/>",
    // 4.2: of several declarations of one entity the first is binding
    "<!DOCTYPE a [<!ENTITY e \"&u;\"><!ENTITY e \"x\">]><a>&e;</a>",
    "<!DOCTYPE a [<!ENTITY e \"a&e;\"><!ENTITY e \"x\">]><a>&e;</a>",
    "<!DOCTYPE a [<!ENTITY e \"<i/>\"><!ENTITY e \"i\">]><a b='&e;'/>",
    "<!DOCTYPE a [<!ENTITY e SYSTEM \"e.txt\"><!ENTITY e \"x\">]><a b='&e;'/>",
    "<!DOCTYPE a [<!NOTATION n SYSTEM \"n\"><!ENTITY e SYSTEM \"e.gif\" NDATA n><!ENTITY e \"x\">]><a>&e;</a>",
    "<!DOCTYPE a [<!ENTITY e \"&u;\"><!ENTITY f \"&e;\"><!ENTITY e \"x\">]><a b='&f;'/>",
    "<a></b>",
    "<a>",
    "<a><b></a></b>",
    "<a x=\"1\" x=\"2\"/>",
    "<a x=\"1\" x='2'/>",
    "<a x=\"1\" y=\"2\" x=\"3\"/>",
    "<a x=\"1\" y=\"2\" z=\"3\" x=\"4\"></a>",
    "<a xmlns:p=\"u\" b=\"1\" xmlns:p=\"v\"/>",
    "<a xmlns=\"u\" b=\"1\" xmlns=\"v\"/>",
    "<a p:x=\"1\" y=\"2\" p:x=\"3\" xmlns:p=\"u\"/>",
    "<?xml version='1.0' standalone='yes' encoding='UTF-8'?><a/>",
    "<?xml encoding='UTF-8' version='1.0'?><a/>",
    "<?xml standalone='yes' version='1.0'?><a/>",
    "<?xml version='1.0' encoding='UTF-8' encoding='UTF-8'?><a/>",
    "<?xml version='1.0' standalone='yes' standalone='yes'?><a/>",
    "<?xml version='1.0'encoding='UTF-8'?><a/>",
    "<a>x]]]>y</a>",
    "<a>if (a[b[c[0]]]>d) {}</a>",
    "<!DOCTYPE a [<!ENTITY l \"&c1;\"><!ENTITY c1 \"&c2;\"><!ENTITY c2 \"&c1;\">]><a>&l;</a>",
    "<!DOCTYPE a [<!ENTITY l \"&c1;\"><!ENTITY c1 \"&c2;\"><!ENTITY c2 \"&c1;\">]><a b=\"&l;\"/>",
    "<a x=\"<\"/>",
    "<a x=\"&\"/>",
    "<a>&</a>",
    "<a><</a>",
    "<a><!-- a -- b --></a>",
    "<a><!-- a ---></a>",
    "<a>]]></a>",
    "<a>&nosuch;</a>",
    "<a/><b/>",
    "<a/>x",
    "",
    "x",
    " <?xml version=\"1.0\"?><a/>",
    "<!--c--><?xml version=\"1.0\"?><a/>",
    "<?xml version=\"1.0\"?><?xml version=\"1.0\"?><a/>",
    "<a><?xml version=\"1.0\"?></a>",
    "<?XML d?><a/>",
    "<a><?xMl d?></a>",
    "<a>\u{0}</a>",
    "<a>\u{b}</a>",
    "<a>\u{fffe}</a>",
    "<a x=\"\u{1}\"/>",
    "<!--\u{ffff}--><a/>",
    "<1a/>",
    "<-a/>",
    "<a 1x=\"\"/>",
    "<a>&#0;</a>",
    "<a>&#xFFFE;</a>",
    "<a>&#xD800;</a>",
    "<a>&#x110000;</a>",
    "<a>&#99999999999999999999;</a>",
    "<a x=\"&#0;\"/>",
    "<a x=1/>",
    "<a x\"1\"/>",
    "<a x=\"1\"y=\"2\"/>",
    "<a x=\"1/>",
    "<a><!--c</a>",
    "<a><![CDATA[c</a>",
    "<a><?p d</a>",
    "<a",
    "<a/><!DOCTYPE a>",
    "<!DOCTYPE a><!DOCTYPE a><a/>",
    "<!DOCTYPE a [<!ENTITY e \"&e;\">]><a>&e;</a>",
    "<!DOCTYPE a [<!ENTITY e \"&f;\"><!ENTITY f \"&e;\">]><a>&e;</a>",
    "<!DOCTYPE a [<!ENTITY e \"&e;\">]><a x=\"&e;\"/>",
    "<!DOCTYPE a [<!ENTITY e \"<\">]><a x=\"&e;\"/>",
    "<!DOCTYPE a [<!ENTITY e \"&#60;\">]><a x=\"&e;\"/>",
    "<!DOCTYPE a [<!ENTITY e SYSTEM \"s\">]><a x=\"&e;\"/>",
    "<!DOCTYPE a [<!NOTATION n SYSTEM \"n\"><!ENTITY e SYSTEM \"s\" NDATA n>]><a>&e;</a>",
    "<!DOCTYPE a [<!ENTITY e \"<b>\">]><a>&e;</a>",
    "<!DOCTYPE a [<!ENTITY e \"</a><a>\">]><a>&e;</a>",
    "<!DOCTYPE a [<!ATTLIST a x CDATA \"&e;\"><!ENTITY e \"v\">]><a/>",
    "<!DOCTYPE a [<!ATTLIST a x CDATA \"<\">]><a/>",
    "<!DOCTYPE a [<!ENTITY e \"a & b\">]><a/>",
    "<!DOCTYPE a [<!ENTITY e \"%\">]><a/>",
    "<!DOCTYPE a [<!ELEMENT a (b,)>]><a/>",
    "<!DOCTYPE a [<!ELEMENT a (b|c,d)>]><a/>",
    "<!DOCTYPE a [<!ELEMENT a (#PCDATA|b)>]><a/>",
    "<!DOCTYPE a [<!ATTLIST a x FOO #IMPLIED>]><a/>",
    "<!DOCTYPE a [<!ATTLIST a x CDATA>]><a/>",
    "<!DOCTYPE a [<!NOTATION n>]><a/>",
    "<!DOCTYPE a [<!ENTITY e>]><a/>",
    "<!DOCTYPE a [x]><a/>",
    "<!DOCTYPE a SYSTEM><a/>",
    "<!DOCTYPE a PUBLIC \"p\"><a/>",
    "<!DOCTYPE a PUBLIC \"{\" \"s\"><a/>",
    "<!DOCTYPE><a/>",
    "<?xml version=\"2.0\"?><a/>",
    "<?xml version=\"1.0\" standalone=\"maybe\"?><a/>",
    "<?xml encoding=\"UTF-8\" version=\"1.0\"?><a/>",
    "<?xml version=\"1.0\" encoding=\"8bit\"?><a/>",
    "<?xml version=\"1.0\" encoding=\"UTF-8\"standalone=\"yes\"?><a/>",
    "<?xml?><a/>",
    "<?xml version=\"1.0\"><a/>",
    "<a></a >x",
    "<a></ a>",
    "< a/>",
    "<a/ >",
    "<a><b/></a></a>",
    "<a>&amp</a>",
    "<a>&#65</a>",
    "<a>&#x;</a>",
    "<a>&#;</a>",
    "<a>&;</a>",
    "<a>& amp;</a>",
    "<a><![cdata[x]]></a>",
    "<a><!-c-></a>",
    "<![CDATA[x]]><a/>",
    "<a/><![CDATA[x]]>",
    "<a xmlns:p=\"u\"><p:b></p:c></a>",
];
