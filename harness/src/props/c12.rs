//! C12 — the DOM stays a tree: navigation views agree after any edit history.

use crate::engine::{Json, Obs, Property, Tier, Verdict};
use crate::gen::genes::Genes;
use crate::gen::hist::{self, HistCfg, Outcome, Pool};
use proptest::prelude::*;
use std::collections::BTreeSet;
use xml_dom::{AsNode, Node, NodeList, XmlNode};

pub struct C12;

fn same(a: &XmlNode, b: &XmlNode) -> bool {
    a.id() == b.id() && hist::kind_name(a) == hist::kind_name(b)
}

/// invariants of the subtree rooted at `root`; returns (key suffix, detail) of the first problem
/// for which `skip` answers false (open known findings are skipped so the walk continues)
pub fn check_tree(root: &XmlNode, budget: usize, skip: &mut dyn FnMut(&str) -> bool) -> Option<(String, String)> {
    macro_rules! fail {
        ($k:expr, $d:expr) => {{
            let k: String = $k;
            if !skip(&k) {
                return Some((k, $d));
            }
        }};
    }
    let mut seen: BTreeSet<(usize, &'static str)> = BTreeSet::new();
    let mut stack: Vec<(XmlNode, usize, bool)> = vec![(root.clone(), 0, false)];
    let mut visited = 0usize;
    while let Some((n, depth, shared)) = stack.pop() {
        visited += 1;
        if visited > budget || depth > budget {
            return Some((format!("cycle-or-blowup.{}", hist::kind_name(&n)), format!("walk exceeded {} nodes/depth below {}", budget, hist::kind_name(root))));
        }
        // DTD-defaulted attribute nodes all carry id 0: they have no identity to check
        // value nodes below a defaulted attribute are shared by every element the default applies to
        if n.id() != 0 && !shared && !seen.insert((n.id(), hist::kind_name(&n))) {
            fail!(format!("node-twice.{}", hist::kind_name(&n)), format!("{} id {} is reachable twice from {}", hist::kind_name(&n), n.id(), hist::kind_name(root)));
            continue;
        }
        let kids: Vec<XmlNode> = n.child_nodes().iter().collect();
        let pk = hist::kind_name(&n);
        if n.child_nodes().length() != kids.len() {
            fail!(format!("length-vs-iter.{}", pk), format!("child_nodes().length() {} but iteration yields {}", n.child_nodes().length(), kids.len()));
        }
        if n.has_child() != !kids.is_empty() {
            fail!(format!("has-child.{}", pk), format!("has_child() is {} but the child list has {} members", n.has_child(), kids.len()));
        }
        match (n.first_child(), kids.first()) {
            (None, None) => {}
            (Some(a), Some(b)) if same(&a, b) => {}
            (a, b) => fail!(format!("first-child.{}", pk), format!("first_child() {:?} vs list head {:?}", a.map(|x| x.id()), b.map(|x| x.id()))),
        }
        match (n.last_child(), kids.last()) {
            (None, None) => {}
            (Some(a), Some(b)) if same(&a, b) => {}
            (a, b) => fail!(format!("last-child.{}", pk), format!("last_child() {:?} vs list tail {:?}", a.map(|x| x.id()), b.map(|x| x.id()))),
        }
        let detached_root = depth == 0 && !matches!(n, XmlNode::Document(_));
        let defaulted_attr = matches!(n, XmlNode::Attribute(_)) && n.id() == 0;
        for (i, k) in kids.iter().enumerate() {
            let ck = hist::kind_name(k);
            match k.parent_node() {
                None if detached_root => fail!(
                    "child-of-detached-root-reports-no-parent".to_string(),
                    format!("{} id {} is child #{} of the detached {} id {} but parent_node() is None", ck, k.id(), i, pk, n.id())
                ),
                None => fail!(
                    format!("child-reports-no-parent.{}-in-{}", ck, pk),
                    format!("{} id {} is child #{} of {} id {} but parent_node() is None", ck, k.id(), i, pk, n.id())
                ),
                Some(p) if !same(&p, &n) && defaulted_attr => fail!(
                    "child-of-defaulted-attribute-reports-other-parent".to_string(),
                    format!("{} id {} is child #{} of a DTD-defaulted attribute but parent_node() is {} id {}", ck, k.id(), i, hist::kind_name(&p), p.id())
                ),
                Some(p) if !same(&p, &n) => fail!(
                    format!("child-reports-other-parent.{}-in-{}", ck, pk),
                    format!("{} id {} is child #{} of {} id {} but parent_node() is {} id {}", ck, k.id(), i, pk, n.id(), hist::kind_name(&p), p.id())
                ),
                _ => {}
            }
            if detached_root && k.parent_node().is_none() {
                // no parent => no siblings: same root cause as the finding above
                continue;
            }
            let sib_suffix = if detached_root {
                ".of-detached-root"
            } else if defaulted_attr {
                ".of-defaulted-attribute"
            } else {
                ""
            };
            let prev = k.previous_sibling();
            let want_prev = if i > 0 { Some(&kids[i - 1]) } else { None };
            match (&prev, want_prev) {
                (None, None) => {}
                (Some(a), Some(b)) if same(a, b) => {}
                (a, b) => fail!(
                    format!("previous-sibling.{}-in-{}{}", ck, pk, sib_suffix),
                    format!("previous_sibling() of child #{} ({} id {}) is {:?}, the list says {:?}", i, ck, k.id(), a.as_ref().map(|x| x.id()), b.map(|x| x.id()))
                ),
            }
            let next = k.next_sibling();
            let want_next = kids.get(i + 1);
            match (&next, want_next) {
                (None, None) => {}
                (Some(a), Some(b)) if same(a, b) => {}
                (a, b) => fail!(
                    format!("next-sibling.{}-in-{}{}", ck, pk, sib_suffix),
                    format!("next_sibling() of child #{} ({} id {}) is {:?}, the list says {:?}", i, ck, k.id(), a.as_ref().map(|x| x.id()), b.map(|x| x.id()))
                ),
            }
        }
        if let XmlNode::Document(_) = &n {
            let ne = kids.iter().filter(|k| matches!(k, XmlNode::Element(_))).count();
            let nd = kids.iter().filter(|k| matches!(k, XmlNode::DocumentType(_))).count();
            if ne > 1 {
                fail!("document-two-elements".to_string(), format!("document has {} element children", ne));
            }
            if nd > 1 {
                fail!("document-two-doctypes".to_string(), format!("document has {} doctype children", nd));
            }
        }
        if let Some(attrs) = n.attributes() {
            for a in attrs.iter() {
                stack.push((a.as_node(), depth + 1, shared));
            }
        }
        for k in kids.into_iter().rev() {
            stack.push((k, depth + 1, shared || defaulted_attr));
        }
    }
    None
}

pub fn structural(kind: &str) -> bool {
    matches!(kind, "append" | "insert_before" | "replace" | "remove" | "split_text" | "set_attr_node" | "set_named_item" | "set_attr")
}

impl Property for C12 {
    fn id(&self) -> &'static str {
        "C12"
    }
    fn rule(&self) -> String {
        "edit histories of up to 12 (quick) / 40 (thorough) DOM Level 1 mutator calls drawn from a proptest gene vector, over a pool of live nodes of three parsed \
         documents (the third parsed from the same text as the first) plus every node created, removed or split off so far; receivers and arguments are arbitrary pool \
         members (self, ancestors, descendants, detached, foreign), strings include markup-significant and multi-byte characters; both DOM views. Oracle: navigation \
         invariants checked after every step from every document and every parentless pool node (parent_node of each listed child, first/last_child, previous/next_sibling \
         against the child list, has_child, no node twice, bounded depth, removed node has no parent, at most one document element and doctype). Non-trivial = the history \
         moves an attached node, inserts into a detached subtree, or has a failing call followed by a successful structural call; distinct by the operation list."
            .into()
    }
    fn assumptions(&self) -> Vec<String> {
        vec![
            "node identity is (XmlNode::id, node kind); in the merged-text view a merged text node has the id of its first piece".into(),
            "panics of the mutators themselves are not judged here (C13 does); the invariants are checked after them all the same".into(),
        ]
    }
    fn cases_per_shard(&self, tier: Tier) -> u32 {
        tier.pick(1500, 40000)
    }
    fn cpu_budget_s(&self) -> u64 {
        30
    }
    fn abort_is_verdict(&self) -> bool {
        true
    }
    fn abort_key(&self, _case: &Json, what: &str) -> String {
        format!("c12.abort.{}", what)
    }
    fn strategy(&self, tier: Tier) -> BoxedStrategy<Json> {
        self.strategy_for_shard(tier, 0)
    }
    fn shards(&self, _tier: Tier) -> usize {
        18
    }
    fn strategy_for_shard(&self, tier: Tier, shard: usize) -> BoxedStrategy<Json> {
        // shards 16 and 17 navigate: handles are read in mid-history (see HistCfg::w_navigate)
        let w_navigate: u32 = if shard >= 16 { 5 } else { 0 };
        let max_ops = tier.pick(12usize, 40usize);
        proptest::collection::vec(any::<u16>(), 0..(max_ops * 8 + 8))
            .prop_map(move |genes| {
                let mut g = Genes::new(genes);
                let cfg = HistCfg { max_ops, safe_strings: false, w_struct: 8, w_attr: 2, w_chardata: 2, w_create: 5, huge_offsets: false, w_compound: 4, w_navigate, ..Default::default() };
                hist::gen_history(&mut g, &cfg)
            })
            .boxed()
    }
    fn fixed_cases(&self, _tier: Tier) -> Vec<Json> {
        crate::engine::regress_cases("C12")
    }
    fn check(&self, case: &Json, obs: &mut Obs) -> Verdict {
        let docs: Vec<String> = case["docs"].as_array().map(|a| a.iter().filter_map(|x| x.as_str().map(|s| s.to_string())).collect()).unwrap_or_default();
        let merged = case["merged"].as_bool().unwrap_or(false);
        let mut pool = match Pool::new(&docs, merged) {
            Some(p) => p,
            None => return Verdict::Discard("start-document-rejected".into()),
        };
        obs.label(if merged { "view:merged" } else { "view:raw" });
        let ops = case["ops"].as_array().cloned().unwrap_or_default();
        let mut moved = false;
        let mut detached_insert = false;
        let mut failed_before = false;
        let mut fail_then_ok = false;
        for (step, op) in ops.iter().enumerate() {
            let kind = op["op"].as_str().unwrap_or("").to_string();
            // pre-state facts for the non-triviality rule
            let (child_attached, parent_detached) = match kind.as_str() {
                "append" | "insert_before" => {
                    let c = pool.node(&op["c"]);
                    let p = pool.node(&op["p"]);
                    (c.parent_node().is_some(), p.parent_node().is_none() && !matches!(p, XmlNode::Document(_)))
                }
                "replace" => {
                    let c = pool.node(&op["n"]);
                    (c.parent_node().is_some(), false)
                }
                _ => (false, false),
            };
            let before = pool.nodes.len();
            let out = hist::apply(&mut pool, op);
            match &out {
                Outcome::Ok(_) => {
                    obs.label(format!("ok:{}", kind));
                    if structural(&kind) {
                        if child_attached {
                            moved = true;
                        }
                        if parent_detached {
                            detached_insert = true;
                        }
                        if failed_before {
                            fail_then_ok = true;
                        }
                    }
                    if kind == "remove" && pool.nodes.len() > before {
                        let r = pool.nodes.last().unwrap();
                        if let Some(p) = r.parent_node() {
                            return Verdict::fail(
                                format!("c12.removed-node-has-parent.{}", hist::kind_name(r)),
                                format!("step {} {}: the node returned by remove_child still reports parent {} id {}", step, op, hist::kind_name(&p), p.id()),
                            );
                        }
                    }
                }
                Outcome::Err(_) => {
                    obs.label(format!("err:{}", kind));
                    failed_before = true;
                }
                Outcome::Panic(_, _) => {
                    obs.label(format!("panic:{}", kind));
                    failed_before = true;
                }
                Outcome::NotApplicable => {}
                Outcome::Excluded(r) => obs.label(format!("excluded:{}", r)),
            }
            // invariants from every document and every parentless pool node
            let mut roots: Vec<XmlNode> = pool.docs.iter().map(|d| d.as_node()).collect();
            for n in &pool.nodes {
                if matches!(n, XmlNode::Document(_) | XmlNode::DocumentType(_)) {
                    continue;
                }
                if n.parent_node().is_none() {
                    roots.push(n.clone());
                }
            }
            for r in &roots {
                let mut hits: Vec<String> = vec![];
                let mut skip = |k: &str| -> bool {
                    let full = format!("c12.{}", k);
                    if crate::engine::skip_known("C12", &full) {
                        if !hits.contains(&full) {
                            hits.push(full);
                        }
                        true
                    } else {
                        false
                    }
                };
                let r = check_tree(r, 5000, &mut skip);
                for h in hits {
                    if !obs.known_hits.contains(&h) {
                        obs.known_hits.push(h);
                    }
                }
                if let Some((k, d)) = r {
                    return Verdict::fail(format!("c12.{}", k), format!("after step {} ({}): {} [outcome {:?}]", step, op, d, out));
                }
            }
            // bottom-up: a cycle or a node cut out of its parent's list is not reachable from any root, so every
            // pool node is also followed upwards
            let bound = pool.nodes.len() + 64;
            for n in &pool.nodes {
                if matches!(n, XmlNode::Document(_) | XmlNode::DocumentType(_) | XmlNode::Attribute(_)) {
                    continue;
                }
                let mut cur = n.clone();
                let mut steps = 0usize;
                while let Some(p) = cur.parent_node() {
                    steps += 1;
                    if steps > bound {
                        return Verdict::fail(
                            format!("c12.cycle.parent-chain.{}", hist::kind_name(n)),
                            format!("after step {} ({}): following parent_node() from {} id {} does not end after {} steps [outcome {:?}]", step, op, hist::kind_name(n), n.id(), bound, out),
                        );
                    }
                    cur = p;
                }
                if matches!(n, XmlNode::ExpandedText(_)) {
                    // a merged-text handle is a snapshot of adjacent pieces; after an edit next to it the parent
                    // presents a different merged node, so listing cannot be decided for the stale handle
                    continue;
                }
                if let Some(p) = n.parent_node() {
                    // value pieces of a DTD-defaulted attribute are shared between elements (open finding)
                    if matches!(p, XmlNode::Attribute(_)) && p.id() == 0 {
                        continue;
                    }
                    let listed = p.child_nodes().iter().any(|c| c.id() == n.id() && std::mem::discriminant(&c) == std::mem::discriminant(n))
                        || p.child_nodes().iter().any(|c| match &c {
                            // merged-text view: a piece is listed through its merged node
                            XmlNode::ExpandedText(_) => matches!(n, XmlNode::Text(_) | XmlNode::CData(_) | XmlNode::EntityReference(_)),
                            _ => false,
                        });
                    if !listed {
                        let k = format!("c12.parent-does-not-list-child.{}", hist::kind_name(n));
                        if crate::engine::skip_known("C12", &k) {
                            if !obs.known_hits.contains(&k) {
                                obs.known_hits.push(k);
                            }
                            continue;
                        }
                        return Verdict::fail(
                            k,
                            format!("after step {} ({}): {} id {} reports parent {} id {}, whose child list does not contain it [outcome {:?}]", step, op, hist::kind_name(n), n.id(), hist::kind_name(&p), p.id(), out),
                        );
                    }
                }
            }
        }
        obs.nontrivial = Some(moved || detached_insert || fail_then_ok);
        if moved {
            obs.label("moved-attached-node");
        }
        if detached_insert {
            obs.label("insert-into-detached");
        }
        if fail_then_ok {
            obs.label("fail-then-success");
        }
        Verdict::Pass
    }
    fn floors(&self, _tier: Tier) -> Vec<(&'static str, f64)> {
        vec![("moved-attached-node", 0.05), ("insert-into-detached", 0.004), ("fail-then-success", 0.05)]
    }
}
