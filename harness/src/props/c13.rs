//! C13 — DOM mutators: DOM Level 1 effect, specified exceptions, atomic failure.
//!
//! Single-step differential: before every call a snapshot S of everything reachable from the pool is
//! taken through public navigation; the DOM Level 1 specification of the call is applied to S, giving
//! the set of admissible outcomes (success with state E, or one of a set of exception classes with
//! state S); after the call the snapshot S' and the outcome are compared with that.

use crate::engine::{skip_known, Json, Obs, Property, Tier, Verdict};
use crate::gen::genes::Genes;
use crate::gen::hist::{self, offset_of, HistCfg, Outcome, Pool};
use crate::oracle::chars;
use proptest::prelude::*;
use std::collections::BTreeMap;
use xml_dom::{AsNode, Attr, NamedNodeMap, Node, NodeList, ProcessingInstruction, XmlNode};

pub struct C13;

/// node identity: (document of origin, id, is attribute)
pub type Key = (usize, usize, bool);

#[derive(Clone, Debug, PartialEq)]
pub struct Shape {
    pub kind: &'static str,
    pub name: String,
    pub data: Option<String>,
    pub children: Vec<Key>,
    pub attrs: Vec<(String, Key)>,
    pub parent: Option<Key>,
}

pub type Snap = BTreeMap<Key, Shape>;

fn key_of(n: &XmlNode, origin: usize) -> Key {
    (origin, n.id(), matches!(n, XmlNode::Attribute(_)))
}

fn data_of(n: &XmlNode) -> Option<String> {
    match n {
        XmlNode::Text(_) | XmlNode::Comment(_) | XmlNode::CData(_) | XmlNode::ExpandedText(_) => hist::with_chardata(n, |c| c.data().ok()).flatten(),
        XmlNode::PI(p) => Some(p.data()),
        XmlNode::Attribute(a) => a.value().ok(),
        XmlNode::EntityReference(_) => None,
        _ => None,
    }
}

fn snap_node(n: &XmlNode, origin: usize, out: &mut Snap, depth: usize) {
    let k = key_of(n, origin);
    if out.contains_key(&k) || depth > 500 {
        return;
    }
    let kids: Vec<XmlNode> = n.child_nodes().iter().collect();
    let mut attrs: Vec<(String, XmlNode)> = match n.attributes() {
        Some(m) => m.iter().map(|a| (a.name(), a.as_node())).filter(|(_, a)| a.id() != 0).collect(),
        None => vec![],
    };
    attrs.sort_by(|a, b| a.0.cmp(&b.0).then(a.1.id().cmp(&b.1.id())));
    let shape = Shape {
        kind: hist::kind_name(n),
        name: n.node_name(),
        data: data_of(n),
        children: kids.iter().map(|c| key_of(c, origin)).collect(),
        attrs: attrs.iter().map(|(nm, a)| (nm.clone(), key_of(a, origin))).collect(),
        parent: n.parent_node().map(|p| key_of(&p, origin)),
    };
    out.insert(k, shape);
    for c in &kids {
        snap_node(c, origin, out, depth + 1);
    }
    for (_, a) in &attrs {
        snap_node(a, origin, out, depth + 1);
    }
}

pub fn snapshot(pool: &Pool) -> Snap {
    let mut s = Snap::new();
    for (i, d) in pool.docs.iter().enumerate() {
        snap_node(&d.as_node(), i, &mut s, 0);
    }
    for (i, n) in pool.nodes.iter().enumerate() {
        if matches!(n, XmlNode::Attribute(_)) && n.id() == 0 {
            continue;
        }
        snap_node(n, pool.origin[i], &mut s, 0);
    }
    s
}

fn first_diff(a: &Snap, b: &Snap) -> Option<String> {
    for (k, sa) in a {
        match b.get(k) {
            None => return Some(format!("node {:?} ({}) disappeared", k, sa.kind)),
            Some(sb) if sa != sb => {
                let what = if sa.children != sb.children {
                    format!("children {:?} -> {:?}", sa.children, sb.children)
                } else if sa.attrs != sb.attrs {
                    format!("attributes {:?} -> {:?}", sa.attrs, sb.attrs)
                } else if sa.data != sb.data {
                    format!("data {:?} -> {:?}", sa.data, sb.data)
                } else if sa.parent != sb.parent {
                    format!("parent {:?} -> {:?}", sa.parent, sb.parent)
                } else {
                    format!("{:?} -> {:?}", sa, sb)
                };
                return Some(format!("node {:?} ({} {:?}): {}", k, sa.kind, sa.name, what));
            }
            _ => {}
        }
    }
    for (k, sb) in b {
        if !a.contains_key(k) {
            return Some(format!("node {:?} ({}) appeared", k, sb.kind));
        }
    }
    None
}

fn diff_kind(d: &str) -> &'static str {
    if d.contains("children") {
        "children"
    } else if d.contains("attributes") {
        "attributes"
    } else if d.contains("data") {
        "data"
    } else if d.contains("parent") {
        "parent"
    } else if d.contains("appeared") {
        "appeared"
    } else if d.contains("disappeared") {
        "disappeared"
    } else {
        "other"
    }
}

fn err_class(e: &str) -> String {
    // "Dom(HierarchyRequestErr)" -> HierarchyRequestErr ; others by their outer variant
    if let Some(r) = e.strip_prefix("Dom(") {
        r.trim_end_matches(')').to_string()
    } else {
        e.chars().take_while(|c| c.is_ascii_alphanumeric()).collect()
    }
}

fn may_contain(parent: &str, child: &str) -> bool {
    match parent {
        "document" => matches!(child, "element" | "pi" | "comment" | "doctype"),
        "element" => matches!(child, "element" | "text" | "comment" | "pi" | "cdata" | "entityref"),
        "attribute" => matches!(child, "text" | "entityref"),
        "fragment" => matches!(child, "element" | "text" | "comment" | "pi" | "cdata" | "entityref"),
        _ => false,
    }
}

fn is_ancestor_or_self(s: &Snap, anc: &Key, node: &Key) -> bool {
    let mut cur = Some(*node);
    let mut guard = 0;
    while let Some(k) = cur {
        if k == *anc {
            return true;
        }
        guard += 1;
        if guard > 2000 {
            return true;
        }
        cur = s.get(&k).and_then(|x| x.parent);
    }
    false
}

/// what DOM Level 1 prescribes for this call in state `s`
pub enum Spec {
    /// nothing to judge (operation not offered for these node kinds, or unspecified corner)
    Unspecified(&'static str),
    /// must fail with one of these classes (empty = any error), state unchanged
    Fail(Vec<&'static str>),
    /// must succeed with this state (new nodes are not in `expected`; they are checked separately)
    Ok { expected: Snap, also_fail: Vec<&'static str> },
    /// may succeed with this state or fail with one of the classes (data the library may refuse although DOM would store it)
    OkOrRefuse { expected: Snap, refuse: Vec<&'static str> },
}

fn detach(s: &mut Snap, c: &Key) {
    if let Some(p) = s.get(c).and_then(|x| x.parent) {
        if let Some(ps) = s.get_mut(&p) {
            ps.children.retain(|k| k != c);
        }
    }
    if let Some(cs) = s.get_mut(c) {
        cs.parent = None;
    }
}

fn is_valid_chardata(kind: &str, data: &str) -> bool {
    if !data.chars().all(chars::is_char) {
        return false;
    }
    match kind {
        "comment" => !data.contains("--") && !data.ends_with('-'),
        "cdata" => !data.contains("]]>"),
        "text" => !data.contains('<') && !data.contains('&') && !data.contains("]]>"),
        "pi" => !data.contains("?>"),
        _ => true,
    }
}

/// does the element show an attribute of that name that exists only through an ATTLIST default (id 0)?
/// DOM Level 1 lets such an attribute reappear after removal and be shadowed by set_attribute; the snapshot
/// does not contain those nodes (they have no identity), so name-based calls that meet one are not judged.
fn has_defaulted_attribute(e: &XmlNode, name: &str) -> bool {
    use xml_dom::{Attr, NamedNodeMap};
    e.attributes().map(|m| m.iter().any(|a| a.as_node().id() == 0 && a.name() == name)).unwrap_or(false)
}

pub fn spec(pool: &Pool, s: &Snap, op: &Json) -> Spec {
    let kind = op["op"].as_str().unwrap_or("");
    let node_at = |k: &str| -> (XmlNode, Key) {
        let i = pool.idx(&op[k]);
        let n = pool.nodes[i].clone();
        let key = key_of(&n, pool.origin[i]);
        (n, key)
    };
    let st = |k: &str| op[k].as_str().unwrap_or("").to_string();
    for k in ["p", "c", "r", "n", "o", "e", "a"] {
        if op.get(k).map(|v| v.is_number() || v.is_array()).unwrap_or(false) {
            let (_, key) = node_at(k);
            if !s.contains_key(&key) {
                return Spec::Unspecified("operand-outside-the-snapshot");
            }
        }
    }
    match kind {
        "append" | "insert_before" | "replace" | "remove" => {
            let (p, pk) = node_at("p");
            let pkind = hist::kind_name(&p);
            let (c, ck) = node_at(if kind == "replace" { "n" } else { "c" });
            let ckind = hist::kind_name(&c);
            if matches!(pkind, "doctype" | "entity" | "notation" | "namespace" | "fragment" | "expandedtext" | "entityref") {
                return Spec::Unspecified("receiver-kind-without-mutators");
            }
            if matches!(ckind, "expandedtext" | "namespace" | "entity" | "notation") {
                return Spec::Unspecified("argument-kind-outside-dom-level-1");
            }
            let refk: Option<(XmlNode, Key)> = match kind {
                "insert_before" => Some(node_at("r")),
                "replace" => Some(node_at("o")),
                _ => None,
            };
            if let Some((r, _)) = &refk {
                if matches!(hist::kind_name(r), "expandedtext" | "namespace") {
                    return Spec::Unspecified("argument-kind-outside-dom-level-1");
                }
            }
            if kind == "remove" {
                let is_child = s.get(&pk).map(|x| x.children.contains(&ck)).unwrap_or(false);
                if !is_child {
                    // NOT_FOUND_ERR; a receiver that cannot have children at all may also say hierarchy / wrong document
                    return Spec::Fail(vec!["NotFoundErr", "HierarchyRequestErr", "WrongDocumentErr"]);
                }
                if ckind == "doctype" {
                    return Spec::Unspecified("removing-the-doctype");
                }
                let mut e = s.clone();
                detach(&mut e, &ck);
                return Spec::Ok { expected: e, also_fail: vec![] };
            }
            // insertion-like
            let mut fails: Vec<&'static str> = vec![];
            if pk.0 != ck.0 {
                fails.push("WrongDocumentErr");
            }
            if !may_contain(pkind, ckind) || is_ancestor_or_self(s, &ck, &pk) {
                fails.push("HierarchyRequestErr");
                if ckind == "document" {
                    // a Document has no owner document: WRONG_DOCUMENT_ERR is a defensible answer as well
                    fails.push("WrongDocumentErr");
                }
            }
            if pkind == "document" && ckind == "element" {
                let has_root = s.get(&pk).map(|x| x.children.iter().any(|k| s.get(k).map(|y| y.kind == "element").unwrap_or(false) && *k != ck)).unwrap_or(false);
                if has_root {
                    fails.push("HierarchyRequestErr");
                }
            }
            if pkind == "document" && ckind == "doctype" {
                return Spec::Unspecified("inserting-a-doctype");
            }
            if pkind == "document" && ckind == "element" {
                // DOM Level 1 does not say whether the document element may be put in front of the document type; XML
                // does not allow that order, and the library refuses it (C15 requires what succeeds to be serialisable)
                if let (Some((_, rk)), Some(doc)) = (&refk, s.get(&pk)) {
                    let at = doc.children.iter().position(|k| k == rk);
                    let dt = doc.children.iter().position(|k| s.get(k).map(|x| x.kind == "doctype").unwrap_or(false));
                    if let (Some(at), Some(dt)) = (at, dt) {
                        if at <= dt {
                            return Spec::Unspecified("document-element-before-the-doctype");
                        }
                    }
                }
            }
            if kind == "replace" {
                if let Some((XmlNode::DocumentType(_), _)) = &refk {
                    // with the document type its entity declarations go: values that refer to them change
                    return Spec::Unspecified("replacing-the-doctype");
                }
            }
            if let Some((r, rk)) = &refk {
                if pk.0 != rk.0 || matches!(r, XmlNode::Document(_)) {
                    fails.push("WrongDocumentErr");
                }
                let is_child = s.get(&pk).map(|x| x.children.contains(rk)).unwrap_or(false);
                if !is_child {
                    fails.push("NotFoundErr");
                }
                if *rk == ck {
                    if fails.is_empty() {
                        return Spec::Unspecified("new-child-is-the-reference-child");
                    }
                }
            }
            if !fails.is_empty() {
                fails.sort();
                fails.dedup();
                return Spec::Fail(fails);
            }
            let mut e = s.clone();
            detach(&mut e, &ck);
            match kind {
                "append" => {
                    e.get_mut(&pk).unwrap().children.push(ck);
                }
                "insert_before" => {
                    let rk = refk.as_ref().unwrap().1;
                    let ch = &mut e.get_mut(&pk).unwrap().children;
                    let i = ch.iter().position(|k| *k == rk).unwrap_or(ch.len());
                    ch.insert(i, ck);
                }
                _ => {
                    let ok = refk.as_ref().unwrap().1;
                    {
                        let ch = &mut e.get_mut(&pk).unwrap().children;
                        let i = ch.iter().position(|k| *k == ok).unwrap_or(ch.len());
                        ch.insert(i, ck);
                        ch.retain(|k| *k != ok);
                    }
                    e.get_mut(&ok).unwrap().parent = None;
                }
            }
            e.get_mut(&ck).unwrap().parent = Some(pk);
            if pkind == "attribute" && ckind == "entityref" {
                // an attribute must refuse a reference whose entity has markup or is external (XML: no '<' in
                // attribute values); DOM Level 1 does not know the rule, so both outcomes are admissible here
                return Spec::OkOrRefuse { expected: e, refuse: vec!["HierarchyRequestErr"] };
            }
            Spec::Ok { expected: e, also_fail: vec![] }
        }
        "set_attr" => {
            let (e_, ek) = node_at("e");
            if !matches!(e_, XmlNode::Element(_)) {
                return Spec::Unspecified("not-an-element");
            }
            let name = st("name");
            if has_defaulted_attribute(&e_, &name) {
                return Spec::Unspecified("defaulted-attribute-of-that-name");
            }
            let value = st("value");
            if !chars::is_name(&name) {
                return Spec::Fail(vec!["InvalidCharacterErr"]);
            }
            if name.contains(':') || name == "xmlns" {
                return Spec::Unspecified("qualified-or-namespace-attribute-name");
            }
            // DOM Level 1 stores the value as literal text. The library keeps attribute values as parsed
            // pieces, so values with markup-significant characters may be refused (admissible, C15's subject).
            let plain = !value.contains('<') && !value.contains('&') && value.chars().all(chars::is_char);
            let mut ex = s.clone();
            // an existing attribute keeps its identity and gets the value; otherwise a new attribute appears
            let existing = ex.get(&ek).and_then(|x| x.attrs.iter().find(|(n, _)| *n == name).map(|(_, k)| *k));
            match existing {
                Some(ak) => {
                    // the library replaces the attribute node: identity of attribute and children is not prescribed
                    ex.get_mut(&ek).unwrap().attrs.retain(|(n, _)| *n != name);
                    remove_subtree(&mut ex, &ak);
                    let _ = ak;
                }
                None => {}
            }
            if plain {
                Spec::Ok { expected: ex, also_fail: vec![] }
            } else {
                Spec::OkOrRefuse { expected: ex, refuse: vec![] }
            }
        }
        "remove_attr" => {
            let (e_, ek) = node_at("e");
            if !matches!(e_, XmlNode::Element(_)) {
                return Spec::Unspecified("not-an-element");
            }
            let name = st("name");
            if has_defaulted_attribute(&e_, &name) {
                return Spec::Unspecified("defaulted-attribute-of-that-name");
            }
            if name.contains(':') {
                return Spec::Unspecified("qualified-attribute-name");
            }
            let mut ex = s.clone();
            let existing: Vec<Key> = ex.get(&ek).map(|x| x.attrs.iter().filter(|(n, _)| *n == name).map(|(_, k)| *k).collect()).unwrap_or_default();
            if existing.len() > 1 {
                return Spec::Unspecified("two-attributes-with-one-local-name");
            }
            for ak in existing {
                ex.get_mut(&ek).unwrap().attrs.retain(|(_, k)| *k != ak);
                if let Some(a) = ex.get_mut(&ak) {
                    a.parent = None;
                }
            }
            Spec::Ok { expected: ex, also_fail: vec![] }
        }
        "set_attr_node" | "set_named_item" => {
            let (e_, ek) = node_at("e");
            let (a_, ak) = node_at("a");
            if !matches!(e_, XmlNode::Element(_)) || !matches!(a_, XmlNode::Attribute(_)) {
                return Spec::Unspecified("not-element-and-attribute");
            }
            let mut fails = vec![];
            if ek.0 != ak.0 {
                fails.push("WrongDocumentErr");
            }
            // in use by another element?
            let owner: Option<Key> = s.iter().find(|(k, sh)| sh.kind == "element" && sh.attrs.iter().any(|(_, x)| *x == ak) && **k != ek).map(|(k, _)| *k);
            if owner.is_some() {
                fails.push("InuseAttributeErr");
            }
            if !fails.is_empty() {
                return Spec::Fail(fails);
            }
            let aname = s.get(&ak).map(|x| x.name.clone()).unwrap_or_default();
            if aname.contains(':') {
                return Spec::Unspecified("qualified-attribute-name");
            }
            let already = s.get(&ek).map(|x| x.attrs.iter().any(|(_, k)| *k == ak)).unwrap_or(false);
            if already {
                return Spec::Unspecified("attribute-already-on-this-element");
            }
            let mut ex = s.clone();
            let old: Vec<Key> = ex.get(&ek).map(|x| x.attrs.iter().filter(|(n, _)| *n == aname).map(|(_, k)| *k).collect()).unwrap_or_default();
            for o in &old {
                ex.get_mut(&ek).unwrap().attrs.retain(|(_, k)| k != o);
            }
            let at = &mut ex.get_mut(&ek).unwrap().attrs;
            at.push((aname.clone(), ak));
            at.sort_by(|a, b| a.0.cmp(&b.0).then(a.1 .1.cmp(&b.1 .1)));
            Spec::Ok { expected: ex, also_fail: vec![] }
        }
        "remove_attr_node" => {
            let (e_, ek) = node_at("e");
            let (a_, ak) = node_at("a");
            if !matches!(e_, XmlNode::Element(_)) || !matches!(a_, XmlNode::Attribute(_)) {
                return Spec::Unspecified("not-element-and-attribute");
            }
            let has = s.get(&ek).map(|x| x.attrs.iter().any(|(_, k)| *k == ak)).unwrap_or(false);
            if !has {
                // by identity it is not there; a same-named attribute of the element makes the library's
                // by-name implementation succeed: unspecified corner kept out
                let aname = s.get(&ak).map(|x| x.name.clone()).unwrap_or_default();
                let same_name = s.get(&ek).map(|x| x.attrs.iter().any(|(n, _)| *n == aname)).unwrap_or(false);
                if same_name {
                    return Spec::Fail(vec!["NotFoundErr"]);
                }
                return Spec::Fail(vec!["NotFoundErr"]);
            }
            let mut ex = s.clone();
            ex.get_mut(&ek).unwrap().attrs.retain(|(_, k)| *k != ak);
            Spec::Ok { expected: ex, also_fail: vec![] }
        }
        "remove_named_item" => {
            let (e_, ek) = node_at("e");
            if !matches!(e_, XmlNode::Element(_)) {
                return Spec::Unspecified("not-an-element");
            }
            let name = st("name");
            if has_defaulted_attribute(&e_, &name) {
                return Spec::Unspecified("defaulted-attribute-of-that-name");
            }
            if name.contains(':') {
                return Spec::Unspecified("qualified-attribute-name");
            }
            let existing: Vec<Key> = s.get(&ek).map(|x| x.attrs.iter().filter(|(n, _)| *n == name).map(|(_, k)| *k).collect()).unwrap_or_default();
            if existing.is_empty() {
                return Spec::Fail(vec!["NotFoundErr"]);
            }
            if existing.len() > 1 {
                return Spec::Unspecified("two-attributes-with-one-local-name");
            }
            let mut ex = s.clone();
            ex.get_mut(&ek).unwrap().attrs.retain(|(_, k)| *k != existing[0]);
            Spec::Ok { expected: ex, also_fail: vec![] }
        }
        "set_data" | "append_data" | "insert_data" | "delete_data" | "replace_data" | "set_value" | "pi_set_data" => {
            let (n, nk) = node_at("n");
            let nkind = hist::kind_name(&n);
            let arg = st("s");
            if kind == "pi_set_data" && nkind != "pi" {
                return Spec::Unspecified("not-a-pi");
            }
            if nkind == "pi" && arg.starts_with(|c: char| chars::is_space(c)) {
                return Spec::Unspecified("pi-data-with-leading-white-space");
            }
            if kind == "set_value" {
                match nkind {
                    "text" | "comment" | "cdata" | "pi" | "attribute" => {}
                    "element" | "document" => {
                        // DOM Level 1: setting nodeValue has no effect where it is null; an error is tolerated as well
                        return Spec::OkOrRefuse { expected: s.clone(), refuse: vec!["NoDataAllowedErr", "NoModificationAllowedErr"] };
                    }
                    _ => return Spec::Unspecified("node-kind-without-value"),
                }
            } else if kind != "pi_set_data" && !matches!(nkind, "text" | "comment" | "cdata") {
                return Spec::Unspecified("not-character-data");
            }
            if nkind == "attribute" {
                // value replaced; the identity of the value's text children is not prescribed
                let plain = !arg.contains('<') && !arg.contains('&') && arg.chars().all(chars::is_char);
                let mut ex = s.clone();
                let kids: Vec<Key> = ex.get(&nk).map(|x| x.children.clone()).unwrap_or_default();
                for k in kids {
                    remove_subtree(&mut ex, &k);
                }
                if let Some(a) = ex.get_mut(&nk) {
                    a.children.clear();
                    a.data = Some(arg.clone());
                }
                return if plain { Spec::Ok { expected: ex, also_fail: vec![] } } else { Spec::OkOrRefuse { expected: ex, refuse: vec![] } };
            }
            let cur: Vec<char> = s.get(&nk).and_then(|x| x.data.clone()).unwrap_or_default().chars().collect();
            let len = cur.len();
            let off = offset_of(&op["off"]);
            let cnt = offset_of(&op["cnt"]);
            let end = off.saturating_add(cnt).min(len);
            let new: Option<Vec<char>> = match kind {
                "set_data" | "set_value" | "pi_set_data" => Some(arg.chars().collect()),
                "append_data" => {
                    let mut m = cur.clone();
                    m.extend(arg.chars());
                    Some(m)
                }
                "insert_data" => {
                    if off > len {
                        None
                    } else {
                        let mut m = cur.clone();
                        let t = m.split_off(off);
                        m.extend(arg.chars());
                        m.extend(t);
                        Some(m)
                    }
                }
                "delete_data" => {
                    if off > len {
                        None
                    } else {
                        let mut m = cur.clone();
                        m.drain(off..end);
                        Some(m)
                    }
                }
                _ => {
                    if off > len {
                        None
                    } else {
                        let mut m = cur.clone();
                        m.drain(off..end);
                        let t = m.split_off(off);
                        m.extend(arg.chars());
                        m.extend(t);
                        Some(m)
                    }
                }
            };
            match new {
                None => Spec::Fail(vec!["IndexSizeErr"]),
                Some(m) => {
                    let data: String = m.iter().collect();
                    let mut ex = s.clone();
                    ex.get_mut(&nk).unwrap().data = Some(data.clone());
                    // the parent attribute's value, if the node is a piece of an attribute value
                    if let Some(pk) = s.get(&nk).and_then(|x| x.parent) {
                        if s.get(&pk).map(|x| x.kind == "attribute").unwrap_or(false) {
                            return Spec::Unspecified("edit-of-an-attribute-value-piece");
                        }
                    }
                    if is_valid_chardata(nkind, &data) {
                        Spec::Ok { expected: ex, also_fail: vec![] }
                    } else {
                        // DOM Level 1 would store it; the library may refuse what it cannot serialise (C15), atomically
                        Spec::OkOrRefuse { expected: ex, refuse: vec![] }
                    }
                }
            }
        }
        "split_text" => {
            let (n, nk) = node_at("n");
            if !matches!(n, XmlNode::Text(_) | XmlNode::CData(_)) {
                return Spec::Unspecified("not-a-text-node");
            }
            let cur: Vec<char> = s.get(&nk).and_then(|x| x.data.clone()).unwrap_or_default().chars().collect();
            let off = offset_of(&op["off"]);
            if off > cur.len() {
                return Spec::Fail(vec!["IndexSizeErr"]);
            }
            if s.get(&nk).and_then(|x| x.parent).is_none() {
                return Spec::Unspecified("split-of-a-parentless-node");
            }
            if let Some(pk) = s.get(&nk).and_then(|x| x.parent) {
                if s.get(&pk).map(|x| x.kind == "attribute").unwrap_or(false) {
                    return Spec::Unspecified("edit-of-an-attribute-value-piece");
                }
            }
            // the new node is checked separately (NEW marker): expected state without it
            let mut ex = s.clone();
            ex.get_mut(&nk).unwrap().data = Some(cur[..off].iter().collect());
            Spec::Ok { expected: ex, also_fail: vec![] }
        }
        "create_element" | "create_attr" | "create_pi" => {
            let name = st("name");
            let valid = if kind == "create_pi" { chars::is_name(&name) && !name.eq_ignore_ascii_case("xml") } else { chars::is_name(&name) };
            if !valid {
                return Spec::Fail(vec!["InvalidCharacterErr"]);
            }
            if name.contains(':') {
                return Spec::Unspecified("qualified-name-in-factory");
            }
            if kind == "create_pi" && !is_valid_chardata("pi", &st("s")) {
                return Spec::OkOrRefuse { expected: s.clone(), refuse: vec![] };
            }
            if kind == "create_pi" && st("s").starts_with(|c: char| chars::is_space(c)) {
                return Spec::Unspecified("pi-data-with-leading-white-space");
            }
            Spec::Ok { expected: s.clone(), also_fail: vec![] }
        }
        "create_text" | "create_comment" | "create_cdata" => {
            let k = match kind {
                "create_text" => "text",
                "create_comment" => "comment",
                _ => "cdata",
            };
            if is_valid_chardata(k, &st("s")) {
                Spec::Ok { expected: s.clone(), also_fail: vec![] }
            } else {
                Spec::OkOrRefuse { expected: s.clone(), refuse: vec![] }
            }
        }
        "create_entity_ref" => Spec::Unspecified("entity-reference-factory"),
        _ => Spec::Unspecified("read-only-operation"),
    }
}

fn remove_subtree(s: &mut Snap, k: &Key) {
    if let Some(sh) = s.remove(k) {
        for c in sh.children {
            remove_subtree(s, &c);
        }
        for (_, a) in sh.attrs {
            remove_subtree(s, &a);
        }
    }
}

/// compare ignoring nodes that exist only in `got` (new nodes) — returns the new keys
fn compare_expected(expected: &Snap, got: &Snap) -> (Option<String>, Vec<Key>) {
    let new_keys: Vec<Key> = got.keys().filter(|k| !expected.contains_key(k)).cloned().collect();
    // detached nodes nobody holds any more cannot be observed: not a difference
    let mut expected = expected.clone();
    let gone: Vec<Key> = expected.iter().filter(|(k, sh)| sh.parent.is_none() && !got.contains_key(*k)).map(|(k, _)| *k).collect();
    for k in gone {
        remove_subtree(&mut expected, &k);
    }
    let expected = &expected;
    let mut g2 = got.clone();
    for k in &new_keys {
        g2.remove(k);
    }
    // references to new nodes inside existing shapes are judged by the caller
    (first_diff(expected, &g2), new_keys)
}

impl Property for C13 {
    fn id(&self) -> &'static str {
        "C13"
    }
    fn rule(&self) -> String {
        "edit histories (proptest gene vector) over a pool of live nodes of three documents (attached, detached, created, removed, foreign; the third document has the same text as \
         the first) with name/value strings from a pool that contains markup-significant and multi-byte characters; EVERY call of the history is judged on its own: a snapshot \
         of all reachable nodes (kind, name, data, child list, attribute set, parent) is taken before and after, the DOM Level 1 specification of the call is applied to the \
         pre-state (own implementation: hierarchy rules, WRONG_DOCUMENT / NOT_FOUND / INUSE_ATTRIBUTE / INDEX_SIZE / INVALID_CHARACTER conditions, 'a node already in the tree \
         is first removed', character-data arithmetic) and the outcome must be admissible: success with exactly the specified post-state, or one of the specified exception \
         classes with the pre-state unchanged; a panic is never admissible. A quarter of the histories run in the merged-text view, where panics, exception classes and atomic failure are judged but effects are not compared (adjacent pieces are presented as one node there). Non-trivial = a call whose receiver and argument are related (ancestor/descendant/sibling/foreign) or \
         that is specified to fail; distinct by operation list."
            .into()
    }
    fn assumptions(&self) -> Vec<String> {
        vec![
            "where DOM Level 1 leaves the outcome open the case is not judged (counted as unspecified:*): new child = reference child, qualified names in Level-1 calls, doctype moves, parentless split_text, edits of attribute value pieces".into(),
            "when several exceptions apply any of them is admissible".into(),
            "data the library refuses although DOM Level 1 would store it (markup-significant strings) may fail with any error, but must fail atomically".into(),
            "set_attribute on an existing name may replace the Attr node: the identity of attribute nodes and of their value pieces is not compared".into(),
        ]
    }
    fn cases_per_shard(&self, tier: Tier) -> u32 {
        tier.pick(2000, 30000)
    }
    fn cpu_budget_s(&self) -> u64 {
        40
    }
    fn abort_is_verdict(&self) -> bool {
        true
    }
    fn abort_key(&self, _case: &Json, what: &str) -> String {
        format!("c13.abort.{}", what)
    }
    fn strategy(&self, tier: Tier) -> BoxedStrategy<Json> {
        self.strategy_for_shard(tier, 0)
    }
    fn shards(&self, _tier: Tier) -> usize {
        18
    }
    fn strategy_for_shard(&self, tier: Tier, shard: usize) -> BoxedStrategy<Json> {
        // shards 16 and 17 navigate: handles are read in mid-history (see HistCfg::w_navigate)
        let w_navigate: u32 = if shard >= 16 { 5 } else { 0 };
        let max_ops = tier.pick(10usize, 30usize);
        proptest::collection::vec(any::<u16>(), 0..(max_ops * 8 + 8))
            .prop_map(move |genes| {
                let mut g = Genes::new(genes);
                let cfg = HistCfg { max_ops, safe_strings: false, w_struct: 8, w_attr: 5, w_chardata: 4, w_create: 5, huge_offsets: true, max_doc: 5, w_compound: 4, seams: true, w_navigate, ..Default::default() };
                hist::gen_history(&mut g, &cfg)
            })
            .boxed()
    }
    fn fixed_cases(&self, _tier: Tier) -> Vec<Json> {
        crate::engine::regress_cases("C13")
    }
    fn check(&self, case: &Json, obs: &mut Obs) -> Verdict {
        let docs: Vec<String> = case["docs"].as_array().map(|a| a.iter().filter_map(|x| x.as_str().map(|s| s.to_string())).collect()).unwrap_or_default();
        let merged = case["merged"].as_bool().unwrap_or(false);
        obs.label(if merged { "view:merged" } else { "view:raw" });
        let mut pool = match Pool::new(&docs, merged) {
            Some(p) => p,
            None => return Verdict::Discard("start-document-rejected".into()),
        };
        let ops = case["ops"].as_array().cloned().unwrap_or_default();
        let mut nontrivial = false;
        macro_rules! fail {
            ($key:expr, $detail:expr) => {{
                let k: String = $key;
                if skip_known("C13", &k) {
                    if !obs.known_hits.contains(&k) {
                        obs.known_hits.push(k);
                    }
                    // the state may now differ from what DOM prescribes: later steps are still judged one by one
                    continue;
                } else {
                    return Verdict::fail(k, $detail);
                }
            }};
        }
        for (step, op) in ops.iter().enumerate() {
            let kind = op["op"].as_str().unwrap_or("").to_string();
            if matches!(kind.as_str(), "substring" | "length") {
                continue;
            }
            if kind == "children" {
                // navigation only: the caller keeps the handles it finds; nothing to judge
                hist::apply(&mut pool, op);
                obs.label("op:children");
                continue;
            }
            let before = snapshot(&pool);
            let sp = spec(&pool, &before, op);
            // In the merged-text view a piece and the merged node that presents it share one id, so the data a
            // character-data call will see cannot be read off the snapshot: such calls are judged for panics and
            // atomic failure only there (C16 judges their arithmetic).
            let chardata_op = matches!(
                op["op"].as_str().unwrap_or(""),
                "set_data" | "append_data" | "insert_data" | "delete_data" | "replace_data" | "split_text" | "substring" | "length" | "set_value" | "pi_set_data"
            );
            let sp = if merged && chardata_op { Spec::Unspecified("merged-view-character-data") } else { sp };
            // likewise a structural call whose operand is a text piece or a merged text node: the child lists of the
            // snapshot show merged nodes, the call works on pieces
            let textish_operand = ["c", "r", "n", "o"].iter().any(|k| {
                op.get(*k).map(|v| v.is_number() || v.is_array()).unwrap_or(false)
                    && matches!(pool.nodes[pool.idx(&op[*k])], XmlNode::Text(_) | XmlNode::CData(_) | XmlNode::EntityReference(_) | XmlNode::ExpandedText(_))
            });
            let sp = if merged && textish_operand && !matches!(sp, Spec::Unspecified(_)) { Spec::Unspecified("merged-view-text-operand") } else { sp };
            // a merged text node given as new child is moved piece by piece; a refusal of a later piece leaves the earlier ones moved
            // (open finding, keyed by this shape of the call)
            let merged_text_argument = merged
                && ["c", "n"].iter().any(|k| op.get(*k).map(|v| v.is_number() || v.is_array()).unwrap_or(false) && matches!(pool.nodes[pool.idx(&op[*k])], XmlNode::ExpandedText(_)));
            let npool = pool.nodes.len();
            // operand identities must be read before the call: the pool grows and index mapping shifts
            let mut opk: BTreeMap<&'static str, Key> = BTreeMap::new();
            for k in ["p", "c", "r", "n", "o", "e", "a"] {
                if op.get(k).map(|v| v.is_number() || v.is_array()).unwrap_or(false) {
                    let i = pool.idx(&op[k]);
                    opk.insert(k, key_of(&pool.nodes[i], pool.origin[i]));
                }
            }
            // a character-data node may already hold data it could not be given today (unchecked delete_data, an open
            // C15 finding): a refused edit cannot put such data back, which is a consequence of that finding
            let receiver_held_invalid_data = opk.get("n").and_then(|k| before.get(k)).map(|sh| !is_valid_chardata(sh.kind, sh.data.as_deref().unwrap_or(""))).unwrap_or(false);
            let out = hist::apply(&mut pool, op);
            if let Outcome::NotApplicable | Outcome::Excluded(_) = out {
                continue;
            }
            let after = snapshot(&pool);
            obs.label(format!("op:{}", kind));
            if let Outcome::Panic(k, d) = &out {
                nontrivial = true;
                let key = if matches!(kind.as_str(), "create_text" | "create_comment" | "create_cdata") && k.contains("unwrap") {
                    // the three factories have no Result in their signature and unwrap their validation
                    format!("c13.panic.{}.factory-unwraps-validation", kind)
                } else {
                    format!("c13.panic.{}.{}", kind, k)
                };
                fail!(key, format!("step {} {}: panic {}", step, op, d));
            }
            match sp {
                Spec::Unspecified(r) => {
                    obs.label(format!("unspecified:{}", r));
                    // atomicity of failures still holds for every call
                    if let Outcome::Err(e) = &out {
                        if let Some(d) = first_diff(&before, &after) {
                            fail!(if receiver_held_invalid_data { format!("c13.not-atomic.{}.receiver-already-held-invalid-data", kind) } else { if merged_text_argument { format!("c13.not-atomic.{}.merged-text-argument-moved-piece-by-piece", kind) } else { format!("c13.not-atomic.{}.{}", kind, err_class(e)) } }, format!("step {} {}: the call failed with {} but changed the state: {}", step, op, e, d));
                        }
                    }
                }
                Spec::Fail(classes) => {
                    nontrivial = true;
                    obs.label("expect:exception");
                    match &out {
                        Outcome::Ok(_) => {
                            let nm = op["name"].as_str().unwrap_or("");
                            let first = nm.chars().next();
                            let namestart = classes == vec!["InvalidCharacterErr"] && first.map(|c| chars::is_name_char(c) && !chars::is_name_start(c)).unwrap_or(false) && nm.chars().all(chars::is_name_char);
                            if namestart {
                                fail!(
                                    format!("c13.missing-exception.{}.name-starts-with-namechar-only", kind),
                                    format!("step {} {}: DOM Level 1 prescribes InvalidCharacterErr for the name {:?}, the call succeeded", step, op, nm)
                                );
                            }
                            fail!(
                                format!("c13.missing-exception.{}.{}", kind, classes.join("-or-")),
                                format!("step {} {}: DOM Level 1 prescribes {:?}, the call succeeded", step, op, classes)
                            );
                        }
                        Outcome::Err(e) => {
                            let cls = err_class(e);
                            if !classes.is_empty() && !classes.iter().any(|c| *c == cls) {
                                fail!(
                                    format!("c13.wrong-exception.{}.{}-instead-of-{}", kind, cls, classes.join("-or-")),
                                    format!("step {} {}: DOM Level 1 prescribes {:?}, the call failed with {}", step, op, classes, e)
                                );
                            }
                            if let Some(d) = first_diff(&before, &after) {
                                fail!(if receiver_held_invalid_data { format!("c13.not-atomic.{}.receiver-already-held-invalid-data", kind) } else { if merged_text_argument { format!("c13.not-atomic.{}.merged-text-argument-moved-piece-by-piece", kind) } else { format!("c13.not-atomic.{}.{}", kind, cls) } }, format!("step {} {}: the call failed with {} but changed the state: {}", step, op, e, d));
                            }
                        }
                        _ => {}
                    }
                }
                sp2 => {
                    let (expected, tolerated_errors, any_error): (Snap, Vec<&'static str>, bool) = match sp2 {
                        Spec::Ok { expected, also_fail } => (expected, also_fail, false),
                        Spec::OkOrRefuse { expected, refuse } => {
                            let any = refuse.is_empty();
                            (expected, refuse, any)
                        }
                        _ => unreachable!(),
                    };
                    match &out {
                        Outcome::Err(e) => {
                            let cls = err_class(e);
                            let both_quotes = ["value", "s"].iter().any(|k| op[*k].as_str().map(|v| v.contains('"') && v.contains('\'')).unwrap_or(false));
                            if !(any_error || tolerated_errors.iter().any(|c| *c == cls)) && both_quotes && matches!(kind.as_str(), "set_attr" | "set_value") {
                                fail!(
                                    format!("c13.unexpected-exception.{}.value-with-both-quote-kinds", kind),
                                    format!("step {} {}: DOM Level 1 prescribes success, the call failed with {}", step, op, e)
                                );
                            }
                            if !(any_error || tolerated_errors.iter().any(|c| *c == cls)) {
                                fail!(
                                    format!("c13.unexpected-exception.{}.{}", kind, cls),
                                    format!("step {} {}: DOM Level 1 prescribes success, the call failed with {}", step, op, e)
                                );
                            }
                            obs.label("refused-storable-data");
                            if let Some(d) = first_diff(&before, &after) {
                                fail!(if receiver_held_invalid_data { format!("c13.not-atomic.{}.receiver-already-held-invalid-data", kind) } else { if merged_text_argument { format!("c13.not-atomic.{}.merged-text-argument-moved-piece-by-piece", kind) } else { format!("c13.not-atomic.{}.{}", kind, cls) } }, format!("step {} {}: the call failed with {} but changed the state: {}", step, op, e, d));
                            }
                        }
                        Outcome::Ok(_) => {
                            obs.label("expect:success");
                            if matches!(kind.as_str(), "append" | "insert_before" | "replace") {
                                nontrivial = true;
                            }
                            if merged {
                                // the merged-text view presents adjacent pieces as one node, so a child list does not
                                // change the way the (raw) specification function says; panics, exception classes and
                                // atomic failure are judged in this view, effects in the raw view
                                obs.label("merged-view:effect-not-compared");
                                continue;
                            }
                            // an attribute's value follows from its children: after a structural edit of the
                            // children the value is taken from the library (the children themselves are compared)
                            let mut expected = expected;
                            let akeys: Vec<Key> = expected.iter().filter(|(k, sh)| sh.kind == "attribute" && before.get(*k).map(|b| b.children != sh.children).unwrap_or(false)).map(|(k, _)| *k).collect();
                            for k in akeys {
                                if let (Some(e), Some(a)) = (expected.get_mut(&k), after.get(&k)) {
                                    e.data = a.data.clone();
                                }
                            }
                            let (d, new_keys) = compare_expected(&expected, &after);
                            if let Some(d) = d {
                                // references to nodes that did not exist before are judged by check_new_nodes
                                let involves_new = new_keys.iter().any(|k| d.contains(&format!("{:?}", k)));
                                if !involves_new {
                                    fail!(format!("c13.wrong-effect.{}.{}", kind, diff_kind(&d)), format!("step {} {}: the call succeeded but the state differs from DOM Level 1's: {}", step, op, d));
                                }
                            }
                            if let Some(v) = check_new_nodes(&kind, op, &before, &after, &new_keys, &pool, npool, &opk) {
                                fail!(format!("c13.wrong-effect.{}.{}", kind, v.0), format!("step {} {}: {}", step, op, v.1));
                            }
                        }
                        _ => {}
                    }
                }
            }
        }
        obs.nontrivial = Some(nontrivial);
        Verdict::Pass
    }
    fn floors(&self, _tier: Tier) -> Vec<(&'static str, f64)> {
        vec![("expect:exception", 0.3), ("expect:success", 0.3)]
    }
}

fn check_new_nodes(kind: &str, op: &Json, _before: &Snap, after: &Snap, new_keys: &[Key], pool: &Pool, npool: usize, opk: &BTreeMap<&'static str, Key>) -> Option<(String, String)> {
    let s = |k: &str| op[k].as_str().unwrap_or("").to_string();
    match kind {
        "create_element" | "create_text" | "create_comment" | "create_cdata" | "create_pi" | "create_attr" => {
            if pool.nodes.len() != npool + 1 {
                return None;
            }
            let n = pool.nodes.last().unwrap();
            let k = key_of(n, *pool.origin.last().unwrap());
            let sh = after.get(&k)?;
            let want_kind = match kind {
                "create_element" => "element",
                "create_text" => "text",
                "create_comment" => "comment",
                "create_cdata" => "cdata",
                "create_pi" => "pi",
                _ => "attribute",
            };
            if sh.kind != want_kind {
                return Some(("new-node-kind".into(), format!("factory returned a {} node", sh.kind)));
            }
            if matches!(kind, "create_element" | "create_attr" | "create_pi") && sh.name != s("name") {
                return Some(("new-node-name".into(), format!("factory was given the name {:?}, the node is called {:?}", s("name"), sh.name)));
            }
            if matches!(kind, "create_text" | "create_comment" | "create_cdata" | "create_pi") && sh.data.as_deref() != Some(s("s").as_str()) {
                return Some(("new-node-data".into(), format!("factory was given the data {:?}, the node holds {:?}", s("s"), sh.data)));
            }
            if !sh.children.is_empty() && kind != "create_attr" {
                return Some(("new-node-children".into(), format!("a fresh {} has children {:?}", sh.kind, sh.children)));
            }
            if !sh.attrs.is_empty() {
                return Some(("new-node-attributes".into(), format!("a fresh {} has attributes {:?}", sh.kind, sh.attrs)));
            }
            if sh.parent.is_some() {
                return Some(("new-node-parent".into(), "a fresh node has a parent".into()));
            }
            None
        }
        "set_attr" => {
            // exactly one attribute with that name and value on the element
            let ek = *opk.get("e")?;
            let sh = after.get(&ek)?;
            let name = s("name");
            let hits: Vec<&(String, Key)> = sh.attrs.iter().filter(|(n, _)| *n == name).collect();
            if hits.len() != 1 {
                return Some(("attribute-count".into(), format!("after set_attribute({:?}) the element has {} attributes of that name", name, hits.len())));
            }
            let a = after.get(&hits[0].1)?;
            let v = s("value");
            let plain = !v.contains('<') && !v.contains('&');
            if plain && a.data.as_deref() != Some(v.as_str()) {
                let normalised: String = v.chars().map(|c| if matches!(c, '\t' | '\n' | '\r') { ' ' } else { c }).collect();
                if a.data.as_deref() == Some(normalised.as_str()) {
                    return Some(("attribute-value-white-space-normalised".into(), format!("set_attribute({:?}, {:?}) stored {:?}: DOM Level 1 takes the value as literal text", name, v, a.data)));
                }
                return Some(("attribute-value".into(), format!("set_attribute({:?}, {:?}) left the value {:?}", name, v, a.data)));
            }
            if !plain && a.data.as_deref() != Some(v.as_str()) {
                return Some(("attribute-value-parsed-as-markup".into(), format!("set_attribute({:?}, {:?}) stored {:?}: DOM Level 1 takes the value as literal text", name, v, a.data)));
            }
            None
        }
        "split_text" => {
            if pool.nodes.len() != npool + 1 {
                return None;
            }
            let nk = *opk.get("n")?;
            let newn = pool.nodes.last().unwrap();
            let newk = key_of(newn, *pool.origin.last().unwrap());
            let orig = _before.get(&nk)?;
            let data: Vec<char> = orig.data.clone().unwrap_or_default().chars().collect();
            let off = offset_of(&op["off"]);
            let tail: String = data[off.min(data.len())..].iter().collect();
            let nsh = after.get(&newk)?;
            if nsh.data.as_deref() != Some(tail.as_str()) {
                return Some(("split-tail".into(), format!("the new node holds {:?}, expected {:?}", nsh.data, tail)));
            }
            let p = orig.parent?;
            let psh = after.get(&p)?;
            let before_kids = &_before.get(&p)?.children;
            let mut want = before_kids.clone();
            let pos = want.iter().position(|k| *k == nk)?;
            want.insert(pos + 1, newk);
            if psh.children != want {
                return Some(("split-siblings".into(), format!("parent's children are {:?}, expected {:?}", psh.children, want)));
            }
            let _ = new_keys;
            None
        }
        "set_value" | "set_data" | "replace_data" | "append_data" | "insert_data" => None,
        _ => None,
    }
}
