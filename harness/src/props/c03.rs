//! C03 — parsing and printing are total: no panic, abort, hang or blow-up on any input.

use crate::engine::{Json, Obs, Property, Tier, Verdict};
use crate::gen::genes::Genes;
use crate::gen::mutate;
use crate::props::c02::mutant_case;
use proptest::prelude::*;
use serde_json::json;
use xml_dom::PrettyPrint;

pub struct C03;

/// approximate maximal element nesting of a text (counts "<x" vs "</" and "/>")
pub fn nesting_estimate(text: &str) -> usize {
    let b = text.as_bytes();
    let mut depth: i64 = 0;
    let mut max: i64 = 0;
    let mut i = 0;
    while i < b.len() {
        if b[i] == b'<' && i + 1 < b.len() {
            match b[i + 1] {
                b'/' => depth -= 1,
                b'!' | b'?' => {}
                _ => {
                    depth += 1;
                    if depth > max {
                        max = depth;
                    }
                }
            }
        } else if b[i] == b'/' && i + 1 < b.len() && b[i + 1] == b'>' {
            depth -= 1;
        }
        i += 1;
    }
    max.max(0) as usize
}

pub fn group_nesting_estimate(text: &str) -> usize {
    let mut depth = 0usize;
    let mut max = 0usize;
    for c in text.chars() {
        if c == '(' {
            depth += 1;
            max = max.max(depth);
        } else if c == ')' {
            depth = depth.saturating_sub(1);
        }
    }
    max
}

/// the work whose totality is claimed: parse, build, print, pretty-print, both views
pub fn exercise(text: &str, obs: &mut Obs) {
    if let Ok((rest, doc)) = xml_dom::XmlDocument::from_raw(text) {
        obs.label(if rest.is_empty() { "parsed-completely" } else { "parsed-with-rest" });
        let s = doc.to_string();
        let mut buf: Vec<u8> = vec![];
        let _ = doc.pretty(&mut buf);
        std::hint::black_box((s.len(), buf.len()));
    } else {
        obs.label("rejected");
    }
    if let Ok((_rest, doc)) = xml_dom::XmlDocument::from_raw_with_context(text, xml_dom::Context::from_text_expanded(true)) {
        let s = doc.to_string();
        let mut buf: Vec<u8> = vec![];
        let _ = doc.pretty(&mut buf);
        std::hint::black_box((s.len(), buf.len()));
    }
}

fn family(name: &str, n: usize) -> String {
    match name {
        "element-nesting" => format!("{}{}", "<a>".repeat(n), "</a>".repeat(n)),
        "element-nesting-unclosed" => "<a>".repeat(n),
        "siblings" => format!("<r>{}</r>", "<a/>".repeat(n)),
        "attributes" => format!("<r {}/>", (0..n).map(|i| format!("a{}=\"v\"", i)).collect::<Vec<_>>().join(" ")),
        // prefixed and unprefixed names in one tag, in an order that is not sorted by any single rule
        "attributes-mixed-prefixes" => {
            let pre = ["", "p:", "q:", "", "xml:", "r:"];
            let loc = ["c", "a", "b", "id", "lang", "z", "k"];
            let attrs: Vec<String> = (0..n).map(|i| format!("{}{}{}=\"v\"", pre[(i * 5 + i / 3) % pre.len()], loc[(i * 3) % loc.len()], if pre[(i * 5 + i / 3) % pre.len()] == "xml:" { String::new() } else { (i / 2).to_string() })).collect();
            let mut seen = std::collections::BTreeSet::new();
            let attrs: Vec<String> = attrs.into_iter().filter(|a| seen.insert(a.split('=').next().unwrap_or("").to_string())).collect();
            format!("<r xmlns:p=\"urn:p\" xmlns:q=\"urn:q\" xmlns:r=\"urn:r\" {}/>", attrs.join(" "))
        }
        "long-comment" => format!("<r><!--{}--></r>", "-a".repeat(n)),
        "long-text" => format!("<r>{}</r>", "ab ".repeat(n)),
        "choice-groups" => format!("<!DOCTYPE r [<!ELEMENT r {}a|b{}>]><r/>", "(".repeat(n), ")".repeat(n)),
        "nested-choice" => format!("<!DOCTYPE r [<!ELEMENT r {}a{}>]><r/>", "(".repeat(n), "|b)".repeat(n)),
        "nested-choice-seq" => format!("<!DOCTYPE r [<!ELEMENT r {}a{}>]><r/>", "(".repeat(n), ",b|c)".repeat(n)),
        "seq-groups" => format!("<!DOCTYPE r [<!ELEMENT r {}a{}>]><r/>", "(".repeat(n), ")".repeat(n)),
        "mixed-groups-broken" => format!("<!DOCTYPE r [<!ELEMENT r {}a|b{}x>]><r/>", "(".repeat(n), ")".repeat(n)),
        "entity-chain" => {
            let mut d = String::from("<!DOCTYPE r [<!ENTITY e0 \"x\">");
            for i in 1..=n {
                d.push_str(&format!("<!ENTITY e{} \"&e{};&e{};\">", i, i - 1, i - 1));
            }
            d.push_str(&format!("]><r>&e{};</r>", n));
            d
        }
        "entity-chain-in-attribute" | "entity-chain-in-attlist-default" | "entity-chain-in-entity-value" => {
            // the same doubling chain, referenced where the reference is checked but not included as content
            let mut d = String::from("<!DOCTYPE r [<!ENTITY e0 \"\">");
            for i in 1..=n {
                d.push_str(&format!("<!ENTITY e{} \"&e{};&e{};\">", i, i - 1, i - 1));
            }
            match name {
                "entity-chain-in-attribute" => d.push_str(&format!("]><r a=\"&e{};\"/>", n)),
                "entity-chain-in-attlist-default" => d.push_str(&format!("<!ATTLIST r a CDATA \"&e{};\">]><r/>", n)),
                _ => d.push_str(&format!("<!ENTITY top \"&e{};\">]><r>&top;</r>", n)),
            }
            d
        }
        "entity-cycle" => {
            let mut d = String::from("<!DOCTYPE r [");
            for i in 0..n {
                d.push_str(&format!("<!ENTITY c{} \"&c{};\">", i, (i + 1) % n));
            }
            d.push_str("]><r>&c0;</r>");
            d
        }
        "entity-cycle-with-lead-in" | "entity-cycle-with-lead-in-attribute" => {
            // the referenced entity is not on the cycle, it only leads into it
            let mut d = String::from("<!DOCTYPE r [<!ENTITY lead \"x&c0;\">");
            for i in 0..n {
                d.push_str(&format!("<!ENTITY c{} \"&c{};\">", i, (i + 1) % n));
            }
            if name.ends_with("attribute") {
                d.push_str("]><r a=\"&lead;\"/>");
            } else {
                d.push_str("]><r>&lead;</r>");
            }
            d
        }
        "empty-comments-in-subset" => format!("<!DOCTYPE r [{}]><r/>", "<!---->".repeat(n)),
        "many-pis" => format!("{}<r/>", "<?p d?>".repeat(n)),
        "cdata-run" => format!("<r>{}</r>", "<![CDATA[]]>".repeat(n)),
        "charref-run" => format!("<r>{}</r>", "&#65;".repeat(n)),
        "open-brackets" => "<".repeat(n),
        "doctype-junk" => format!("<!DOCTYPE r [{}", "<!ENTITY ".repeat(n)),
        "attr-value-refs" => format!("<r a=\"{}\"/>", "&amp;".repeat(n)),
        "ns-decls" => format!("<r {}/>", (0..n).map(|i| format!("xmlns:p{}=\"u{}\"", i, i)).collect::<Vec<_>>().join(" ")),
        _ => String::new(),
    }
}

const FAMILIES: &[(&str, &[usize])] = &[
    ("element-nesting", &[10, 100, 400, 1000, 3000, 10000, 50000]),
    ("element-nesting-unclosed", &[10, 100, 1000, 10000, 50000]),
    ("siblings", &[100, 2000, 20000]),
    ("attributes", &[50, 500, 3000]),
    ("attributes-mixed-prefixes", &[8, 17, 21, 22, 25, 33, 40, 64, 200]),
    ("long-comment", &[100, 10000, 200000]),
    ("long-text", &[100, 100000]),
    ("choice-groups", &[2, 6, 10, 14, 18, 22, 26, 40, 200]),
    ("seq-groups", &[2, 6, 10, 14, 18, 22, 26, 40, 200, 5000]),
    ("mixed-groups-broken", &[2, 6, 10, 14, 18, 22, 26]),
    ("nested-choice", &[2, 6, 10, 14, 18, 22, 26, 30]),
    ("nested-choice-seq", &[2, 6, 10, 14, 18, 22]),
    ("entity-chain", &[2, 6, 10, 14, 18, 22, 26, 30, 40, 60]),
    ("entity-chain-in-attribute", &[2, 10, 18, 26, 34, 48]),
    ("entity-chain-in-attlist-default", &[2, 10, 18, 26, 34, 48]),
    ("entity-chain-in-entity-value", &[2, 10, 18, 26, 34, 48]),
    ("entity-cycle", &[1, 2, 3, 10, 200]),
    ("entity-cycle-with-lead-in", &[1, 2, 3, 10]),
    ("entity-cycle-with-lead-in-attribute", &[1, 2, 3, 10]),
    ("empty-comments-in-subset", &[10, 1000, 20000]),
    ("many-pis", &[10, 5000]),
    ("cdata-run", &[10, 5000]),
    ("charref-run", &[10, 20000]),
    ("open-brackets", &[10, 1000, 100000]),
    ("doctype-junk", &[10, 1000]),
    ("attr-value-refs", &[10, 20000]),
    ("ns-decls", &[10, 300]),
];

impl Property for C03 {
    fn id(&self) -> &'static str {
        "C03"
    }
    fn rule(&self) -> String {
        "inputs: (a) token soup over an XML markup alphabet incl. DOCTYPE/ENTITY/ATTLIST/parameter-entity tokens, multi-byte and illegal characters; (b) mutants of generated \
         well-formed documents (C02's mutators), including those that stay well-formed; (c) deterministic adversarial families with a size parameter (element nesting, \
         unclosed nesting, siblings, attributes, long comment/text, nested choice/seq groups, entity chains with doubling expansion, entity cycles, n empty comments in the \
         subset, PI/CDATA/charref runs, '<' runs, namespace declarations). Oracle: in a worker process from_raw, from_raw_with_context(text_expanded), to_string() and pretty() of \
         every accepted document must return; a panic is caught and keyed by its site, a worker death (stack overflow) or an exhausted CPU budget (20 s per case; every \
         generated input is < 4 KiB) is attributed to the announced case. Random inputs whose estimated element nesting exceeds 200 or group nesting exceeds 12 are excluded \
         (counted) because those shapes are covered by the families. Non-trivial = the parser accepted the input (item construction and printing ran) or the case is a family \
         member; distinct by text."
            .into()
    }
    fn assumptions(&self) -> Vec<String> {
        vec![
            "'not exponential' is decided by a CPU-time budget on sized families (growth visible in evidence as cpu_ms per family member); it cannot prove polynomial behaviour".into(),
            "worker processes run with the default 8 MiB main-thread stack".into(),
        ]
    }
    fn cases_per_shard(&self, tier: Tier) -> u32 {
        tier.pick(4000, 150000)
    }
    fn abort_is_verdict(&self) -> bool {
        true
    }
    fn cpu_budget_s(&self) -> u64 {
        20
    }
    fn abort_key(&self, case: &Json, what: &str) -> String {
        let what = if what.starts_with("sig") && what != "sigkill" { "crash" } else { what };
        match case["family"].as_str() {
            // closed and unclosed deep nesting die in the same recursion
            Some(f) if f.starts_with("element-nesting") => format!("c03.{}.family-element-nesting", what),
            Some(f) => format!("c03.{}.family-{}", what, f),
            None => format!("c03.{}.generated", what),
        }
    }
    fn strategy(&self, tier: Tier) -> BoxedStrategy<Json> {
        let max_nodes = tier.pick(25usize, 80usize);
        let soup = proptest::collection::vec(any::<u16>(), 0..60).prop_map(|idx| {
            let s: String = idx.iter().map(|i| mutate::SOUP[crate::engine::pick_index(*i, mutate::SOUP.len())]).collect();
            json!({"text": s, "_labels": ["source:soup"]})
        });
        let mutant = (
            proptest::collection::vec(any::<u16>(), 0..250),
            proptest::collection::vec(any::<u16>(), 0..100),
            proptest::collection::vec(any::<u16>(), 1..24),
        )
            .prop_map(move |(g, c, m)| {
                let j = mutant_case(g, c, m, max_nodes);
                json!({"text": j["text"], "_labels": ["source:mutant"]})
            });
        let soup_in_doc = (proptest::collection::vec(any::<u16>(), 0..40), 0usize..4).prop_map(|(idx, place)| {
            let s: String = idx.iter().map(|i| mutate::SOUP[crate::engine::pick_index(*i, mutate::SOUP.len())]).collect();
            let t = match place {
                0 => format!("<a>{}</a>", s),
                1 => format!("<!DOCTYPE a [{}]><a/>", s),
                2 => format!("<a x=\"{}\"/>", s),
                _ => format!("<?xml version=\"1.0\"?>{}<a/>", s),
            };
            json!({"text": t, "_labels": ["source:soup-in-document"]})
        });
        let _ = Genes::new(vec![]);
        let wellformed = (proptest::collection::vec(any::<u16>(), 0..300), proptest::collection::vec(any::<u16>(), 0..150)).prop_map(move |(g, c)| {
            let (doc, _) = crate::gen::adoc::build(g, &crate::gen::adoc::DocCfg::full(max_nodes));
            let r = crate::gen::adoc::render(&doc, c, true);
            json!({"text": r.text, "_labels": ["source:well-formed"]})
        });
        prop_oneof![3 => soup, 4 => mutant, 3 => soup_in_doc, 2 => wellformed].boxed()
    }
    fn fixed_cases(&self, _tier: Tier) -> Vec<Json> {
        let mut v = vec![];
        for (name, sizes) in FAMILIES {
            for n in sizes.iter() {
                v.push(json!({"family": name, "n": n, "_labels": [format!("family:{}", name)], "_nontrivial": true}));
            }
        }
        v.extend(crate::engine::regress_cases("C03"));
        v
    }
    fn check(&self, case: &Json, obs: &mut Obs) -> Verdict {
        let text: String = match case["family"].as_str() {
            Some(f) => family(f, case["n"].as_u64().unwrap_or(1) as usize),
            None => case["text"].as_str().unwrap_or("").to_string(),
        };
        if case["family"].is_null() {
            if nesting_estimate(&text) > 200 {
                return Verdict::Discard("excluded:deep-element-nesting".into());
            }
            if group_nesting_estimate(&text) > 12 {
                return Verdict::Discard("excluded:deep-group-nesting".into());
            }
        }
        let t0 = cpu_ms();
        exercise(&text, obs);
        let dt = cpu_ms() - t0;
        if case["family"].is_string() {
            obs.label(format!("cpu_ms:{}:n={}:{}", case["family"].as_str().unwrap_or(""), case["n"], bucket(dt)));
            obs.nontrivial = Some(true);
        } else {
            obs.nontrivial = Some(obs.labels.iter().any(|l| l.starts_with("parsed")));
        }
        Verdict::Pass
    }
    fn floors(&self, _tier: Tier) -> Vec<(&'static str, f64)> {
        vec![("parsed-completely", 0.05), ("rejected", 0.2)]
    }
}

fn cpu_ms() -> u64 {
    unsafe {
        let mut ts: libc::timespec = std::mem::zeroed();
        libc::clock_gettime(libc::CLOCK_PROCESS_CPUTIME_ID, &mut ts);
        ts.tv_sec as u64 * 1000 + ts.tv_nsec as u64 / 1_000_000
    }
}

fn bucket(ms: u64) -> &'static str {
    match ms {
        0..=9 => "<10ms",
        10..=99 => "<100ms",
        100..=999 => "<1s",
        1000..=4999 => "<5s",
        _ => ">=5s",
    }
}
