//! C09 — core functions and operators compute the XPath 1.0 scalar semantics.

use crate::engine::{Json, Obs, Property, Tier, Verdict};
use crate::gen::genes::Genes;
use crate::oracle::xjson;
use crate::props::c05;
use proptest::prelude::*;
use serde_json::json;

pub struct C09;

const NUMS: &[(&str, &str)] = &[
    ("0", "zero"),
    ("1", "plain"),
    ("2", "plain"),
    ("3", "plain"),
    ("10", "plain"),
    ("0.5", "half"),
    ("1.5", "half"),
    ("2.5", "half"),
    ("-0.5", "half"),
    ("-1.5", "half"),
    ("-2.5", "half"),
    ("(-0)", "negzero"),
    ("(0 div 0)", "nan"),
    ("(1 div 0)", "inf"),
    ("(-1 div 0)", "inf"),
    ("9007199254740993", "huge"),
    ("1000000000000000000000", "huge"),
    ("0.0000001", "tiny"),
    ("(1 div 3)", "fraction"),
    ("0.49999999999999994", "half"),
    ("-1", "plain"),
    ("4", "plain"),
    ("2147483648", "huge"),
    ("-7", "plain"),
    ("12345.678", "fraction"),
    // decimal fractions whose sums and products miss the decimal result by one unit in the last place
    ("0.1", "decimal"),
    ("0.2", "decimal"),
    ("0.3", "decimal"),
    ("0.30000000000000004", "decimal"),
    ("1.1", "decimal"),
    ("1.21", "decimal"),
    ("4.35", "decimal"),
    ("100", "plain"),
    ("435", "plain"),
    ("9007199254740992", "huge"),
];

const STRS: &[(&str, &str)] = &[
    ("''", "empty"),
    ("' '", "space"),
    ("'  a  b '", "space"),
    ("'\t\n'", "space"),
    ("'\u{e9}'", "nonascii"),
    ("'\u{1F600}z'", "astral"),
    ("'e\u{301}x'", "combining"),
    ("'12'", "numeric"),
    ("' 12 '", "numeric-padded"),
    ("'-12.50'", "numeric"),
    ("'.5'", "numeric"),
    ("'5.'", "numeric"),
    ("'+1'", "numeric-like"),
    ("'1e3'", "numeric-like"),
    ("'0x10'", "numeric-like"),
    ("'Infinity'", "numeric-like"),
    ("'NaN'", "numeric-like"),
    ("'--1'", "numeric-like"),
    ("'abc'", "plain"),
    ("'a\u{a0}b'", "nbsp"),
    ("'\u{2003}x\u{2003}'", "unicode-space"),
    ("\"it's\"", "plain"),
    ("'abcabc'", "plain"),
    ("'b'", "plain"),
    ("'- 1'", "numeric-like"),
    ("'\u{1F600}\u{e9}a\u{1F600}'", "astral"),
    ("'1 2'", "numeric-like"),
    ("' '", "space"),
    ("'-'", "plain"),
    ("'inf'", "numeric-like"),
    // numerals padded with characters that are white space for Unicode but not for XPath (S is #x20 #x9 #xD #xA)
    ("'\u{a0}12'", "unicode-space-padded-numeral"),
    ("'7\u{2003}'", "unicode-space-padded-numeral"),
    ("'\u{3000}5\u{3000}'", "unicode-space-padded-numeral"),
    ("'\u{85}3'", "unicode-space-padded-numeral"),
    ("'\u{2028}4'", "unicode-space-padded-numeral"),
    ("'\t\n 8 \r'", "numeric-padded"),
];

struct G<'a> {
    g: &'a mut Genes,
    labels: Vec<String>,
}

impl<'a> G<'a> {
    fn lab(&mut self, l: String) {
        if !self.labels.contains(&l) {
            self.labels.push(l);
        }
    }
    fn num(&mut self, d: u32) -> String {
        // the forms without an argument read the context node (the root of DOC, or a node a predicate walks over)
        if self.g.chance(1, 12) {
            self.lab("context-node-form".into());
            const FORMS: &[&str] = &["string-length()", "number()", "string-length(/a/b)", "count(/a/b[string-length() = 2])", "count(//b[string-length() = 3])", "count(//*[number() = 12])", "string-length(normalize-space())", "count(//text()[string-length() > 3])"];
            return FORMS[self.g.pick(FORMS.len())].to_string();
        }
        if d == 0 || self.g.chance(2, 5) {
            let (s, c) = NUMS[self.g.pick(NUMS.len())];
            self.lab(format!("num:{}", c));
            return s.to_string();
        }
        match self.g.pick(14) {
            0 => format!("({} + {})", self.num(d - 1), self.num(d - 1)),
            1 => format!("({} - {})", self.num(d - 1), self.num(d - 1)),
            2 => format!("({} * {})", self.num(d - 1), self.num(d - 1)),
            3 => format!("({} div {})", self.num(d - 1), self.num(d - 1)),
            4 => {
                self.lab("fn:mod".into());
                format!("({} mod {})", self.num(d - 1), self.num(d - 1))
            }
            5 => format!("(-{})", self.num(d - 1)),
            6 => {
                self.lab("fn:floor".into());
                format!("floor({})", self.num(d - 1))
            }
            7 => {
                self.lab("fn:ceiling".into());
                format!("ceiling({})", self.num(d - 1))
            }
            8 => {
                self.lab("fn:round".into());
                format!("round({})", self.num(d - 1))
            }
            9 => {
                self.lab("fn:number(string)".into());
                format!("number({})", self.string(d - 1))
            }
            10 => {
                self.lab("fn:string-length".into());
                format!("string-length({})", self.string(d - 1))
            }
            11 => format!("number({})", self.boolean(d - 1)),
            12 => {
                // sign of zero becomes observable
                self.lab("one-div-x".into());
                format!("(1 div {})", self.num(d - 1))
            }
            _ => {
                self.lab("implicit:string->number".into());
                format!("({} + 0)", self.string(d - 1))
            }
        }
    }
    /// (text, pattern) literals in which the pattern occurs behind a partial copy of its own beginning: a search that
    /// does not back up after a failed partial match misses the occurrence
    fn related_pair(&mut self) -> (String, String) {
        const NEEDLES: &[&str] = &["aab", "-->", "]]>", "ababc", "\u{1F600}\u{1F600}z", "ab", "a", "aa", "\u{e9}\u{e9}\u{e8}", "1.1.2"];
        let n: Vec<char> = NEEDLES[self.g.pick(NEEDLES.len())].chars().collect();
        let k = self.g.pick(n.len());
        let pre = ["", "x", "\u{1F600}", "zz"][self.g.pick(4)];
        let post = ["", "y", ".", "\u{e9}"][self.g.pick(4)];
        let partial: String = n[..k].iter().collect();
        let needle: String = n.iter().collect();
        // now and then a second, clean occurrence further on (the first one still counts)
        let again = if self.g.chance(1, 4) { format!("_{}", needle) } else { String::new() };
        self.lab(if k > 0 { "search:occurrence-behind-a-false-start".into() } else { "search:plain-occurrence".into() });
        (format!("'{}{}{}{}{}'", pre, partial, needle, post, again), format!("'{}'", needle))
    }
    fn string(&mut self, d: u32) -> String {
        if self.g.chance(1, 12) {
            self.lab("context-node-form".into());
            const FORMS: &[&str] = &["string()", "normalize-space()", "name()", "local-name()", "string(/a/b)", "normalize-space(/a)", "name(/*)", "string(/a/b[string-length() = 3])", "string(//b[normalize-space() = 'x y'])", "name(//*[string() = 'xyz'])"];
            return FORMS[self.g.pick(FORMS.len())].to_string();
        }
        if d == 0 || self.g.chance(2, 5) {
            let (s, c) = STRS[self.g.pick(STRS.len())];
            self.lab(format!("str:{}", c));
            return s.to_string();
        }
        match self.g.pick(10) {
            0 => {
                self.lab("fn:string(number)".into());
                format!("string({})", self.num(d - 1))
            }
            1 => {
                self.lab("fn:concat".into());
                format!("concat({}, {})", self.string(d - 1), self.string(d - 1))
            }
            2 => {
                self.lab("fn:substring-before".into());
                if self.g.chance(1, 2) {
                    let (t, p) = self.related_pair();
                    return format!("substring-before({}, {})", t, p);
                }
                format!("substring-before({}, {})", self.string(d - 1), self.string(d - 1))
            }
            3 => {
                self.lab("fn:substring-after".into());
                if self.g.chance(1, 2) {
                    let (t, p) = self.related_pair();
                    return format!("substring-after({}, {})", t, p);
                }
                format!("substring-after({}, {})", self.string(d - 1), self.string(d - 1))
            }
            4 => {
                self.lab("fn:substring/2".into());
                format!("substring({}, {})", self.string(d - 1), self.num(d - 1))
            }
            5 => {
                self.lab("fn:substring/3".into());
                format!("substring({}, {}, {})", self.string(d - 1), self.num(d - 1), self.num(d - 1))
            }
            6 => {
                self.lab("fn:normalize-space".into());
                format!("normalize-space({})", self.string(d - 1))
            }
            7 => {
                self.lab("fn:translate".into());
                format!("translate({}, {}, {})", self.string(d - 1), self.string(d - 1), self.string(d - 1))
            }
            8 => format!("string({})", self.boolean(d - 1)),
            _ => {
                self.lab("fn:concat/3".into());
                format!("concat({}, {}, {})", self.string(d - 1), self.num(d - 1), self.boolean(d - 1))
            }
        }
    }
    fn boolean(&mut self, d: u32) -> String {
        if d == 0 || self.g.chance(1, 4) {
            return ["true()", "false()"][self.g.pick(2)].to_string();
        }
        let ops = ["=", "!=", "<", "<=", ">", ">="];
        match self.g.pick(12) {
            0 => {
                self.lab("cmp:num-num".into());
                format!("({} {} {})", self.num(d - 1), ops[self.g.pick(6)], self.num(d - 1))
            }
            1 => {
                self.lab("cmp:str-str".into());
                format!("({} {} {})", self.string(d - 1), ops[self.g.pick(6)], self.string(d - 1))
            }
            2 => {
                self.lab("cmp:num-str".into());
                format!("({} {} {})", self.num(d - 1), ops[self.g.pick(6)], self.string(d - 1))
            }
            3 => {
                self.lab("cmp:bool-str".into());
                format!("({} {} {})", self.boolean(d - 1), ops[self.g.pick(6)], self.string(d - 1))
            }
            4 => {
                self.lab("cmp:bool-num".into());
                format!("({} {} {})", self.num(d - 1), ops[self.g.pick(6)], self.boolean(d - 1))
            }
            5 => format!("({} and {})", self.boolean(d - 1), self.boolean(d - 1)),
            6 => format!("({} or {})", self.boolean(d - 1), self.boolean(d - 1)),
            7 => format!("not({})", self.boolean(d - 1)),
            8 => {
                self.lab("fn:boolean(number)".into());
                format!("boolean({})", self.num(d - 1))
            }
            9 => {
                self.lab("fn:boolean(string)".into());
                format!("boolean({})", self.string(d - 1))
            }
            10 => {
                self.lab("fn:starts-with".into());
                format!("starts-with({}, {})", self.string(d - 1), self.string(d - 1))
            }
            _ => {
                self.lab("fn:contains".into());
                if self.g.chance(1, 3) {
                    let (t, p) = self.related_pair();
                    return format!("contains({}, {})", t, p);
                }
                format!("contains({}, {})", self.string(d - 1), self.string(d - 1))
            }
        }
    }
}

pub fn scalar_case(genes: Vec<u16>, ty: usize, depth: u32) -> Json {
    let mut gs = Genes::new(genes);
    let mut g = G { g: &mut gs, labels: vec![] };
    let expr = match ty {
        0 => g.num(depth),
        1 => g.string(depth),
        _ => g.boolean(depth),
    };
    let ast = match vp_xref::parse(&expr) {
        Ok(a) => a,
        Err(e) => return json!({"_discard": format!("reference-parser-rejects:{}", e.chars().take(30).collect::<String>())}),
    };
    let mut b = vp_xref::TreeBuilder::new();
    b.start_element(None, "a", &[], &[]);
    b.text(" \u{65e5}\u{672c}\u{8a9e} ");
    b.start_element(None, "b", &[], &[]);
    b.text("\u{e9}\u{1F600}");
    b.end_element();
    b.start_element(None, "b", &[], &[]);
    b.text("xyz");
    b.end_element();
    b.start_element(None, "b", &[], &[]);
    b.text(" x  y ");
    b.end_element();
    b.start_element(None, "c", &[], &[]);
    b.text("12");
    b.end_element();
    b.end_element();
    let tree = b.finish();
    let ns: Vec<(String, String)> = vec![];
    let env = vp_xref::Env::new(&tree, &ns);
    vp_xref::trace::start();
    let expected = vp_xref::eval_root(&ast, &env);
    let trace = vp_xref::trace::take();
    let negzero = trace.num_to_str.iter().any(|v| *v == 0.0 && v.is_sign_negative());
    let boundary = g.labels.iter().any(|l| {
        matches!(
            l.as_str(),
            "num:half" | "num:nan" | "num:inf" | "num:negzero" | "num:huge" | "num:tiny" | "str:nonascii" | "str:astral" | "str:combining" | "str:numeric-padded" | "str:numeric-like" | "str:nbsp" | "str:unicode-space" | "str:space" | "str:empty"
        )
    });
    let mut feats = vec![];
    c05::features(&ast, &mut feats);
    json!({
        "doc": vp_xref::to_xml(&tree),
        "tree": xjson::tree_to_json(&tree),
        "expr": expr,
        "ns": [],
        "expected": xjson::value_to_json(&expected),
        "features": feats,
        "negzero_to_string": negzero,
        "_labels": g.labels,
        "_nontrivial": boundary,
    })
}

impl Property for C09 {
    fn id(&self) -> &'static str {
        "C09"
    }
    fn rule(&self) -> String {
        "scalar-only expressions (depth <= 3) built from a proptest gene vector over pools of strings (empty, XPath white space, NBSP and U+2003 which are not XPath white space, \
         non-ASCII, astral, combining, numeric-looking: '12', ' 12 ', '-12.50', '.5', '5.', '+1', '1e3', '0x10', 'Infinity', 'NaN', '--1') and numbers (NaN, +-0, +-Infinity, \
         halves, 2^53+1, 1e21, 1e-7, fractions): every core string/number/boolean function at every arity, arithmetic, unary minus, all six comparisons across type pairs, and/or; \
         the sign of zero is made observable through '1 div x'. Oracle: vp-xref's scalar library (XPath 1.0 sections 3.4, 3.5, 4.2-4.4 written from the text) through its own \
         parser and evaluator; numbers compared bit-exactly (NaN = NaN). Non-trivial = at least one boundary value (non-ASCII, padded or pseudo-numeric string, NaN/Infinity/-0/half/huge/tiny) \
         takes part; distinct by expression."
            .into()
    }
    fn assumptions(&self) -> Vec<String> {
        vec![
            "vp-xref implements the XPath 1.0 conversions and core functions exactly (NOTES.md lists string(number) ties between equally short digit strings as the one place with room)".into(),
            "evaluations in which a negative zero is converted to a string are excluded while finding c09.string-of-negative-zero is open".into(),
        ]
    }
    fn cases_per_shard(&self, tier: Tier) -> u32 {
        tier.pick(20000, 400000)
    }
    fn strategy(&self, _tier: Tier) -> BoxedStrategy<Json> {
        (proptest::collection::vec(any::<u16>(), 0..60), 0usize..3, 1u32..4).prop_map(|(g, ty, d)| scalar_case(g, ty, d)).boxed()
    }
    fn fixed_cases(&self, _tier: Tier) -> Vec<Json> {
        crate::engine::regress_cases("C09")
    }
    fn check(&self, case: &Json, obs: &mut Obs) -> Verdict {
        c05::check_case("C09", case, obs)
    }
}
