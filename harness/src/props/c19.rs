//! C19 — parsing and querying are deterministic and side-effect free.

use crate::engine::{panics, skip_known, Json, Obs, Property, Tier, Verdict};
use crate::gen::xgen::{self, ExprGen, Rng, Ty};
use crate::oracle::{canon, domindex};
use proptest::prelude::*;
use serde_json::json;

pub struct C19;

/// result of a query in a form comparable across two parses of the same text
fn run(doc: &xml_dom::XmlDocument, ctx: &mut xml_xpath::eval::model::Context, expr: &str) -> String {
    let ix = domindex::index(doc);
    let r = panics::catch(|| xml_xpath::query(doc.clone(), expr, ctx).map_err(|e| format!("{:?}", e)));
    match r {
        Err(pi) => format!("panic:{}", pi.key()),
        Ok(Err(e)) => format!("error:{}", e.chars().take(60).collect::<String>()),
        Ok(Ok(xml_xpath::eval::model::Value::Node(v))) => {
            use xml_dom::Node;
            let parts: Vec<String> = v
                .iter()
                .map(|n| match ix.get(&(n.id(), domindex::class_of(n))) {
                    Some((p, r)) => {
                        if *r == 1 {
                            format!("{}@{}", p, n.node_name())
                        } else {
                            format!("{}", p)
                        }
                    }
                    None => format!("?{}", n.node_name()),
                })
                .collect();
            format!("nodes:[{}]", parts.join(","))
        }
        Ok(Ok(xml_xpath::eval::model::Value::Number(n))) => {
            if n.is_nan() {
                "num:NaN".into()
            } else {
                format!("num:{:016x}", n.to_bits())
            }
        }
        Ok(Ok(xml_xpath::eval::model::Value::Text(s))) => format!("str:{}", s),
        Ok(Ok(xml_xpath::eval::model::Value::Boolean(b))) => format!("bool:{}", b),
    }
}

fn fresh_ctx(ns: &[(String, String)]) -> xml_xpath::eval::model::Context {
    let mut ctx = xml_xpath::eval::model::Context::default();
    for (p, u) in ns {
        if p.is_empty() {
            // a default namespace of the caller (what `--setns xmlns=uri` does)
            ctx.add_ns(None, u.as_str());
        } else {
            ctx.add_ns(Some(p.as_str()), u.as_str());
        }
    }
    ctx
}

/// another document that the same context serves between the queries on the document under test
const OTHER: &str = "<r xmlns:p='urn:1' k='1'><e id='a'>t<p:e p:id='b'>u</p:e></e><x/><!--c--><x k='2'><y/>v</x></r>";

/// one of seven edits through the DOM; Some(description) when it was carried out
fn edit(doc: &xml_dom::XmlDocument, which: usize) -> Option<String> {
    use xml_dom::{AsNode, Document, DocumentMut, ElementMut, NamedNodeMap, Node, NodeList, NodeMut};
    let root = doc.document_element().ok()?;
    let elems: Vec<xml_dom::XmlNode> = root.child_nodes().iter().filter(|n| matches!(n, xml_dom::XmlNode::Element(_))).collect();
    match which {
        0 => root.set_attribute("xmlns", "urn:b").ok().map(|_| "default namespace declared on the document element".to_string()),
        1 => root.set_attribute("xmlns:p", "urn:edited").ok().map(|_| "prefix p declared on the document element".to_string()),
        2 => {
            let name = root.as_node().attributes().and_then(|m| m.iter().map(|a| a.node_name()).find(|n| n.starts_with("xmlns")));
            match name {
                Some(n) => root.remove_attribute(&n).ok().map(|_| format!("namespace declaration {} removed from the document element", n)),
                None => root.set_attribute("k", "edited").ok().map(|_| "attribute k set on the document element".to_string()),
            }
        }
        3 => {
            if elems.len() < 2 {
                return None;
            }
            let target = elems.last()?.as_element()?;
            target.append_child(elems[0].clone()).ok().map(|_| "first element child moved into the last one".to_string())
        }
        4 => {
            let first = root.child_nodes().iter().next()?;
            root.remove_child(&first).ok().map(|_| "first child of the document element removed".to_string())
        }
        5 => {
            let e = elems.first()?.as_element()?;
            e.set_attribute("k2", "v").ok().map(|_| "attribute k2 set on the first element child".to_string())
        }
        _ => {
            let c = doc.create_comment("edited").as_node();
            let first = root.child_nodes().iter().next();
            root.insert_before(c, first.as_ref()).ok().map(|_| "comment inserted as first child of the document element".to_string())
        }
    }
}

const FAILING: &[&str] = &[
    "//*[nosuch()]",
    "//*[a][nosuch(1)]/b",
    "//*[count()]",
    "/*/*[position()=1][$v]",
    "//*[.//*[unknown:f()]]",
    "(//*)[string(1,2)]",
    "//*[@*[nosuch()]]",
    "//*[//*[//*[$v]]]",
    "//node()[concat('a')]",
    "//*[last()][id('x')]",
];
const DTD_BATTERY: &[&str] = &[
    "//@*", "//*/@*", "count(//@*)", "name(//*/@*)", "string(//@*)", "//*[@*]", "//node()", "//text()", "string(/)", "//*", "//*/@*[1]", "//*/@*[last()]", "name((//@*)[1])",
    "name((//@*)[last()])", "count(//*[@*])", "//@*[.!='']", "/*/@*", "name(/*/@*)", "concat(name(/*/@*[1]),'|',name(/*/@*[2]))", "//comment()|//processing-instruction()", "//*[1]/@*",
    "sum(//@*)", "//*[@*][1]", "string(//*/@*[2])",
    // string-values of every attribute and of every text node (entity expansion in both contexts, either order)
    "count(//@*[normalize-space(.) != .])", "count(//text()[normalize-space(.) != .])", "count(//@*[contains(., '\t') or contains(., '\n')])", "count(//text()[contains(., '\t') or contains(., '\n')])",
    "string-length(string(/))", "count(//*[. = @*])", "//@*[string-length(.) > 0]", "//text()[string-length(.) > 0]",
];
const PROBES: &[&str] = &["position()", "last()", "position()+last()", "//*[position()=last()]", "count(//*[last()])", "(//*)[last()]", "//*[1]", "string(position())"];

impl Property for C19 {
    fn id(&self) -> &'static str {
        "C19"
    }
    fn rule(&self) -> String {
        "a generated document (reference tree generator, or in a quarter of the cases an abstract document with DTD: defaulted attributes, entities, notations) and a sequence of 2-8 queries issued against ONE document and ONE evaluation context: generated expressions of every result type, queries that fail \
         inside predicates at depth 1-3 (unknown function, wrong arity, variable reference, unbound prefix) and probes that read position()/last() at top level or in filters right \
         after a failure. Oracle: (a) two parses of the same text give equal canonical trees, equal XmlDocument::eq and equal serialisations; (b) the canonical tree and the \
         serialisation of the document are the same before and after the whole sequence; (c) each query's result in the shared context equals its result with a fresh context on a \
         fresh parse of the text (node-sets compared by pre-order positions); (d) repeating a query immediately gives the same answer; (e) the same sequence in a second context that also serves a fixed other document before each query gives the \
         fresh-context answers too; (f) after the sequence the caller makes one of seven DOM edits (namespace declaration set / removed on the document element, subtree moved, child removed, \
         attribute set, comment inserted) and repeats the sequence: the answers equal those of a fresh parse that got the same edit without ever being queried; a third of the callers bind a default namespace. Non-trivial = the sequence contains a failing \
         query followed by a probe of position()/last(), or at least 4 queries of 2 different result types; distinct by (document, sequence)."
            .into()
    }
    fn assumptions(&self) -> Vec<String> {
        vec!["node identity across two parses of the same text is the pre-order position (attributes: position of the element plus the attribute's name)".into()]
    }
    fn cases_per_shard(&self, tier: Tier) -> u32 {
        tier.pick(3000, 60000)
    }
    fn strategy(&self, _tier: Tier) -> BoxedStrategy<Json> {
        // second source: documents with a DTD (defaulted attributes of several names, entities, notations) and a
        // battery of queries that look at attributes and at everything; no reference values are needed here
        let dtd = (proptest::collection::vec(any::<u16>(), 0..200), proptest::collection::vec(any::<u16>(), 0..60), proptest::collection::vec((0usize..4, 0usize..40), 2..8)).prop_map(|(g, c, qs)| {
            let cfg = crate::gen::adoc::DocCfg {
                max_nodes: 14,
                max_depth: 4,
                dtd: true,
                namespaces: true,
                attlist: true,
                entity_refs: true,
                xpath_values: false,
                non_ascii_names: false,
                cr_chars: true,
                external_id: false,
                prolog_misc: true,
                comments_pis: true,
                default_entity_refs: false,
            };
            let (doc, feats) = crate::gen::adoc::build(g, &cfg);
            let r = crate::gen::adoc::render(&doc, c, false);
            let mut queries: Vec<String> = vec![];
            let mut fail_then_probe = false;
            let mut last_failing = false;
            for (kind, pick) in qs {
                match kind {
                    0 => {
                        last_failing = true;
                        queries.push(FAILING[pick % FAILING.len()].to_string());
                    }
                    1 => {
                        if last_failing {
                            fail_then_probe = true;
                        }
                        last_failing = false;
                        queries.push(PROBES[pick % PROBES.len()].to_string());
                    }
                    _ => {
                        last_failing = false;
                        queries.push(DTD_BATTERY[pick % DTD_BATTERY.len()].to_string());
                    }
                }
            }
            let mut labels: Vec<String> = vec!["source:dtd-document".into()];
            if feats.iter().any(|f| *f == "attlist") {
                labels.push("doc-has-attlist".into());
            }
            if fail_then_probe {
                labels.push("failing-query-then-position-probe".to_string());
            }
            json!({"doc": r.text, "queries": queries, "ns": [], "_labels": labels, "_nontrivial": true})
        });
        let plain = (
            proptest::collection::vec(any::<u16>(), 0..160),
            proptest::collection::vec((proptest::collection::vec(any::<u16>(), 0..60), 0usize..8, 0usize..20), 2..8),
        )
            .prop_map(|(t, qs)| {
                let mut rt = Rng::new(t);
                let tree = xgen::gen_tree(&mut rt);
                let text = vp_xref::to_xml(&tree);
                let gen = ExprGen { error_pct: 4, ..ExprGen::default() }.with_vocabulary(&tree);
                let mut queries: Vec<String> = vec![];
                let mut fail_then_probe = false;
                let mut last_failing = false;
                for (genes, kind, pick) in qs {
                    let q = match kind {
                        0 | 1 => {
                            last_failing = true;
                            FAILING[pick % FAILING.len()].to_string()
                        }
                        2 | 3 => {
                            if last_failing {
                                fail_then_probe = true;
                            }
                            last_failing = false;
                            PROBES[pick % PROBES.len()].to_string()
                        }
                        k => {
                            last_failing = false;
                            let mut r = Rng::new(genes);
                            let ast = gen.gen(&mut r, [Ty::NodeSet, Ty::Num, Ty::Str, Ty::Bool][k % 4], 3);
                            match vp_xref::spell_min(&ast) {
                                Ok(s) => s,
                                Err(_) => "1".to_string(),
                            }
                        }
                    };
                    queries.push(q);
                }
                // half of the callers do not bind the xml prefix (neither tool does): a query must not bind it for them
                let mut ns = xgen::expr_ns();
                let mut labels = vec![];
                if text.len() % 2 == 0 {
                    ns.retain(|(p, _)| p != "xml");
                    labels.push("caller-does-not-bind-xml".to_string());
                    // probes that need the binding, to be asked after queries that use xml:* / lang()
                    queries.push(["//*[@xml:lang]", "count(//@xml:*)", "//*[attribute::xml:*]", "//xml:a", "count(//@xml:lang)"][text.len() / 2 % 5].to_string());
                    queries.push(["count(//@xml:lang)", "//*[@xml:lang]", "//xml:a", "count(//@xml:*)", "//*[self::xml:* or nosuch()]"][text.len() / 3 % 5].to_string());
                }
                // a third of the callers bind a default namespace (an empty prefix here)
                if text.len() % 3 == 0 {
                    ns.push((String::new(), ["urn:d", "urn:1", "urn:other"][text.len() / 3 % 3].to_string()));
                    labels.push("caller-binds-default-namespace".to_string());
                }
                if fail_then_probe {
                    labels.push("failing-query-then-position-probe".to_string());
                }
                json!({"doc": text, "queries": queries, "ns": ns.iter().map(|(p, u)| json!([p, u])).collect::<Vec<_>>(),
                       "_labels": labels, "_nontrivial": fail_then_probe || queries.len() >= 4})
            });
        prop_oneof![3 => plain, 1 => dtd].boxed()
    }
    fn fixed_cases(&self, _tier: Tier) -> Vec<Json> {
        crate::engine::regress_cases("C19")
    }
    fn check(&self, case: &Json, obs: &mut Obs) -> Verdict {
        let text = case["doc"].as_str().unwrap_or("");
        let parse = || xml_dom::XmlDocument::from_raw_with_context(text, xml_dom::Context::from_text_expanded(true));
        let (d1, d2) = match (parse(), parse()) {
            (Ok((r1, d1)), Ok((r2, d2))) if r1.is_empty() && r2.is_empty() => (d1, d2),
            (Ok(_), Ok(_)) | (Err(_), Err(_)) => return Verdict::Discard("document-rejected".into()),
            _ => return Verdict::fail("c19.parse-nondeterministic.accept-vs-reject", format!("two parses of {:?} disagree on acceptance", text)),
        };
        macro_rules! fail {
            ($key:expr, $detail:expr) => {{
                let k: String = $key;
                if skip_known("C19", &k) {
                    obs.known_hits.push(k);
                    return Verdict::Pass;
                }
                return Verdict::fail(k, $detail);
            }};
        }
        // (a) two parses
        let c1 = canon::doc_json(&d1);
        if c1 != canon::doc_json(&d2) {
            fail!("c19.parse-nondeterministic.canonical-tree".to_string(), format!("two parses of {:?} give different trees", text));
        }
        if d1 != d2 {
            fail!("c19.parse-nondeterministic.partialeq".to_string(), format!("two parses of {:?} are not equal under XmlDocument::eq", text));
        }
        let s1 = d1.to_string();
        if s1 != d2.to_string() {
            fail!("c19.parse-nondeterministic.serialisation".to_string(), format!("two parses of {:?} print differently", text));
        }
        let ns: Vec<(String, String)> = case["ns"].as_array().map(|a| a.iter().map(|x| (x[0].as_str().unwrap_or("").to_string(), x[1].as_str().unwrap_or("").to_string())).collect()).unwrap_or_default();
        let queries: Vec<&str> = case["queries"].as_array().map(|a| a.iter().filter_map(|x| x.as_str()).collect()).unwrap_or_default();
        let mut shared = fresh_ctx(&ns);
        // a second context that also serves another document between the queries
        let mut shared2 = fresh_ctx(&ns);
        let other = xml_dom::XmlDocument::from_raw_with_context(OTHER, xml_dom::Context::from_text_expanded(true)).ok().map(|(_, d)| d);
        for (i, q) in queries.iter().enumerate() {
            let got = run(&d1, &mut shared, q);
            // (d) immediate repetition
            let again = run(&d1, &mut shared, q);
            if got != again {
                fail!("c19.repeat-differs".to_string(), format!("query #{} {:?} gives {} and then {} [document {:?}; sequence {:?}]", i, q, got, again, text, queries));
            }
            // (c) fresh context on a fresh parse
            let fresh_doc = match parse() {
                Ok((_, d)) => d,
                Err(_) => return Verdict::Discard("document-rejected".into()),
            };
            let mut fc = fresh_ctx(&ns);
            let want = run(&fresh_doc, &mut fc, q);
            if got != want {
                let class = if got.starts_with("num") || want.starts_with("num") { "number" } else if got.starts_with("nodes") { "node-set" } else { "other" };
                fail!(
                    format!("c19.shared-context-differs.{}", class),
                    format!("query #{} {:?} gives {} in the shared context but {} with a fresh context on a fresh parse [document {:?}; earlier queries {:?}]", i, q, got, want, text, &queries[..i])
                );
            }
        }
        // (e) one context for two documents
        if let Some(other) = &other {
            for (i, q) in queries.iter().enumerate() {
                let _ = run(other, &mut shared2, q);
                let got = run(&d1, &mut shared2, q);
                let mut fc = fresh_ctx(&ns);
                let want = run(&d2, &mut fc, q);
                if got != want {
                    fail!(
                        "c19.context-shared-between-documents-differs".to_string(),
                        format!("query #{} {:?} gives {} in a context that served {:?} before, but {} with a fresh context [document {:?}; earlier queries {:?}]", i, q, got, OTHER, want, text, &queries[..i])
                    );
                }
                obs.label("context-served-another-document");
            }
        }
        // (b) the document is unchanged
        if canon::doc_json(&d1) != c1 {
            fail!("c19.query-changed-document.canonical-tree".to_string(), format!("the canonical tree changed after the queries {:?} [document {:?}]", queries, text));
        }
        if d1.to_string() != s1 {
            fail!("c19.query-changed-document.serialisation".to_string(), format!("the serialisation changed after the queries {:?} [document {:?}]", queries, text));
        }
        // (f) the caller edits the document after the queries: from then on it must answer like a document that got the
        // same edit without ever having been queried
        let d3 = match parse() {
            Ok((_, d)) => d,
            Err(_) => return Verdict::Discard("document-rejected".into()),
        };
        let which = (text.len() / 2) % 7;
        let o1 = panics::catch(std::panic::AssertUnwindSafe(|| edit(&d1, which)));
        let o3 = panics::catch(std::panic::AssertUnwindSafe(|| edit(&d3, which)));
        let (o1, o3) = match (o1, o3) {
            (Ok(a), Ok(b)) => (a, b),
            _ => return Verdict::Pass, // a panicking mutator is C13's subject
        };
        if o1 != o3 {
            fail!("c19.edit-outcome-depends-on-earlier-queries".to_string(), format!("edit #{} gives {:?} after the queries {:?} but {:?} on a document that was never queried [document {:?}]", which, o1, queries, o3, text));
        }
        if o1.is_some() {
            obs.label("edit-after-queries");
            let p1 = d1.to_string();
            if p1 != d3.to_string() {
                fail!("c19.edit-result-depends-on-earlier-queries".to_string(), format!("after edit #{} the queried document prints {:?}, the never-queried one {:?} [queries {:?}]", which, p1, d3.to_string(), queries));
            }
            for (i, q) in queries.iter().enumerate() {
                let got = run(&d1, &mut shared, q);
                let mut fc = fresh_ctx(&ns);
                let want = run(&d3, &mut fc, q);
                if got != want {
                    fail!(
                        "c19.query-after-edit-depends-on-earlier-queries".to_string(),
                        format!("after edit #{} ({}) query #{} {:?} gives {} on the document that was queried before, but {} on a document that got the same edit without earlier queries [document {:?}; earlier queries {:?}]", which, o1.clone().unwrap_or_default(), i, q, got, want, text, queries)
                    );
                }
            }
        }
        Verdict::Pass
    }
    fn floors(&self, _tier: Tier) -> Vec<(&'static str, f64)> {
        vec![("failing-query-then-position-probe", 0.05)]
    }
}
