//! C18 — character classes and name syntax match XML 1.0 5th Ed. for every code point.
//!
//! Part 1 (exhaustive): every Unicode scalar value x the five public predicates against
//! independently transcribed interval tables.
//! Part 2 (generated + enumerated): short strings over class representatives used as element name,
//! attribute name, PI target, entity name and encoding name in a one-element document.

use crate::engine::{Json, Obs, Property, Tier, Verdict};
use crate::oracle::chars;
use proptest::prelude::*;
use serde_json::{json, Map};

pub struct C18;

/// class representatives: NameStartChar, NameChar-only, colon, non-name
pub const REPS: &[char] = &[
    'a', '_', 'Z', '\u{C0}', '\u{2C00}', '\u{2FEF}', '\u{2EFF}', '\u{10000}', '\u{EFFFF}', // NameStartChar
    '1', '-', '.', '\u{B7}', '\u{300}', '\u{203F}', // NameChar only
    ':', // colon
    '!', '\u{D7}', '\u{2FF0}', '\u{37E}', '\u{FFFE}', '\u{F0000}', '\u{2190}', '*', // not name characters
];

pub const ENC_REPS: &[char] = &['U', 'z', '8', '.', '_', '-', ':', '+', '\u{E9}', '!', '\u{FF21}'];

const USAGES: &[&str] = &["element", "attribute", "pi-target", "entity", "encoding"];
/// names inside the declarations of an internal subset (generated and enumerated like USAGES[..4]; not swept)
const DECL_USAGES: &[&str] = &["attlist-attribute", "attlist-element", "element-decl", "notation", "doctype-name"];

fn class_of(c: char) -> char {
    if c == ':' {
        ':'
    } else if chars::is_name_start(c) {
        'S'
    } else if chars::is_name_char(c) {
        'C'
    } else {
        'X'
    }
}

fn document_for(usage: &str, s: &str) -> String {
    match usage {
        "element" => match s.split_once(':') {
            Some((p, _)) if !p.is_empty() && !p.contains(':') => format!("<{} xmlns:{}=\"u\"/>", s, p),
            _ => format!("<{}/>", s),
        },
        "attribute" => match s.split_once(':') {
            Some((p, _)) if !p.is_empty() && !p.contains(':') => format!("<e xmlns:{}=\"u\" {}=\"v\"/>", p, s),
            _ => format!("<e {}=\"v\"/>", s),
        },
        "pi-target" => format!("<?{} d?><e/>", s),
        "entity" => format!("<!DOCTYPE e [<!ENTITY {} \"v\">]><e>&{};</e>", s, s),
        "encoding" => format!("<?xml version=\"1.0\" encoding=\"{}\"?><e/>", s),
        "attlist-attribute" => format!("<!DOCTYPE e [<!ATTLIST e {} CDATA #IMPLIED>]><e/>", s),
        "attlist-element" => format!("<!DOCTYPE e [<!ATTLIST {} a CDATA #IMPLIED>]><e/>", s),
        "element-decl" => format!("<!DOCTYPE e [<!ELEMENT {} ANY>]><e/>", s),
        "notation" => format!("<!DOCTYPE e [<!NOTATION {} SYSTEM \"s\">]><e/>", s),
        "doctype-name" => format!("<!DOCTYPE {}><e/>", s),
        _ => String::new(),
    }
}

/// Some(expected accept) or None when the candidate is not judged
fn expected(usage: &str, s: &str) -> Option<bool> {
    match usage {
        "element" | "attribute" | "attlist-attribute" | "attlist-element" | "element-decl" | "doctype-name" => Some(chars::is_qname(s)),
        "pi-target" | "entity" | "notation" => {
            if s.contains(':') {
                None // XML 1.0 says Name, Namespaces says NCName: not judged
            } else {
                Some(chars::is_name(s))
            }
        }
        "encoding" => Some(chars::is_enc_name(s)),
        _ => None,
    }
}

fn accepted(text: &str) -> bool {
    match xml_dom::XmlDocument::from_raw(text) {
        Ok((rest, _doc)) => rest.is_empty(),
        Err(_) => false,
    }
}

fn name_case(usage: &str, s: &str) -> Json {
    let nontrivial = !s.is_empty() && s.chars().any(|c| !c.is_ascii_alphabetic());
    let pattern: String = s.chars().map(class_of).collect();
    json!({"kind": "name", "usage": usage, "s": s, "_nontrivial": nontrivial,
           "_labels": [format!("usage:{}", usage), format!("len:{}", s.chars().count()), format!("first:{}", pattern.chars().next().unwrap_or('0'))]})
}

const FACTORY_ORDERS: &[[usize; 3]] = &[[0, 1, 2], [0, 2, 1], [1, 0, 2], [1, 2, 0], [2, 0, 1], [2, 1, 0]];

/// the candidate handed to the three name-taking factories of ONE document, in a given order, twice over
fn factory_case(s: &str, order: usize) -> Json {
    let nontrivial = !s.is_empty() && s.chars().any(|c| !c.is_ascii_alphabetic());
    json!({"kind": "factory", "s": s, "order": order % FACTORY_ORDERS.len(), "_nontrivial": nontrivial,
           "_labels": ["usage:factories", format!("len:{}", s.chars().count())]})
}

fn enumerate(reps: &[char], maxlen: usize) -> Vec<String> {
    let mut out = vec![String::new()];
    let mut frontier = vec![String::new()];
    for _ in 0..maxlen {
        let mut next = vec![];
        for f in &frontier {
            for c in reps {
                let mut s = f.clone();
                s.push(*c);
                next.push(s);
            }
        }
        out.extend(next.iter().cloned());
        frontier = next;
    }
    out
}

fn check_table(pred: &str) -> Verdict {
    let (f, oracle): (fn(char) -> bool, fn(char) -> bool) = match pred {
        "is_char" => (xml_nom::xmlchar::is_char, chars::is_char),
        "is_name_start_char" => (xml_nom::xmlchar::is_name_start_char, chars::is_name_start),
        "is_name_char" => (xml_nom::xmlchar::is_name_char, chars::is_name_char),
        "is_pubid_char" => (xml_nom::xmlchar::is_pubid_char, chars::is_pubid),
        "is_enc_name" => (xml_nom::xmlchar::is_enc_name, chars::is_enc_tail),
        _ => return Verdict::Discard("unknown predicate".into()),
    };
    // maximal mismatch intervals
    let mut intervals: Vec<(u32, u32, bool)> = vec![]; // lo, hi, library answer
    let mut cur: Option<(u32, u32, bool)> = None;
    for cp in 0u32..=0x10FFFF {
        let c = match char::from_u32(cp) {
            Some(c) => c,
            None => continue, // surrogates are not scalar values
        };
        let got = f(c);
        let want = oracle(c);
        if got != want {
            match &mut cur {
                Some((_, hi, g)) if *hi + 1 == cp && *g == got => *hi = cp,
                _ => {
                    if let Some(iv) = cur.take() {
                        intervals.push(iv);
                    }
                    cur = Some((cp, cp, got));
                }
            }
        }
    }
    if let Some(iv) = cur.take() {
        intervals.push(iv);
    }
    if intervals.is_empty() {
        Verdict::Pass
    } else {
        let (lo, hi, got) = intervals[0];
        let detail: Vec<String> = intervals
            .iter()
            .take(8)
            .map(|(lo, hi, got)| format!("U+{:04X}..U+{:04X} library says {} (production says {})", lo, hi, got, !got))
            .collect();
        Verdict::fail(
            format!("c18.table.{}.U+{:04X}-U+{:04X}.{}", pred, lo, hi, if got { "extra" } else { "missing" }),
            format!("{} mismatch interval(s): {}", intervals.len(), detail.join("; ")),
        )
    }
}

impl Property for C18 {
    fn id(&self) -> &'static str {
        "C18"
    }

    fn rule(&self) -> String {
        "part 1: one case per public predicate (is_char, is_name_start_char, is_name_char, is_pubid_char, is_enc_name), each \
         enumerating all 1,112,064 Unicode scalar values against interval tables transcribed from productions [2],[4],[4a],[13],[81]; \
         part 2: candidate names = all strings up to length 2 (quick) / 3 (thorough) over class representatives, plus proptest-generated \
         strings of length 0-5, each placed as element name, attribute name, PI target, entity name (declaration + reference) or encoding \
         name of a one-element document, and as attribute name / element name of an ATTLIST declaration, element name of an ELEMENT declaration, notation name and \
         document type name; expected accept iff QName / Name / EncName; part 2b: the same candidates handed to create_element, \
         create_attribute and create_processing_instruction of ONE document in each of the 6 orders, twice over (a verdict must not depend on earlier calls); Non-trivial = candidate is non-empty and not purely \
         ASCII letters (it contains a NameChar-only, colon, non-name or non-ASCII character); distinct by (usage, string)."
            .into()
    }

    fn assumptions(&self) -> Vec<String> {
        vec![
            "interval tables in harness/src/oracle/chars.rs are a faithful transcription of XML 1.0 5th Ed. productions [2],[4],[4a],[13],[81]".into(),
            "is_enc_name is compared with the tail class of [81] ([A-Za-z0-9._-]); the leading [A-Za-z] is checked through the encoding-name documents".into(),
            "PI targets and entity names containing ':' are not judged (XML 1.0 says Name, Namespaces in XML says NCName)".into(),
            "acceptance is observed through xml_dom::XmlDocument::from_raw returning Ok with empty rest".into(),
        ]
    }

    fn cases_per_shard(&self, tier: Tier) -> u32 {
        tier.pick(2000, 60000)
    }

    fn strategy(&self, _tier: Tier) -> BoxedStrategy<Json> {
        let name = (0usize..4, proptest::collection::vec(any::<u16>(), 0..6)).prop_map(|(u, idx)| {
            let usage = USAGES[u];
            let s: String = idx.iter().map(|i| REPS[crate::engine::pick_index(*i, REPS.len())]).collect();
            name_case(usage, &s)
        });
        let enc = proptest::collection::vec(any::<u16>(), 0..6).prop_map(|idx| {
            let s: String = idx.iter().map(|i| ENC_REPS[crate::engine::pick_index(*i, ENC_REPS.len())]).collect();
            name_case("encoding", &s)
        });
        let fac = (0usize..6, proptest::collection::vec(any::<u16>(), 0..5)).prop_map(|(o, idx)| {
            let s: String = idx.iter().map(|i| REPS[crate::engine::pick_index(*i, REPS.len())]).collect();
            factory_case(&s, o)
        });
        let decl = (0usize..DECL_USAGES.len(), proptest::collection::vec(any::<u16>(), 0..6)).prop_map(|(u, idx)| {
            let s: String = idx.iter().map(|i| REPS[crate::engine::pick_index(*i, REPS.len())]).collect();
            name_case(DECL_USAGES[u], &s)
        });
        prop_oneof![5 => name, 1 => enc, 2 => fac, 2 => decl].boxed()
    }

    fn fixed_cases(&self, tier: Tier) -> Vec<Json> {
        let mut v = vec![];
        for pred in ["is_char", "is_name_start_char", "is_name_char", "is_pubid_char", "is_enc_name"] {
            v.push(json!({"kind": "table", "pred": pred, "_nontrivial": true, "_labels": ["table"]}));
        }
        let maxlen = tier.pick(2, 3);
        for usage in &USAGES[..4] {
            for s in enumerate(REPS, maxlen) {
                v.push(name_case(usage, &s));
            }
        }
        for s in enumerate(ENC_REPS, maxlen) {
            v.push(name_case("encoding", &s));
        }
        for usage in DECL_USAGES {
            for s in enumerate(REPS, 2) {
                v.push(name_case(usage, &s));
            }
            for s in ["a:b:c", "a::b", ":a:", "xmlns", "xmlns:p", "xmlns:", "xmlns:a:b", "xml:lang", "p:xmlns"] {
                v.push(name_case(usage, s));
            }
        }
        // names that merely begin with a reserved word or with the namespace-declaration prefix are ordinary names
        for usage in &USAGES[..4] {
            for s in ["xmlnsfoo", "xmlns.a", "xmlns-", "xmlns1", "xmlnsx:a", "a:xmlnsx", "xmlx", "xml-a", "xmla", "xmlns\u{e9}", "Xmlns", "xml:a1", "x", "xm", "xmln"] {
                v.push(name_case(usage, s));
            }
        }
        // part 2b: the same candidates through the DOM factories of one document, in every order of the three calls
        for s in enumerate(REPS, 2) {
            for o in 0..FACTORY_ORDERS.len() {
                v.push(factory_case(&s, o));
            }
        }
        for s in ["a:b:c", "a::b", ":a:", "xmlns", "xmlns:p", "xml", "XML", "p:xml", "amp;", "amp;amp", "lt;x", "e;", "e;e", "e; ", "e;<b/>", "#38", "#x26", "&e;", "e ", " e", "gt;gt;", "quot;'", "apos;a"] {
            for o in 0..FACTORY_ORDERS.len() {
                v.push(factory_case(s, o));
            }
        }
        // part 3: every scalar value at the first and at an inner position of a name, in every usage
        for usage in &USAGES[..4] {
            for pos in ["first", "inner"] {
                let mut lo = 0u32;
                while lo <= 0x10FFFF {
                    let hi = (lo + 0x1FFF).min(0x10FFFF);
                    v.push(json!({"kind": "sweep", "usage": usage, "pos": pos, "from": lo, "to": hi, "_nontrivial": true, "_labels": ["sweep"]}));
                    lo = hi + 1;
                }
            }
        }
        v.extend(crate::engine::regress_cases("C18"));
        v
    }

    fn check(&self, case: &Json, obs: &mut Obs) -> Verdict {
        match case["kind"].as_str().unwrap_or("") {
            "table" => check_table(case["pred"].as_str().unwrap_or("")),
            "name" => {
                let usage = case["usage"].as_str().unwrap_or("");
                let s = case["s"].as_str().unwrap_or("");
                let exp = match expected(usage, s) {
                    Some(e) => e,
                    None => return Verdict::Discard("colon-in-name-vs-ncname".into()),
                };
                let text = document_for(usage, s);
                let got = accepted(&text);
                obs.label(if exp { "expect:accept" } else { "expect:reject" });
                if got == exp {
                    Verdict::Pass
                } else {
                    let pattern: String = s.chars().map(class_of).collect();
                    // the reason, not the whole pattern, identifies the root cause
                    let reason = if !got {
                        format!("valid-{}", pattern)
                    } else if usage == "encoding" {
                        if s.is_empty() { "empty".to_string() }
                        else if !s.chars().next().unwrap().is_ascii_alphabetic() { "first-char-not-letter".to_string() }
                        else { "bad-tail-char".to_string() }
                    } else if pattern.is_empty() {
                        "empty".to_string()
                    } else if pattern.contains('X') {
                        "non-name-char".to_string()
                    } else if pattern.starts_with('C') || pattern.contains(":C") {
                        "first-char-namechar-only".to_string()
                    } else {
                        "colon-structure".to_string()
                    };
                    // notation names are read by the same parser function as entity names: one root cause, one key
                    let key_usage = if usage == "notation" && got && reason == "first-char-namechar-only" { "entity" } else { usage };
                    Verdict::fail(
                        format!("c18.name.{}.{}.{}", key_usage, if got { "accepted" } else { "rejected" }, reason),
                        format!("document {:?}: candidate {:?} (code points {}) is {} but the production says {}", text, s,
                            s.chars().map(|c| format!("U+{:04X}", c as u32)).collect::<Vec<_>>().join(" "),
                            if got { "accepted" } else { "rejected" }, if exp { "accept" } else { "reject" }),
                    )
                }
            }
            "factory" => {
                use xml_dom::DocumentMut;
                let s = case["s"].as_str().unwrap_or("");
                let order = FACTORY_ORDERS[case["order"].as_u64().unwrap_or(0) as usize % FACTORY_ORDERS.len()];
                let doc = match xml_dom::XmlDocument::from_raw("<!DOCTYPE e [<!ENTITY e \"v\">]><e/>") {
                    Ok((_, d)) => d,
                    Err(_) => return Verdict::Discard("start-document-rejected".into()),
                };
                // an entity reference is made from a Name: whatever is not one (a declared name followed by ';' and more,
                // a character reference) must be refused; a Name is refused or not depending on the declarations
                if !chars::is_name(s) {
                    let got = crate::engine::panics::catch(std::panic::AssertUnwindSafe(|| doc.create_entity_reference(s).is_ok()));
                    match got {
                        Err(_) => return Verdict::fail("c18.factory.entity-reference.panic".to_string(), format!("create_entity_reference panics on {:?}", s)),
                        Ok(true) => return Verdict::fail("c18.factory.entity-reference.accepted.not-a-name".to_string(), format!("create_entity_reference accepts {:?}, which is not a Name", s)),
                        Ok(false) => obs.label("expect:reject"),
                    }
                }
                // what one call decides must not depend on the calls made before it: two rounds on one document
                for round in 0..2 {
                    for &k in order.iter() {
                        let (usage, got) = match k {
                            0 => ("element", crate::engine::panics::catch(std::panic::AssertUnwindSafe(|| doc.create_element(s).is_ok()))),
                            1 => ("attribute", crate::engine::panics::catch(std::panic::AssertUnwindSafe(|| doc.create_attribute(s).is_ok()))),
                            _ => ("pi-target", crate::engine::panics::catch(std::panic::AssertUnwindSafe(|| doc.create_processing_instruction(s, "d").is_ok()))),
                        };
                        let got = match got {
                            Ok(g) => g,
                            Err(_) => return Verdict::fail(format!("c18.factory.{}.panic", usage), format!("the {} factory panics on {:?}", usage, s)),
                        };
                        let exp = match expected(usage, s) {
                            Some(e) if usage == "pi-target" => e && !s.eq_ignore_ascii_case("xml"),
                            Some(e) => e,
                            None => continue,
                        };
                        obs.label(if exp { "expect:accept" } else { "expect:reject" });
                        if got != exp {
                            let pattern: String = s.chars().map(class_of).collect();
                            let reason = if !got {
                                format!("valid-{}", pattern)
                            } else if pattern.is_empty() {
                                "empty".to_string()
                            } else if pattern.contains('X') {
                                "non-name-char".to_string()
                            } else if pattern.starts_with('C') || pattern.contains(":C") {
                                "first-char-namechar-only".to_string()
                            } else if s.eq_ignore_ascii_case("xml") {
                                "reserved-target".to_string()
                            } else {
                                "colon-structure".to_string()
                            };
                            // the PI factory parses its target with the parser's name(): one root cause with the document form
                            let key = if usage == "pi-target" && got && reason == "first-char-namechar-only" {
                                "c18.name.pi-target.accepted.first-char-namechar-only".to_string()
                            } else {
                                format!("c18.factory.{}.{}.{}", usage, if got { "accepted" } else { "rejected" }, reason)
                            };
                            if crate::engine::skip_known("C18", &key) {
                                if !obs.known_hits.contains(&key) {
                                    obs.known_hits.push(key);
                                }
                                continue;
                            }
                            return Verdict::fail(
                                key,
                                format!("one document, factories called in the order {:?} (0 element, 1 attribute, 2 processing instruction), round {}: the {} factory {} {:?} (code points {}) but the production says {}",
                                    order, round + 1, usage, if got { "accepts" } else { "refuses" }, s,
                                    s.chars().map(|c| format!("U+{:04X}", c as u32)).collect::<Vec<_>>().join(" "), if exp { "accept" } else { "reject" }),
                            );
                        }
                    }
                }
                Verdict::Pass
            }
            "sweep" => {
                let usage = case["usage"].as_str().unwrap_or("");
                let pos = case["pos"].as_str().unwrap_or("");
                let (lo, hi) = (case["from"].as_u64().unwrap_or(0) as u32, case["to"].as_u64().unwrap_or(0) as u32);
                let mut bad: std::collections::BTreeMap<String, Vec<u32>> = std::collections::BTreeMap::new();
                for cp in lo..=hi {
                    let c = match char::from_u32(cp) {
                        Some(c) => c,
                        None => continue,
                    };
                    if matches!(c, ' ' | '\t' | '\n' | '\r') {
                        continue; // S separates tokens: "a b" is not one candidate name
                    }
                    let s: String = if pos == "first" { format!("{}a", c) } else { format!("a{}b", c) };
                    let exp = match expected(usage, &s) {
                        Some(e) => e,
                        None => continue,
                    };
                    let got = accepted(&document_for(usage, &s));
                    if got != exp {
                        let pattern: String = s.chars().map(class_of).collect();
                        let reason = if !got {
                            format!("valid-{}", pattern)
                        } else if pattern.contains('X') {
                            "non-name-char".to_string()
                        } else if pattern.starts_with('C') || pattern.contains(":C") {
                            "first-char-namechar-only".to_string()
                        } else {
                            "colon-structure".to_string()
                        };
                        bad.entry(format!("c18.name.{}.{}.{}", usage, if got { "accepted" } else { "rejected" }, reason)).or_default().push(cp);
                    }
                }
                for (k, cps) in bad {
                    if crate::engine::skip_known("C18", &k) {
                        if !obs.known_hits.contains(&k) {
                            obs.known_hits.push(k);
                        }
                        continue;
                    }
                    let shown: Vec<String> = cps.iter().take(8).map(|c| format!("U+{:04X}", c)).collect();
                    return Verdict::fail(k, format!("{} name with the code point at the {} position: {} code point(s) in U+{:04X}..U+{:04X} decided wrongly, e.g. {}", usage, pos, cps.len(), lo, hi, shown.join(" ")));
                }
                Verdict::Pass
            }
            _ => Verdict::Discard("unknown case kind".into()),
        }
    }

    fn floors(&self, _tier: Tier) -> Vec<(&'static str, f64)> {
        vec![("expect:accept", 0.02), ("expect:reject", 0.2)]
    }

    fn extra_coverage(&self, _tier: Tier) -> Map<String, Json> {
        let mut m = Map::new();
        m.insert("exhaustive".into(), json!(false));
        m.insert(
            "exhaustive_part".into(),
            json!("the five predicate tables are enumerated over all 1,112,064 Unicode scalar values (surrogates are not representable as char); names of the forms <c>a and a<c>b are decided for every scalar value <c> in every usage; other names are enumerated up to length 2/3 over class representatives and sampled beyond"),
        );
        m
    }
}
