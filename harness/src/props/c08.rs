//! C08 — equivalent XPath spellings evaluate identically; precedence per grammar (metamorphic).

use crate::engine::{panics, skip_known, Json, Obs, Property, Tier, Verdict};
use crate::gen::xgen::{self, ExprGen, Rng, Ty};
use crate::oracle::domindex;
use crate::props::c05::features;
use proptest::prelude::*;
use serde_json::json;

pub struct C08;

/// result in a comparable form (same document instance: node identity = id + class)
pub fn eval_repr(doc: &xml_dom::XmlDocument, expr: &str, ns: &[(String, String)]) -> String {
    let r = panics::catch(|| {
        let mut ctx = xml_xpath::eval::model::Context::default();
        for (p, u) in ns {
            ctx.add_ns(Some(p.as_str()), u.as_str());
        }
        xml_xpath::query(doc.clone(), expr, &mut ctx).map_err(|e| format!("{:?}", e))
    });
    match r {
        Err(pi) => format!("panic:{}", pi.key()),
        Ok(Err(e)) => format!("error:{}", e.chars().take_while(|c| c.is_ascii_alphanumeric() || *c == '(').collect::<String>()),
        Ok(Ok(xml_xpath::eval::model::Value::Node(v))) => {
            use xml_dom::Node;
            format!("nodes:{:?}", v.iter().map(|n| if let xml_dom::XmlNode::Namespace(_) = n { format!("ns:{}", n.node_name()) } else { format!("{}/{}", n.id(), domindex::class_of(n)) }).collect::<Vec<_>>())
        }
        Ok(Ok(xml_xpath::eval::model::Value::Number(n))) => {
            if n.is_nan() {
                "num:NaN".to_string()
            } else {
                format!("num:{:016x}", n.to_bits())
            }
        }
        Ok(Ok(xml_xpath::eval::model::Value::Text(s))) => format!("str:{}", s),
        Ok(Ok(xml_xpath::eval::model::Value::Boolean(b))) => format!("bool:{}", b),
    }
}

impl Property for C08 {
    fn id(&self) -> &'static str {
        "C08"
    }
    fn rule(&self) -> String {
        "a typed expression AST (depth <= 5; names include div, mod, and, or, text, node, comment as element names) from a proptest gene vector, spelled three ways: the minimal \
         canonical spelling (abbreviations, minimal parentheses from the precedence table), a spelling with random choices at every opportunity (unabbreviated vs abbreviated steps: \
         //, ., .., @, omitted child::; [k] vs [position()=k]; optional white space incl. tab and newline between any two tokens; redundant parentheses around sub-expressions; \
         quote style; number formats) and the fully parenthesised unabbreviated spelling. Oracle: purely metamorphic — all three must parse completely and give equal results on the \
         same document (node-sets by node identity in order, numbers bit-exactly, strings and booleans exactly). Non-trivial = the spellings differ as strings and the expression \
         contains an abbreviation, two operators of different precedence or a left-nested pair of equal precedence; distinct by (document, spellings)."
            .into()
    }
    fn assumptions(&self) -> Vec<String> {
        vec![
            "the spelling function (oracles/xref/src/spell.rs) emits only spellings XPath 1.0 defines as equivalent; it is round-trip tested against that crate's own parser (30,000 ASTs x 5 spellings)".into(),
            "redundant parentheses are limited by the generator's depth; deep nesting is C06's family".into(),
        ]
    }
    fn cases_per_shard(&self, tier: Tier) -> u32 {
        tier.pick(10000, 200000)
    }
    fn strategy(&self, _tier: Tier) -> BoxedStrategy<Json> {
        (
            proptest::collection::vec(any::<u16>(), 0..160),
            proptest::collection::vec(any::<u16>(), 0..120),
            proptest::collection::vec(any::<u8>(), 1..60),
            0usize..5,
            1u32..6,
        )
            .prop_map(|(t, e, s, ty, depth)| {
                let mut rt = Rng::new(t);
                let tree = xgen::gen_tree(&mut rt);
                let text = vp_xref::to_xml(&tree);
                let gen = ExprGen { error_pct: 0, ..ExprGen::default() }.with_vocabulary(&tree);
                let mut re = Rng::new(e);
                let ast = gen.gen(&mut re, [Ty::NodeSet, Ty::NodeSet, Ty::Num, Ty::Str, Ty::Bool][ty], depth);
                let mut ch = vp_xref::Choices::new(s).with_position_rewrite(true);
                let (s0, s1, s2) = match (vp_xref::spell_min(&ast), vp_xref::spell(&ast, &mut ch), vp_xref::spell_full(&ast)) {
                    (Ok(a), Ok(b), Ok(c)) => (a, b, c),
                    _ => return json!({"_discard": "unspellable"}),
                };
                let mut feats = vec![];
                features(&ast, &mut feats);
                let nops = feats.iter().filter(|f| f.starts_with("op:")).count();
                let abbreviable = feats.iter().any(|f| matches!(f.as_str(), "axis:child" | "axis:attribute" | "axis:descendant-or-self" | "axis:self" | "axis:parent" | "step-predicate"));
                let nontrivial = s0 != s1 && (abbreviable || nops >= 2);
                let ns = xgen::expr_ns();
                json!({"doc": text, "spellings": [s0, s1, s2], "ns": ns.iter().map(|(p, u)| json!([p, u])).collect::<Vec<_>>(),
                       "features": feats, "_labels": feats, "_nontrivial": nontrivial})
            })
            .boxed()
    }
    fn fixed_cases(&self, _tier: Tier) -> Vec<Json> {
        crate::engine::regress_cases("C08")
    }
    fn check(&self, case: &Json, obs: &mut Obs) -> Verdict {
        let text = case["doc"].as_str().unwrap_or("");
        let doc = match xml_dom::XmlDocument::from_raw_with_context(text, xml_dom::Context::from_text_expanded(true)) {
            Ok((rest, d)) if rest.is_empty() => d,
            _ => return Verdict::Discard("document-rejected".into()),
        };
        let ns: Vec<(String, String)> = case["ns"].as_array().map(|a| a.iter().map(|x| (x[0].as_str().unwrap_or("").to_string(), x[1].as_str().unwrap_or("").to_string())).collect()).unwrap_or_default();
        let sp: Vec<&str> = case["spellings"].as_array().map(|a| a.iter().filter_map(|x| x.as_str()).collect()).unwrap_or_default();
        if sp.len() < 2 {
            return Verdict::Discard("malformed-case".into());
        }
        let r0 = eval_repr(&doc, sp[0], &ns);
        for (i, s) in sp.iter().enumerate().skip(1) {
            let r = eval_repr(&doc, s, &ns);
            if r != r0 {
                let kind = if i == 1 { "random-spelling" } else { "full-spelling" };
                let class = if r.starts_with("error:ExprSyntax") || r.starts_with("error:ExprRemain") || r0.starts_with("error:ExprSyntax") || r0.starts_with("error:ExprRemain") {
                    "one-spelling-does-not-parse"
                } else if r.starts_with("panic") || r0.starts_with("panic") {
                    "panic"
                } else {
                    "different-result"
                };
                let key = format!("c08.{}.{}", kind, class);
                if skip_known("C08", &key) {
                    obs.known_hits.push(key);
                    return Verdict::Pass;
                }
                return Verdict::fail(key, format!("{:?} gives {} but {:?} gives {} on {:?}", sp[0], r0.chars().take(120).collect::<String>(), s, r.chars().take(120).collect::<String>(), text));
            }
        }
        Verdict::Pass
    }
}
