//! C14 — document order survives edits: query(edited document) = query(re-parsed copy).

use crate::engine::{panics, skip_known, Json, Obs, Property, Tier, Verdict};
use crate::gen::genes::Genes;
use crate::gen::hist::{self, HistCfg, Outcome, Pool};
use proptest::prelude::*;
use std::collections::BTreeMap;
use xml_dom::{AsNode, Document, NamedNodeMap, Node, NodeList, XmlDocument, XmlNode};

pub struct C14;

pub const QUERIES: &[&str] = &[
    "//node()",
    "//*",
    "//@*",
    "//text()",
    "//comment()|//processing-instruction()",
    "/*/node()[last()]",
    "(//node())[2]",
    "(//node())[last()]",
    "//*[1]",
    "//*[last()]/@*",
    "//@*|//*",
    "//b|//a|//e",
    "//e|//a|//b",
    "/descendant::node()[3]",
    "//node()/..",
    "//*/preceding-sibling::node()[1]",
    "//*/following-sibling::node()[1]",
    "//*/ancestor-or-self::*[1]",
    "//text()/parent::*",
    "//*[@*][1]",
    "(//*|//text())[position()<4]",
    "//*/node()[2]",
    "/*/*/*|/*/*",
    "//node()[not(self::*)]",
    // namespace nodes take their place from the declaration (an element precedes its namespace and attribute nodes, these precede its children)
    "//namespace::*",
    "//namespace::*|//*",
    "//*|//@*|//namespace::*",
    "//*/namespace::*[1]|//text()",
];

fn is_texty(n: &XmlNode) -> bool {
    matches!(n, XmlNode::Text(_) | XmlNode::CData(_) | XmlNode::EntityReference(_) | XmlNode::ExpandedText(_))
}

/// descriptors: node id -> path in the *merged* tree ("/2/0/@k"); adjacent text-ish children share one position
pub fn describe(doc: &XmlDocument) -> BTreeMap<(usize, bool), String> {
    fn walk(n: &XmlNode, path: &str, out: &mut BTreeMap<(usize, bool), String>, depth: usize) {
        if depth > 3000 {
            return;
        }
        out.insert((n.id(), matches!(n, XmlNode::Attribute(_))), if path.is_empty() { "/".to_string() } else { path.to_string() });
        if let Some(attrs) = n.attributes() {
            for a in attrs.iter() {
                let an = a.as_node();
                if an.id() != 0 {
                    out.insert((an.id(), true), format!("{}/@{}", path, a.node_name()));
                    // attribute children (text pieces of the value)
                    for (i, k) in an.child_nodes().iter().enumerate() {
                        out.insert((k.id(), false), format!("{}/@{}/#{}", path, a.node_name(), i));
                    }
                }
            }
        }
        let mut pos = 0usize;
        let mut prev_text = false;
        for k in n.child_nodes().iter() {
            if is_texty(&k) {
                pos += 1;
                prev_text = true;
                out.insert((k.id(), false), format!("{}/{}t", path, pos));
            } else {
                pos += 1;
                prev_text = false;
                walk(&k, &format!("{}/{}", path, pos), out, depth + 1);
            }
        }
    }
    let mut m = BTreeMap::new();
    walk(&doc.as_node(), "", &mut m, 0);
    m
}

pub fn has_adjacent_or_empty_text(doc: &XmlDocument) -> bool {
    let mut stack: Vec<XmlNode> = vec![doc.as_node()];
    let mut n_visited = 0;
    while let Some(n) = stack.pop() {
        n_visited += 1;
        if n_visited > 20000 {
            return true;
        }
        let mut prev_text = false;
        for k in n.child_nodes().iter() {
            if is_texty(&k) {
                let empty = match &k {
                    XmlNode::EntityReference(r) => r.value().map(|v| v.is_empty()).unwrap_or(true),
                    other => hist::with_chardata(other, |c| c.data().map(|d| d.is_empty()).unwrap_or(true)).unwrap_or(false),
                };
                // in the raw view text, CDATA and references are separate nodes in the re-parsed copy too,
                // but two adjacent *text* nodes merge
                let plain = matches!(k, XmlNode::Text(_));
                // a text node that holds "]]>" (reachable by deleting from "] ]>") is printed with a reference, which is
                // a node of its own in the re-parsed copy's raw view
                let needs_reference = plain && hist::with_chardata(&k, |c| c.data().map(|d| d.contains("]]>")).unwrap_or(false)).unwrap_or(false);
                if empty || (prev_text && plain) || needs_reference {
                    return true;
                }
                prev_text = plain;
            } else {
                prev_text = false;
                stack.push(k);
            }
        }
        if let Some(attrs) = n.attributes() {
            for a in attrs.iter() {
                let mut prev = false;
                for k in a.as_node().child_nodes().iter() {
                    let plain = matches!(k, XmlNode::Text(_));
                    if prev && plain {
                        return true;
                    }
                    prev = plain;
                }
            }
        }
    }
    false
}

#[derive(Debug, PartialEq)]
pub enum QOut {
    Nodes(Vec<String>),
    Scalar(String),
    Err,
    Panic,
}

pub fn run_query(doc: &XmlDocument, q: &str) -> QOut {
    let mut ctx = xml_xpath::eval::model::Context::default();
    run_query_in(doc, q, &mut ctx)
}

/// the same with a caller-owned evaluation context (one context may serve a whole edit history)
pub fn run_query_in(doc: &XmlDocument, q: &str, ctx: &mut xml_xpath::eval::model::Context) -> QOut {
    let desc = describe(doc);
    let r = panics::catch(std::panic::AssertUnwindSafe(|| xml_xpath::query(doc.clone(), q, ctx).map_err(|_| ())));
    match r {
        Err(_) => QOut::Panic,
        Ok(Err(_)) => QOut::Err,
        Ok(Ok(xml_xpath::eval::model::Value::Node(ns))) => {
            let mut v: Vec<String> = vec![];
            for n in ns {
                if let XmlNode::Namespace(_) = &n {
                    // one shared node per declaration (open C05 finding): named by what it declares, which is the same in both documents
                    v.push(format!("ns:{}={}", n.node_name(), n.node_value().ok().flatten().unwrap_or_default()));
                    continue;
                }
                let d = desc.get(&(n.id(), matches!(n, XmlNode::Attribute(_)))).cloned().unwrap_or_else(|| format!("?{}#{}", hist::kind_name(&n), n.id()));
                // adjacent text pieces of one merged text node collapse
                v.push(d);
            }
            QOut::Nodes(v)
        }
        Ok(Ok(other)) => QOut::Scalar(format!("{:?}", other)),
    }
}

/// invariant (1): order keys along a pre-order walk
fn order_invariant(doc: &XmlDocument) -> Option<(String, String)> {
    let mut last: usize = 0;
    let mut stack: Vec<XmlNode> = vec![doc.as_node()];
    let mut count = 0;
    while let Some(n) = stack.pop() {
        count += 1;
        if count > 20000 {
            return None;
        }
        let o = n.order();
        if o == 0 {
            return Some((format!("order-zero.{}", hist::kind_name(&n)), format!("attached {} id {} has order key 0", hist::kind_name(&n), n.id())));
        }
        if o <= last {
            return Some((format!("order-not-increasing.{}", hist::kind_name(&n)), format!("{} id {} has order key {} after a node with key {} in the pre-order walk", hist::kind_name(&n), n.id(), o, last)));
        }
        last = o;
        if let Some(attrs) = n.attributes() {
            let mut keys: Vec<(usize, usize)> = attrs.iter().map(|a| (a.as_node().order(), a.as_node().id())).filter(|(_, id)| *id != 0).collect();
            keys.sort();
            for (k, id) in keys {
                if k == 0 {
                    return Some(("order-zero.attribute".into(), format!("attached attribute id {} has order key 0", id)));
                }
                if k <= last {
                    return Some(("order-not-increasing.attribute".into(), format!("attribute id {} of element id {} has key {} but the walk is already at {}", id, n.id(), k, last)));
                }
                last = k;
            }
        }
        let kids: Vec<XmlNode> = n.child_nodes().iter().collect();
        // attribute value pieces lie between the attribute and the next node; they are skipped here
        if let Some(first) = kids.first() {
            let _ = first;
        }
        for k in kids.into_iter().rev() {
            stack.push(k);
        }
    }
    None
}

impl Property for C14 {
    fn id(&self) -> &'static str {
        "C14"
    }
    fn rule(&self) -> String {
        format!(
            "edit histories (proptest gene vector; structural moves/inserts/removals of attached, detached and freshly created nodes and subtrees, attribute set/remove, \
             character-data edits, split_text; harmless strings so that the result stays serialisable) x after every successful call, or after every 2nd / 3rd call, or only \
             at the end of the history (1) the invariant: along a pre-order walk of \
             each document (element, its attributes, its children) the order keys are non-zero, distinct and strictly increasing, and (2) a battery of {} node-set queries \
             (all node kinds, unions of late|early, reverse axes with positional predicates, positional filters on parenthesised sets) evaluated on the edited document and on \
             from_raw(document.to_string()) in the same view, compared as sequences of structural paths. Non-trivial = at least one successful structural edit of an attached \
             tree before a comparison; distinct by operation list.",
            QUERIES.len()
        )
    }
    fn assumptions(&self) -> Vec<String> {
        vec![
            "nodes are identified across the two documents by their path in the merged tree (adjacent text/CDATA/reference children count as one position; attributes by name)".into(),
            "DTD-defaulted attribute nodes (id 0) carry no order key and are left out of the invariant walk".into(),
            "the XPath evaluator's own deviations from XPath 1.0 are the same on both sides and are C05's subject".into(),
        ]
    }
    fn cases_per_shard(&self, tier: Tier) -> u32 {
        tier.pick(2500, 20000)
    }
    fn cpu_budget_s(&self) -> u64 {
        40
    }
    fn strategy(&self, tier: Tier) -> BoxedStrategy<Json> {
        self.strategy_for_shard(tier, 0)
    }
    fn shards(&self, _tier: Tier) -> usize {
        18
    }
    fn strategy_for_shard(&self, tier: Tier, shard: usize) -> BoxedStrategy<Json> {
        // shards 16 and 17 navigate: handles are read in mid-history (see HistCfg::w_navigate)
        let w_navigate: u32 = if shard >= 16 { 5 } else { 0 };
        let max_ops = tier.pick(8usize, 24usize);
        (proptest::collection::vec(any::<u16>(), 0..(max_ops * 8 + 8)), any::<u16>())
            .prop_map(move |(genes, ob)| {
                let mut g = Genes::new(genes);
                let cfg = HistCfg { max_ops, safe_strings: true, w_struct: 9, w_attr: 3, w_chardata: 2, w_create: 5, huge_offsets: false, max_doc: 5, w_compound: 5, seams: false, w_navigate, ns_names: shard >= 16, ..Default::default() };
                let mut h = hist::gen_history(&mut g, &cfg);
                // how often the caller looks: after every call (half of the histories), after every 2nd or 3rd, or only
                // at the end (0) — edits that follow each other with no query between them are histories too
                let observe = [1u64, 1, 1, 1, 2, 2, 3, 0][crate::engine::pick_index(ob, 8)];
                h["observe"] = serde_json::json!(observe);
                h
            })
            .boxed()
    }
    fn fixed_cases(&self, _tier: Tier) -> Vec<Json> {
        crate::engine::regress_cases("C14")
    }
    fn check(&self, case: &Json, obs: &mut Obs) -> Verdict {
        let docs: Vec<String> = case["docs"].as_array().map(|a| a.iter().filter_map(|x| x.as_str().map(|s| s.to_string())).collect()).unwrap_or_default();
        let merged = case["merged"].as_bool().unwrap_or(false);
        let mut pool = match Pool::new(&docs, merged) {
            Some(p) => p,
            None => return Verdict::Discard("start-document-rejected".into()),
        };
        let ops = case["ops"].as_array().cloned().unwrap_or_default();
        let mut last_print: Vec<String> = pool.docs.iter().map(|d| d.to_string()).collect();
        let mut nontrivial = false;
        macro_rules! fail {
            ($key:expr, $detail:expr) => {{
                let k: String = $key;
                if skip_known("C14", &k) {
                    if !obs.known_hits.contains(&k) {
                        obs.known_hits.push(k);
                    }
                    obs.nontrivial = Some(nontrivial);
                    return Verdict::Pass;
                } else {
                    return Verdict::fail(k, $detail);
                }
            }};
        }
        // one evaluation context per live document serves the whole history (a caller may keep its context across
        // edits); the re-parsed copies are queried with a fresh context each time
        let observe = case["observe"].as_u64().unwrap_or(1);
        let mut pending_change: Vec<bool> = pool.docs.iter().map(|_| false).collect();
        let mut pending_structural: Vec<bool> = pool.docs.iter().map(|_| false).collect();
        let mut live_ctx: Vec<xml_xpath::eval::model::Context> = pool.docs.iter().map(|_| xml_xpath::eval::model::Context::default()).collect();
        for (step, op) in ops.iter().enumerate() {
            let kind = op["op"].as_str().unwrap_or("").to_string();
            let out = hist::apply(&mut pool, op);
            if !matches!(out, Outcome::Ok(_)) {
                if matches!(out, Outcome::Err(_) | Outcome::Panic(_, _)) {
                    // a refused call that changed a document all the same is C13's subject
                    let now: Vec<String> = pool.docs.iter().map(|d| d.to_string()).collect();
                    if now != last_print {
                        obs.label("history-ended:refused-call-changed-document");
                        obs.nontrivial = Some(nontrivial);
                        return Verdict::Pass;
                    }
                }
                continue;
            }
            obs.label(format!("ok:{}", kind));
            for (di, d) in pool.docs.iter().enumerate() {
                let printed = d.to_string();
                if printed != last_print[di] {
                    pending_change[di] = true;
                }
                if crate::props::c12::structural(&kind) {
                    pending_structural[di] = true;
                }
                last_print[di] = printed;
            }
            // the caller does not look after every call
            let last_step = step + 1 == ops.len();
            let look = match observe {
                0 => last_step,
                k => (step + 1) % (k as usize) == 0 || last_step,
            };
            if !look {
                obs.label("edit-not-observed-at-once");
                continue;
            }
            for (di, d) in pool.docs.iter().enumerate() {
                if !pending_change[di] && !pending_structural[di] {
                    continue;
                }
                let printed = last_print[di].clone();
                let changed = pending_change[di];
                let was_structural = pending_structural[di];
                pending_change[di] = false;
                pending_structural[di] = false;
                if d.document_element().is_err() {
                    continue;
                }
                if changed && was_structural {
                    nontrivial = true;
                    obs.label("compared-after-structural-edit");
                }
                if let Some((k, det)) = order_invariant(d) {
                    fail!(format!("c14.{}.after-{}", k, kind), format!("step {} {}: {} (document: {:?})", step, op, det, printed));
                }
                // the re-parsed copy cannot have adjacent or empty text nodes: compare only where the two views coincide
                if has_adjacent_or_empty_text(d) {
                    obs.label("skipped:adjacent-or-empty-text-nodes");
                    continue;
                }
                obs.label("queries-compared");
                let re = if merged {
                    xml_dom::XmlDocument::from_raw_with_context(&printed, xml_dom::Context::from_text_expanded(true))
                } else {
                    xml_dom::XmlDocument::from_raw(&printed)
                };
                let re = match re {
                    Ok((rest, re)) if rest.is_empty() => re,
                    _ => {
                        obs.label("skipped:serialisation-does-not-reparse");
                        continue;
                    }
                };
                for q in QUERIES {
                    let a = run_query_in(d, q, &mut live_ctx[di]);
                    let b = run_query(&re, q);
                    if a != b {
                        fail!(
                            format!("c14.query-differs.after-{}", kind),
                            format!("step {} {}: {} on the edited document gives {:?}, on the re-parsed copy {:?} (document: {:?})", step, op, q, a, b, printed)
                        );
                    }
                }
            }
        }
        obs.nontrivial = Some(nontrivial);
        Verdict::Pass
    }
    fn floors(&self, _tier: Tier) -> Vec<(&'static str, f64)> {
        vec![("compared-after-structural-edit", 0.1), ("queries-compared", 0.15)]
    }
}
