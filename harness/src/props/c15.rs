//! C15 — edits that succeed keep the document serialisable and faithful.

use crate::engine::{skip_known, Json, Obs, Property, Tier, Verdict};
use crate::gen::genes::Genes;
use crate::gen::hist::{self, HistCfg, Outcome, Pool};
use crate::oracle::canon;
use proptest::prelude::*;
use xml_dom::XmlNode;

pub struct C15;

fn significant(s: &str) -> bool {
    s.chars().any(|c| matches!(c, '<' | '>' | '&' | '"' | '\'' | '-' | ']' | '?'))
}

/// receiver of the op (for the key)
fn receiver_kind(pool: &Pool, op: &Json) -> &'static str {
    for k in ["n", "p", "e"] {
        if op.get(k).map(|v| v.is_number() || v.is_array()).unwrap_or(false) {
            return hist::kind_name(&pool.nodes[pool.idx(&op[k])]);
        }
    }
    "document"
}

impl Property for C15 {
    fn id(&self) -> &'static str {
        "C15"
    }
    fn rule(&self) -> String {
        "histories of creation, insertion, attribute and data-editing calls (proptest gene vector) whose name/data arguments are drawn from a pool containing the \
         markup-significant characters and sequences (< > & \" ' - -- ]] ]]> ? ?> and references) besides harmless and multi-byte strings, so that forbidden sequences \
         also arise from combinations (insert next to existing text, delete the middle of a-b-c, split and re-join, quotes of both kinds in one attribute). Oracle: after \
         every call that reports success each document is serialised and parsed again: the parse must be complete and the merged canonical tree of the re-parsed document \
         must equal the merged canonical tree of the live document. Non-trivial = at least one successful call carried a markup-significant string or edited existing \
         character data; distinct by operation list."
            .into()
    }
    fn assumptions(&self) -> Vec<String> {
        vec![
            "a panic of a factory (create_text_node etc. have no Result) counts as a refusal here; C13 judges panics".into(),
            "faithfulness is judged on the merged canonical tree (adjacent text/CDATA/reference nodes coalesced, empty text dropped)".into(),
        ]
    }
    fn cases_per_shard(&self, tier: Tier) -> u32 {
        tier.pick(4000, 40000)
    }
    fn strategy(&self, tier: Tier) -> BoxedStrategy<Json> {
        self.strategy_for_shard(tier, 0)
    }
    fn shards(&self, _tier: Tier) -> usize {
        18
    }
    fn strategy_for_shard(&self, tier: Tier, shard: usize) -> BoxedStrategy<Json> {
        // shards 16 and 17 navigate: handles are read in mid-history (see HistCfg::w_navigate)
        let w_navigate: u32 = if shard >= 16 { 5 } else { 0 };
        let max_ops = tier.pick(10usize, 30usize);
        proptest::collection::vec(any::<u16>(), 0..(max_ops * 8 + 8))
            .prop_map(move |genes| {
                let mut g = Genes::new(genes);
                let cfg = HistCfg { max_ops, safe_strings: false, w_struct: 5, w_attr: 4, w_chardata: 7, w_create: 5, huge_offsets: false, w_compound: 5, w_navigate, ..Default::default() };
                hist::gen_history(&mut g, &cfg)
            })
            .boxed()
    }
    fn fixed_cases(&self, _tier: Tier) -> Vec<Json> {
        crate::engine::regress_cases("C15")
    }
    fn check(&self, case: &Json, obs: &mut Obs) -> Verdict {
        let docs: Vec<String> = case["docs"].as_array().map(|a| a.iter().filter_map(|x| x.as_str().map(|s| s.to_string())).collect()).unwrap_or_default();
        let merged = case["merged"].as_bool().unwrap_or(false);
        let mut pool = match Pool::new(&docs, merged) {
            Some(p) => p,
            None => return Verdict::Discard("start-document-rejected".into()),
        };
        let ops = case["ops"].as_array().cloned().unwrap_or_default();
        let mut nontrivial = false;
        let mut last_print: Vec<String> = pool.docs.iter().map(|d| d.to_string()).collect();
        let mut node_print: std::collections::BTreeMap<usize, String> = std::collections::BTreeMap::new();
        for (i, n) in pool.nodes.iter().enumerate() {
            if matches!(n, XmlNode::Text(_) | XmlNode::Comment(_) | XmlNode::CData(_) | XmlNode::PI(_)) {
                node_print.insert(i, n.to_string());
            }
        }
        for (step, op) in ops.iter().enumerate() {
            let kind = op["op"].as_str().unwrap_or("").to_string();
            let rk = receiver_kind(&pool, op);
            // taking the DOCTYPE out of a document that still uses its entities is not a data edit
            if ["p", "c", "r", "n", "o"].iter().any(|k| op.get(*k).map(|v| v.is_number() || v.is_array()).unwrap_or(false) && matches!(pool.node(&op[*k]), XmlNode::DocumentType(_))) {
                obs.label("excluded:doctype-operand");
                continue;
            }
            let out = hist::apply(&mut pool, op);
            match &out {
                Outcome::Ok(_) => {}
                Outcome::Panic(_, _) | Outcome::Err(_) => {
                    obs.label(format!("{}:{}", if matches!(out, Outcome::Err(_)) { "refused" } else { "refused-by-panic" }, kind));
                    // C15 quantifies over histories whose calls all succeed. A refused call that changed a
                    // document all the same is C13's subject (atomic failure); the history ends here.
                    let now: Vec<String> = pool.docs.iter().map(|d| d.to_string()).collect();
                    if now != last_print {
                        obs.label("history-ended:refused-call-changed-document");
                        obs.nontrivial = Some(nontrivial);
                        return Verdict::Pass;
                    }
                    continue;
                }
                _ => continue,
            }
            let strings: Vec<&str> = ["s", "name", "value"].iter().filter_map(|k| op[*k].as_str()).collect();
            let sig = strings.iter().any(|s| significant(s));
            if sig || matches!(kind.as_str(), "insert_data" | "delete_data" | "replace_data" | "split_text" | "append_data") {
                nontrivial = true;
            }
            obs.label(format!("ok:{}", kind));
            if sig {
                obs.label("ok-with-significant-string");
            }
            // (1) every character-data / PI node of the pool, attached or not, must hold data that survives
            //     printing and parsing on its own: detects an invalid stored value at the call that causes it
            for (pi_, n) in pool.nodes.iter().enumerate() {
                let kindn = hist::kind_name(n);
                if !matches!(n, XmlNode::Text(_) | XmlNode::Comment(_) | XmlNode::CData(_) | XmlNode::PI(_)) {
                    continue;
                }
                let printed = n.to_string();
                if node_print.get(&pi_) == Some(&printed) {
                    continue;
                }
                node_print.insert(pi_, printed.clone());
                // "]]>" inside ONE text node: legitimate data for a piece of an attribute value (where such a node comes
                // from) and for a node that is in no tree; below an element the printer writes it as "]]&gt;"
                let wrapped = if let XmlNode::Text(_) = n {
                    if printed.contains("]]>") && !matches!(xml_dom::Node::parent_node(n), Some(XmlNode::Element(_))) {
                        continue;
                    }
                    format!("<r>{}</r>", printed.replace("]]>", "]]&gt;"))
                } else {
                    format!("<r>{}</r>", printed)
                };
                let want = canon::merge(&serde_json::json!({"k": "x", "kids": [canon::node_json(n, 0)]}));
                let ok = match xml_dom::XmlDocument::from_raw(&wrapped) {
                    Ok((rest, re)) if rest.is_empty() => {
                        let got = canon::merge(&canon::doc_json(&re));
                        got["kids"][0]["kids"] == want["kids"]
                    }
                    _ => false,
                };
                if !ok {
                    let k: String = format!("c15.invalid-{}-stored.after-{}", kindn, kind);
                    if skip_known("C15", &k) {
                        if !obs.known_hits.contains(&k) {
                            obs.known_hits.push(k);
                        }
                        obs.nontrivial = Some(nontrivial);
                        return Verdict::Pass;
                    }
                    return Verdict::fail(k, format!("step {} {}: the {} node now prints as {:?}, which does not parse back to the data it reports", step, op, kindn, printed));
                }
            }
            for (di, d) in pool.docs.iter().enumerate() {
                // a document whose document element was removed or moved away is not expected to parse
                if xml_dom::Document::document_element(d).is_err() {
                    continue;
                }
                let printed = d.to_string();
                if printed == last_print[di] {
                    continue;
                }
                last_print[di] = printed.clone();
                macro_rules! fail {
                    ($key:expr, $detail:expr) => {{
                        let k: String = $key;
                        if skip_known("C15", &k) {
                            if !obs.known_hits.contains(&k) {
                                obs.known_hits.push(k);
                            }
                            obs.nontrivial = Some(nontrivial);
                            return Verdict::Pass;
                        } else {
                            return Verdict::fail(k, $detail);
                        }
                    }};
                }
                let re = match xml_dom::XmlDocument::from_raw(&printed) {
                    Ok((rest, re)) => {
                        if !rest.is_empty() {
                            fail!(
                                format!("c15.reparse-incomplete.after-{}.on-{}", kind, rk),
                                format!("step {} {}: serialisation {:?} leaves {:?} unparsed", step, op, printed, rest.chars().take(40).collect::<String>())
                            );
                        }
                        re
                    }
                    Err(e) => {
                        fail!(
                            format!("c15.reparse-rejected.after-{}.on-{}", kind, rk),
                            format!("step {} {}: serialisation {:?} is rejected: {}", step, op, printed, format!("{:?}", e).chars().take(120).collect::<String>())
                        );
                    }
                };
                let live = canon::merge(&canon::doc_json(d));
                let back = canon::merge(&canon::doc_json(&re));
                if let Some(diff) = canon::first_diff(&live, &back, "") {
                    let path = diff.split(':').next().unwrap_or("");
                    let last: String = path.rsplit('/').next().unwrap_or("").chars().take_while(|c| *c != '[').collect();
                    fail!(
                        format!("c15.unfaithful.{}.after-{}.on-{}", last, kind, rk),
                        format!("step {} {}: the DOM reports (left) something else than its serialisation {:?} denotes (right): {}", step, op, printed, diff)
                    );
                }
            }
        }
        obs.nontrivial = Some(nontrivial);
        let _ = XmlNode::id;
        Verdict::Pass
    }
    fn floors(&self, _tier: Tier) -> Vec<(&'static str, f64)> {
        vec![("ok-with-significant-string", 0.1), ("ok:insert_data", 0.015), ("ok:delete_data", 0.02), ("ok:set_attr", 0.05)]
    }
}
