//! C04 — serialisation round-trips: print then parse gives an equal document; the printer reaches a
//! fixpoint after one round.

use crate::engine::{Json, Obs, Property, Tier, Verdict};
use crate::gen::adoc::DocCfg;
use crate::oracle::canon;
use crate::props::c01::{attribute, doc_case, labels_of};
use proptest::prelude::*;
use serde_json::json;

pub struct C04;

pub const TRIGGERS: &[(&str, &str)] = &[];

/// the round-trip oracle on one input text; `None` = input not accepted (not in the domain)
pub fn roundtrip(text: &str, labels: &[String], obs: &mut Obs) -> Option<Verdict> {
    let d1 = match xml_dom::XmlDocument::from_raw(text) {
        Ok((rest, d)) if rest.is_empty() => d,
        _ => return None,
    };
    obs.label("accepted");
    let s1 = d1.to_string();
    let d2 = match xml_dom::XmlDocument::from_raw(&s1) {
        Ok((rest, d)) => {
            if !rest.is_empty() {
                return Some(Verdict::fail(
                    attribute("C04", labels, "c04.reparse.rest-nonempty".into(), TRIGGERS),
                    format!("serialisation is not consumed completely: rest={:?} printed={:?} input={:?}", rest.chars().take(60).collect::<String>(), s1, text),
                ));
            }
            d
        }
        Err(e) => {
            return Some(Verdict::fail(
                attribute("C04", labels, "c04.reparse.rejected".into(), TRIGGERS),
                format!("serialisation is rejected: {:?} printed={:?} input={:?}", format!("{:?}", e).chars().take(160).collect::<String>(), s1, text),
            ));
        }
    };
    let c1 = canon::doc_json(&d1);
    let c2 = canon::doc_json(&d2);
    if let Some(d) = canon::first_diff(&c1, &c2, "") {
        let class: String = {
            let path = d.split(':').next().unwrap_or("");
            let mut parts: Vec<String> = vec![];
            for seg in path.split('/') {
                let name: String = seg.chars().take_while(|c| *c != '[').collect();
                if !name.is_empty() && parts.last().map(|l| l != &name).unwrap_or(true) {
                    parts.push(name);
                }
            }
            let n = parts.len();
            parts[n.saturating_sub(2)..].join(".")
        };
        return Some(Verdict::fail(
            attribute("C04", labels, format!("c04.canon.{}", class), TRIGGERS),
            format!("re-parsed document differs (original vs re-parsed) at {} printed={:?} input={:?}", d, s1, text),
        ));
    }
    // document-level properties (version / encoding / standalone / identifiers / notations / unparsed entities)
    match (canon::info_props(text), canon::info_props(&s1)) {
        (Ok(p1), Ok(p2)) => {
            if p1 != p2 {
                return Some(Verdict::fail(
                    attribute("C04", labels, "c04.props".into(), TRIGGERS),
                    format!("document properties differ after round trip: {} vs {} printed={:?} input={:?}", p1, p2, s1, text),
                ));
            }
        }
        (a, b) => {
            return Some(Verdict::fail(
                attribute("C04", labels, "c04.props.error".into(), TRIGGERS),
                format!("info-level construction fails on one side: {:?} / {:?} input={:?}", a.err(), b.err(), text),
            ));
        }
    }
    // the library's own structural equality
    if d1 != d2 {
        return Some(Verdict::fail(
            attribute("C04", labels, "c04.partialeq".into(), TRIGGERS),
            format!("XmlDocument::eq says the re-parsed document differs although the canonical forms agree; printed={:?} input={:?}", s1, text),
        ));
    }
    let s2 = d2.to_string();
    if s1 != s2 {
        let pos = s1.chars().zip(s2.chars()).take_while(|(a, b)| a == b).count();
        return Some(Verdict::fail(
            attribute("C04", labels, "c04.fixpoint".into(), TRIGGERS),
            format!(
                "printer has no fixpoint after one round: first difference at char {}: {:?} vs {:?} input={:?}",
                pos,
                s1.chars().skip(pos.saturating_sub(10)).take(50).collect::<String>(),
                s2.chars().skip(pos.saturating_sub(10)).take(50).collect::<String>(),
                text
            ),
        ));
    }
    Some(Verdict::Pass)
}

impl Property for C04 {
    fn id(&self) -> &'static str {
        "C04"
    }
    fn rule(&self) -> String {
        "inputs = renderings of generated abstract documents (same generator as C01: XML declaration, DOCTYPE with internal subset, namespaces, \
         attributes with both quote kinds, references, CDATA, comments, PIs). Oracle: round trip — to_string() must re-parse completely, canonical \
         trees (raw view, incl. DOCTYPE entities/notations, attribute values and specified flags) and info-level document properties must be equal, \
         XmlDocument::eq must agree, and printing the re-parsed document must give the identical string. Non-trivial = accepted and containing at \
         least one of {attribute, DTD declaration, reference, CDATA, PI, public/system identifier}; distinct by input text."
            .into()
    }
    fn assumptions(&self) -> Vec<String> {
        vec![
            "equality of documents is judged on the canonical extraction through public DOM accessors plus the info-level document properties, and additionally on the library's own PartialEq".into(),
            "ELEMENT declarations and comments inside the DTD are not information items and are not required to survive".into(),
        ]
    }
    fn cases_per_shard(&self, tier: Tier) -> u32 {
        tier.pick(800, 30000)
    }
    fn strategy(&self, tier: Tier) -> BoxedStrategy<Json> {
        let max_genes = tier.pick(300usize, 900usize);
        let max_nodes = tier.pick(40usize, 200usize);
        (proptest::collection::vec(any::<u16>(), 0..max_genes), proptest::collection::vec(any::<u16>(), 0..200))
            .prop_map(move |(g, c1)| {
                let c = doc_case(g, c1, vec![], &DocCfg::full(max_nodes), false);
                if c.get("_discard").is_some() {
                    return c;
                }
                let labels = c["_labels"].clone();
                let text = c["renderings"][0]["text"].clone();
                let feats = ["attribute", "doctype", "entity-ref", "predef-ref", "r:cdata", "pi", "r:charref", "doctype-external-id"];
                let nt = feats.iter().any(|f| labels.as_array().map(|a| a.iter().any(|l| l == f)).unwrap_or(false));
                json!({"text": text, "_labels": labels, "_nontrivial": nt})
            })
            .boxed()
    }
    fn fixed_cases(&self, _tier: Tier) -> Vec<Json> {
        crate::engine::regress_cases("C04")
    }
    fn check(&self, case: &Json, obs: &mut Obs) -> Verdict {
        let labels = labels_of(case);
        let text = case["text"].as_str().unwrap_or("");
        match roundtrip(text, &labels, obs) {
            Some(v) => v,
            None => Verdict::Discard("input-not-accepted".into()),
        }
    }
    fn floors(&self, _tier: Tier) -> Vec<(&'static str, f64)> {
        vec![("accepted", 0.5), ("doctype", 0.2), ("attribute", 0.3)]
    }
}
