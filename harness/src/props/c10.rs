//! C10 — namespaces resolve per Namespaces in XML; name tests match expanded names.

use crate::engine::{panics, skip_known, Json, Obs, Property, Tier, Verdict};
use crate::gen::adoc::{self, ADoc, AElem, ANode, DocCfg, XML_NS};
use proptest::prelude::*;
use serde_json::json;
use std::collections::BTreeMap;
use xml_dom::{AsExpandedName, Document, Node, NodeList, XmlNode};

pub struct C10;

type Scope = Vec<(Option<String>, String)>;

fn resolve(scope: &Scope, p: &str) -> Option<String> {
    if p == "xml" {
        return Some(XML_NS.to_string());
    }
    scope.iter().rev().find(|(q, _)| q.as_deref() == Some(p)).map(|(_, u)| u.clone())
}

fn default_ns(scope: &Scope) -> Option<String> {
    scope.iter().rev().find(|(q, _)| q.is_none()).map(|(_, u)| u.clone()).filter(|u| !u.is_empty())
}

/// expected facts per element, in document order
fn facts(e: &AElem, scope: &Scope, path: Vec<usize>, out: &mut Vec<Json>) {
    let mut scope = scope.clone();
    for d in &e.ns_decls {
        scope.push(d.clone());
    }
    let uri = match &e.name.prefix {
        Some(p) => resolve(&scope, p),
        None => default_ns(&scope),
    };
    // in-scope namespaces: latest binding per prefix, default unless undeclared, plus xml
    let mut inscope: BTreeMap<String, String> = BTreeMap::new();
    for (p, u) in scope.iter() {
        let k = p.clone().unwrap_or_else(|| "xmlns".to_string());
        if p.is_none() && u.is_empty() {
            inscope.remove("xmlns");
        } else {
            inscope.insert(k, u.clone());
        }
    }
    inscope.insert("xml".to_string(), XML_NS.to_string());
    let attrs: Vec<Json> = e
        .attrs
        .iter()
        .map(|a| {
            let auri = a.name.prefix.as_ref().and_then(|p| resolve(&scope, p));
            json!({"qname": a.name.text(), "local": a.name.local, "uri": auri})
        })
        .collect();
    out.push(json!({"path": path, "qname": e.name.text(), "local": e.name.local, "uri": uri, "scope": inscope, "attrs": attrs}));
    let mut i = 0;
    for c in &e.children {
        if let ANode::Elem(x) = c {
            i += 1;
            let mut p = path.clone();
            p.push(i);
            facts(x, &scope, p, out);
        }
    }
}

fn rename_prefixes(e: &mut AElem) {
    let ren = |p: &mut Option<String>| {
        if let Some(x) = p {
            if x != "xml" {
                *x = format!("{}{}", x, x);
            }
        }
    };
    ren(&mut e.name.prefix);
    for d in e.ns_decls.iter_mut() {
        ren(&mut d.0);
    }
    for a in e.attrs.iter_mut() {
        ren(&mut a.name.prefix);
    }
    for c in e.children.iter_mut() {
        if let ANode::Elem(x) = c {
            rename_prefixes(x);
        }
    }
}

fn cfg() -> DocCfg {
    DocCfg {
        max_nodes: 18,
        max_depth: 5,
        dtd: false,
        namespaces: true,
        attlist: false,
        entity_refs: false,
        xpath_values: true,
        non_ascii_names: false,
        cr_chars: false,
        external_id: false,
        prolog_misc: false,
        comments_pis: false,
        default_entity_refs: false,
    }
}

fn query(doc: &xml_dom::XmlDocument, q: &str, ns: &[(String, String)]) -> String {
    let fresh = query_in(doc, q, ns, false);
    // a caller that re-uses its context for another vocabulary binds the same prefixes again: the later binding counts
    let rebound = query_in(doc, q, ns, true);
    if fresh == rebound {
        fresh
    } else {
        format!("{} [but {} in a context in which every prefix was bound to another URI first and then bound again]", fresh, rebound)
    }
}

fn query_in(doc: &xml_dom::XmlDocument, q: &str, ns: &[(String, String)], rebind: bool) -> String {
    let r = panics::catch(|| {
        let mut ctx = xml_xpath::eval::model::Context::default();
        let rounds: &[bool] = if rebind { &[true, false] } else { &[false] };
        for decoy in rounds {
            for (p, u) in ns {
                let u = if *decoy { format!("urn:earlier:{}", u) } else { u.clone() };
                // an empty prefix stands for the caller's default namespace (xq/xe: --setns xmlns=URI)
                if p.is_empty() {
                    ctx.add_ns(None, u.as_str());
                } else {
                    ctx.add_ns(Some(p.as_str()), u.as_str());
                }
            }
        }
        xml_xpath::query(doc.clone(), q, &mut ctx).map(|v| format!("{}", v)).map_err(|e| format!("error:{:?}", e))
    });
    match r {
        Ok(Ok(s)) => s,
        Ok(Err(e)) => e,
        Err(p) => format!("panic:{}", p.key()),
    }
}

impl Property for C10 {
    fn id(&self) -> &'static str {
        "C10"
    }
    fn rule(&self) -> String {
        "namespace-well-formed documents from a proptest gene vector with declaration layouts forced to be interesting (the same prefix re-bound deeper, default namespace declared, \
         undeclared with xmlns=\"\" and re-declared along a path, prefixed and unprefixed attributes under a default namespace, two prefixes for one URI, xml:lang/xml:space), \
         rendered twice: as generated and with every prefix renamed consistently. Oracle: own scope computation on the abstract document. Direct: in_scope_namespace() of every \
         element as a set of (prefix, URI) incl. xml, as_expanded_name() of every element and attribute. Through XPath with fresh caller prefixes, and again with the document's own prefixes bound by the caller to other URIs: local-name(), namespace-uri(), \
         name() of every element addressed by a positional path, count(//P:l), count(//@P:l), count(//P:*), count(//l) for every expanded name in the document against the model's \
         counts. With a caller default namespace (the extension behind --setns xmlns=URI) unprefixed element tests count the elements of that namespace, unprefixed attribute tests and function names are unaffected. Metamorphic: the renamed document gives the same answers to the same queries. Non-trivial = the document has shadowing, an undeclaration or a prefixed attribute \
         and at least one count is non-zero; distinct by text."
            .into()
    }
    fn assumptions(&self) -> Vec<String> {
        vec![
            "the scope computation in props/c10.rs implements Namespaces in XML 1.0 (nearest declaration, default namespace for elements only, xmlns=\"\" undeclares, xml always bound)".into(),
            "namespace declarations supplied through ATTLIST defaults are not generated".into(),
        ]
    }
    fn cases_per_shard(&self, tier: Tier) -> u32 {
        tier.pick(1500, 40000)
    }
    fn strategy(&self, _tier: Tier) -> BoxedStrategy<Json> {
        (proptest::collection::vec(any::<u16>(), 0..220), proptest::collection::vec(any::<u16>(), 0..80))
            .prop_map(|(g, c)| {
                let (doc, feats): (ADoc, _) = adoc::build(g, &cfg());
                let r = adoc::render(&doc, c.clone(), false);
                let mut renamed = doc.clone();
                rename_prefixes(&mut renamed.root);
                let r2 = adoc::render(&renamed, c, false);
                let mut f = vec![];
                facts(&doc.root, &vec![], vec![1], &mut f);
                let labels: Vec<String> = feats.iter().map(|x| x.to_string()).collect();
                let nontrivial = labels.iter().any(|l| matches!(l.as_str(), "ns-shadow" | "ns-undeclare" | "prefixed-attr"));
                json!({"text": r.text, "renamed": r2.text, "facts": f, "_labels": labels, "_nontrivial": nontrivial})
            })
            .boxed()
    }
    fn fixed_cases(&self, _tier: Tier) -> Vec<Json> {
        crate::engine::regress_cases("C10")
    }
    fn check(&self, case: &Json, obs: &mut Obs) -> Verdict {
        let text = case["text"].as_str().unwrap_or("");
        let renamed = case["renamed"].as_str().unwrap_or("");
        let parse = |t: &str| match xml_dom::XmlDocument::from_raw_with_context(t, xml_dom::Context::from_text_expanded(true)) {
            Ok((rest, d)) if rest.is_empty() => Some(d),
            _ => None,
        };
        let (doc, doc2) = match (parse(text), parse(renamed)) {
            (Some(a), Some(b)) => (a, b),
            _ => {
                return Verdict::fail("c10.reject", format!("namespace-well-formed document rejected: {:?} / {:?}", text, renamed));
            }
        };
        macro_rules! fail {
            ($key:expr, $detail:expr) => {{
                let k: String = $key;
                if skip_known("C10", &k) {
                    obs.known_hits.push(k);
                    return Verdict::Pass;
                }
                return Verdict::fail(k, format!("{} [document {:?}]", $detail, text));
            }};
        }
        let facts = case["facts"].as_array().cloned().unwrap_or_default();
        // fresh caller prefixes per URI
        let mut uris: Vec<String> = vec![];
        for f in &facts {
            for u in std::iter::once(&f["uri"]).chain(f["attrs"].as_array().map(|a| a.iter().map(|x| &x["uri"]).collect::<Vec<_>>()).unwrap_or_default()) {
                if let Some(u) = u.as_str() {
                    if !uris.contains(&u.to_string()) {
                        uris.push(u.to_string());
                    }
                }
            }
        }
        let ns: Vec<(String, String)> = uris.iter().enumerate().map(|(i, u)| (format!("z{}", i), u.clone())).collect();
        let pfx = |u: &str| -> String { ns.iter().find(|(_, x)| x == u).map(|(p, _)| p.clone()).unwrap_or_default() };
        for f in &facts {
            let path: Vec<usize> = f["path"].as_array().map(|a| a.iter().filter_map(|x| x.as_u64().map(|v| v as usize)).collect()).unwrap_or_default();
            // direct: navigate by element-child positions
            for (which, d) in [("original", &doc), ("renamed", &doc2)] {
                let mut cur: XmlNode = match d.document_element() {
                    Ok(e) => XmlNode::Element(e),
                    Err(_) => fail!("c10.no-root".to_string(), "no document element".to_string()),
                };
                for step in path.iter().skip(1) {
                    let kids: Vec<XmlNode> = cur.child_nodes().iter().filter(|k| matches!(k, XmlNode::Element(_))).collect();
                    cur = match kids.get(step - 1) {
                        Some(k) => k.clone(),
                        None => fail!("c10.structure".to_string(), format!("element path {:?} does not exist in the {} document", path, which)),
                    };
                }
                let el = match &cur {
                    XmlNode::Element(e) => e.clone(),
                    _ => continue,
                };
                match el.as_expanded_name() {
                    Ok(Some((l, _, u))) => {
                        if json!(l) != f["local"] || json!(u) != f["uri"] {
                            fail!("c10.element-expanded-name".to_string(), format!("element {:?} ({}): expanded name ({:?}, {:?}), expected ({}, {})", path, which, u, l, f["uri"], f["local"]));
                        }
                    }
                    other => fail!("c10.element-expanded-name".to_string(), format!("element {:?}: as_expanded_name() = {:?}", path, other.map(|_| ()))),
                }
                if which == "original" {
                    match el.in_scope_namespace() {
                        Ok(v) => {
                            let mut got: BTreeMap<String, String> = BTreeMap::new();
                            for n in v {
                                got.insert(n.node_name(), n.node_value().ok().flatten().unwrap_or_default());
                            }
                            let want: BTreeMap<String, String> = f["scope"].as_object().map(|m| m.iter().map(|(k, v)| (k.clone(), v.as_str().unwrap_or("").to_string())).collect()).unwrap_or_default();
                            if got != want {
                                fail!("c10.in-scope-namespaces".to_string(), format!("element {:?}: in-scope namespaces {:?}, expected {:?}", path, got, want));
                            }
                        }
                        Err(e) => fail!("c10.in-scope-namespaces".to_string(), format!("element {:?}: in_scope_namespace() fails: {:?}", path, e)),
                    }
                    if let Some(m) = cur.attributes() {
                        use xml_dom::NamedNodeMap;
                        let mut got: Vec<(String, Option<String>)> = m.iter().filter_map(|a| a.as_expanded_name().ok().flatten().map(|(l, _, u)| (l, u))).collect();
                        got.sort();
                        let mut want: Vec<(String, Option<String>)> = f["attrs"].as_array().map(|a| a.iter().map(|x| (x["local"].as_str().unwrap_or("").to_string(), x["uri"].as_str().map(|s| s.to_string()))).collect()).unwrap_or_default();
                        want.sort();
                        if got != want {
                            fail!("c10.attribute-expanded-names".to_string(), format!("element {:?}: attribute expanded names {:?}, expected {:?}", path, got, want));
                        }
                    }
                }
            }
            // through XPath
            let xp: String = path.iter().map(|i| format!("/*[{}]", i)).collect();
            for (fun, want) in [("local-name", f["local"].as_str().unwrap_or("").to_string()), ("namespace-uri", f["uri"].as_str().unwrap_or("").to_string()), ("name", f["qname"].as_str().unwrap_or("").to_string())] {
                let q = format!("{}({})", fun, xp);
                let got = query(&doc, &q, &ns);
                if got != want {
                    fail!(format!("c10.xpath.{}", fun), format!("{} = {:?}, expected {:?}", q, got, want));
                }
                if fun != "name" {
                    let got2 = query(&doc2, &q, &ns);
                    if got2 != want {
                        fail!(format!("c10.xpath.{}.renamed-document", fun), format!("{} = {:?} on the renamed document {:?}, expected {:?}", q, got2, renamed, want));
                    }
                }
            }
        }
        // counts per expanded name
        let mut elem_counts: BTreeMap<(Option<String>, String), usize> = BTreeMap::new();
        let mut attr_counts: BTreeMap<(Option<String>, String), usize> = BTreeMap::new();
        let mut uri_counts: BTreeMap<String, usize> = BTreeMap::new();
        for f in &facts {
            let u = f["uri"].as_str().map(|s| s.to_string());
            *elem_counts.entry((u.clone(), f["local"].as_str().unwrap_or("").to_string())).or_insert(0) += 1;
            if let Some(u) = &u {
                *uri_counts.entry(u.clone()).or_insert(0) += 1;
            }
            for a in f["attrs"].as_array().cloned().unwrap_or_default() {
                *attr_counts.entry((a["uri"].as_str().map(|s| s.to_string()), a["local"].as_str().unwrap_or("").to_string())).or_insert(0) += 1;
            }
        }
        // Two caller binding sets: fresh prefixes, and the document's own prefixes bound to *other* URIs than
        // the document binds them to (a name test must go by the caller's binding, never by the spelling).
        let mut doc_prefixes: Vec<String> = vec![];
        for f in &facts {
            for q in std::iter::once(f["qname"].as_str().unwrap_or("")).chain(f["attrs"].as_array().map(|a| a.iter().map(|x| x["qname"].as_str().unwrap_or("")).collect::<Vec<_>>()).unwrap_or_default()) {
                if let Some((p, _)) = q.split_once(':') {
                    if p != "xml" && !doc_prefixes.contains(&p.to_string()) {
                        doc_prefixes.push(p.to_string());
                    }
                }
            }
            for (p, _) in f["scope"].as_object().map(|m| m.iter().collect::<Vec<_>>()).unwrap_or_default() {
                if p != "xml" && p != "xmlns" && !doc_prefixes.contains(p) {
                    doc_prefixes.push(p.clone());
                }
            }
        }
        doc_prefixes.sort();
        let ns_collide: Vec<(String, String)> = uris
            .iter()
            .enumerate()
            .map(|(i, u)| {
                let p = if doc_prefixes.is_empty() { format!("z{}", i) } else if i < doc_prefixes.len() { doc_prefixes[(i + 1) % doc_prefixes.len()].clone() } else { format!("z{}", i) };
                (p, u.clone())
            })
            .collect();
        let mut nonzero = false;
        for (set_name, bindings) in [("fresh", &ns), ("document-prefixes-rebound", &ns_collide)] {
            if set_name != "fresh" && doc_prefixes.is_empty() {
                continue;
            }
            let pfx = |u: &str| -> String { bindings.iter().find(|(_, x)| x == u).map(|(p, _)| p.clone()).unwrap_or_default() };
            let mut queries: Vec<(String, usize)> = vec![];
            for ((u, l), n) in &elem_counts {
                let test = match u {
                    Some(u) => format!("{}:{}", pfx(u), l),
                    None => l.clone(),
                };
                queries.push((format!("count(//{})", test), *n));
                // the unprefixed test must NOT match elements in a namespace (no default namespace in XPath 1.0)
                if u.is_some() {
                    let unp = elem_counts.get(&(None, l.clone())).copied().unwrap_or(0);
                    queries.push((format!("count(//{})", l), unp));
                }
            }
            for ((u, l), n) in &attr_counts {
                let test = match u {
                    Some(u) => format!("{}:{}", pfx(u), l),
                    None => l.clone(),
                };
                queries.push((format!("count(//@{})", test), *n));
            }
            for (u, n) in &uri_counts {
                queries.push((format!("count(//{}:*)", pfx(u)), *n));
            }
            for (q, n) in &queries {
                if *n > 0 {
                    nonzero = true;
                }
                for (which, d) in [("original", &doc), ("renamed", &doc2)] {
                    let got = query(d, q, bindings);
                    if got != n.to_string() {
                        let class = if q.contains("@") { "attribute-name-test" } else if q.contains(":*") { "ns-wildcard-test" } else { "element-name-test" };
                        fail!(
                            format!("c10.xpath.{}{}{}", class, if which == "renamed" { ".renamed-document" } else { "" }, if set_name == "fresh" { "" } else { ".caller-reuses-document-prefixes" }),
                            format!("{} = {} on the {} document, expected {} (caller bindings {:?})", q, got, which, n, bindings)
                        );
                    }
                }
            }
            if set_name != "fresh" {
                obs.label("caller-reuses-document-prefixes");
            }
        }
        // A caller default namespace (the library's extension behind `--setns xmlns=URI`): it applies to unprefixed
        // ELEMENT name tests only; unprefixed attribute tests and function names stay what they are.
        if let Some(d) = uris.first() {
            let mut with_default = ns.clone();
            with_default.push((String::new(), d.clone()));
            let in_default = elem_counts.iter().filter(|((u, _), _)| u.as_deref() == Some(d.as_str())).map(|((_, l), n)| (l.clone(), *n)).collect::<Vec<_>>();
            let mut probes: Vec<(String, usize)> = vec![];
            for (l, n) in in_default.iter().take(3) {
                probes.push((format!("count(//{})", l), *n));
            }
            for ((u, l), n) in attr_counts.iter().take(4) {
                if u.is_none() {
                    probes.push((format!("count(//@{})", l), *n));
                }
            }
            for (q, n) in probes {
                let got = query(&doc, &q, &with_default);
                if got != n.to_string() {
                    let class = if q.contains('@') { "attribute-name-test" } else { "element-name-test" };
                    fail!(
                        format!("c10.xpath.{}.caller-default-namespace", class),
                        format!("{} = {} with the caller's default namespace {:?}, expected {} (bindings {:?})", q, got, d, n, with_default)
                    );
                }
                obs.label("caller-default-namespace");
            }
        }
        // A declaration set through the DOM on an element (that carries it already, or not) is what the element
        // declares from then on: the edited document and a parse of its serialisation agree on every element's in-scope
        // namespaces and expanded name, and the edited element has the new binding exactly once.
        {
            use xml_dom::ElementMut;
            let element_at = |d: &xml_dom::XmlDocument, path: &[usize]| -> Option<xml_dom::XmlElement> {
                let mut cur: XmlNode = XmlNode::Element(d.document_element().ok()?);
                for step in path.iter().skip(1) {
                    let kids: Vec<XmlNode> = cur.child_nodes().iter().filter(|k| matches!(k, XmlNode::Element(_))).collect();
                    cur = kids.get(step - 1)?.clone();
                }
                match cur {
                    XmlNode::Element(e) => Some(e),
                    _ => None,
                }
            };
            let paths: Vec<Vec<usize>> = facts.iter().map(|f| f["path"].as_array().map(|a| a.iter().filter_map(|x| x.as_u64().map(|v| v as usize)).collect()).unwrap_or_default()).collect();
            let scope_of = |e: &xml_dom::XmlElement| -> Option<Vec<(String, String)>> {
                let mut v: Vec<(String, String)> = e.in_scope_namespace().ok()?.into_iter().map(|n| (n.node_name(), n.node_value().ok().flatten().unwrap_or_default())).collect();
                v.sort();
                Some(v)
            };
            // the element in the middle of the list, and a prefix it has in scope (or a new one)
            if let Some(fi) = facts.get(facts.len() / 2) {
                let path = &paths[facts.len() / 2];
                let prefixes: Vec<String> = fi["scope"].as_object().map(|m| m.keys().filter(|k| *k != "xml" && *k != "xmlns").cloned().collect()).unwrap_or_default();
                let (attr, new_uri) = match prefixes.get(text.len() % (prefixes.len() + 1)) {
                    Some(p) => (format!("xmlns:{}", p), "urn:re-declared"),
                    None => ("xmlns:fresh".to_string(), "urn:re-declared"),
                };
                if let Some(el) = element_at(&doc, path) {
                    // twice: the second call meets the declaration the first one made
                    let r1 = el.set_attribute(&attr, "urn:first");
                    let r2 = el.set_attribute(&attr, new_uri);
                    if r1.is_ok() && r2.is_ok() {
                        obs.label("declaration-set-through-the-dom");
                        let printed = doc.to_string();
                        let re = match xml_dom::XmlDocument::from_raw(&printed) {
                            Ok((rest, d)) if rest.is_empty() => d,
                            _ => fail!("c10.declaration-set-through-the-dom.does-not-reparse".to_string(), format!("after {}=\"urn:first\" and then {}={:?} on element {:?} the document prints as {:?}, which does not parse", attr, attr, new_uri, path, printed)),
                        };
                        let want_prefix = attr.trim_start_matches("xmlns:").to_string();
                        match scope_of(&el) {
                            Some(sc) => {
                                let hits: Vec<&(String, String)> = sc.iter().filter(|(p, _)| *p == want_prefix).collect();
                                if hits.len() != 1 || hits[0].1 != new_uri {
                                    fail!("c10.declaration-set-through-the-dom.in-scope".to_string(), format!("after {}={:?} on element {:?} its in-scope namespaces are {:?}", attr, new_uri, path, sc));
                                }
                            }
                            None => fail!("c10.declaration-set-through-the-dom.in-scope".to_string(), format!("in_scope_namespace() fails after {}={:?}", attr, new_uri)),
                        }
                        for p in &paths {
                            if let (Some(a), Some(b)) = (element_at(&doc, p), element_at(&re, p)) {
                                let (sa, sb) = (scope_of(&a), scope_of(&b));
                                if sa != sb {
                                    fail!("c10.declaration-set-through-the-dom.in-scope-vs-reparsed".to_string(), format!("element {:?}: in-scope namespaces {:?} in the edited document, {:?} after re-parsing {:?}", p, sa, sb, printed));
                                }
                                let (na, nb) = (a.as_expanded_name().ok().flatten().map(|(l, _, u)| (l, u)), b.as_expanded_name().ok().flatten().map(|(l, _, u)| (l, u)));
                                if na != nb {
                                    fail!("c10.declaration-set-through-the-dom.expanded-name-vs-reparsed".to_string(), format!("element {:?}: expanded name {:?} in the edited document, {:?} after re-parsing {:?}", p, na, nb, printed));
                                }
                            }
                        }
                    }
                }
            }
        }
        if !nonzero {
            obs.nontrivial = Some(false);
        }
        Verdict::Pass
    }
    fn floors(&self, _tier: Tier) -> Vec<(&'static str, f64)> {
        vec![("ns-shadow", 0.05), ("ns-undeclare", 0.02), ("prefixed-attr", 0.1), ("ns-default", 0.2)]
    }
}
