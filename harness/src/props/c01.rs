//! C01 — well-formed documents are accepted and yield the infoset they denote.

use crate::engine::{known, Json, Obs, Property, Tier, Verdict};
use crate::gen::adoc::{self, DocCfg};
use crate::oracle::canon;
use proptest::prelude::*;
use serde_json::json;
use std::sync::OnceLock;

pub struct C01;

pub fn known_list() -> &'static known::Known {
    static K: OnceLock<known::Known> = OnceLock::new();
    K.get_or_init(known::load)
}

/// (label that must be present on the case, finding key). A failing case carrying the label of an
/// OPEN finding is attributed to it; everything else gets a generic key and is a violation.
pub const TRIGGERS: &[(&str, &str)] = &[
    ("default-with-entity-ref", "c01.reject.attlist-default-references-declared-entity"),
    ("required-attr-not-written", "c01.attr.required-materialised"),
    ("default-needs-type-normalisation", "c01.attr.default-not-type-normalised"),
    ("ref-to-empty-entity", "c01.merged.empty-text-node-for-empty-entity"),
];

pub fn attribute(id: &str, labels: &[String], generic: String, triggers: &[(&str, &str)]) -> String {
    for (label, key) in triggers {
        if labels.iter().any(|l| l == label) && known_list().is_open(id, key) {
            return key.to_string();
        }
    }
    generic
}

pub fn labels_of(case: &Json) -> Vec<String> {
    case["_labels"].as_array().map(|a| a.iter().filter_map(|x| x.as_str().map(|s| s.to_string())).collect()).unwrap_or_default()
}

fn diff_class(d: &str) -> String {
    // "/kids[2]/attrs[0]/value: .." -> "kids.attrs.value"
    let path = d.split(':').next().unwrap_or("");
    let mut parts: Vec<String> = vec![];
    for seg in path.split('/') {
        let name: String = seg.chars().take_while(|c| *c != '[').collect();
        if !name.is_empty() && parts.last().map(|l| l != &name).unwrap_or(true) {
            parts.push(name);
        }
    }
    let n = parts.len();
    parts[n.saturating_sub(2)..].join(".")
}

pub fn doc_case(genes: Vec<u16>, c1: Vec<u16>, c2: Vec<u16>, cfg: &DocCfg, line_end_variants: bool) -> Json {
    let (doc, feats) = adoc::build(genes, cfg);
    let r1 = adoc::render(&doc, c1, line_end_variants);
    let r2 = adoc::render(&doc, c2, line_end_variants);
    let mut labels: Vec<String> = feats.iter().map(|f| f.to_string()).collect();
    for l in r1.labels.iter().chain(r2.labels.iter()) {
        if !labels.contains(l) {
            labels.push(l.clone());
        }
    }
    let nelem = adoc::count_elements(&doc.root);
    let interesting = ["doctype", "entity-decl", "attlist", "notation", "ns-prefix", "ns-default", "entity-ref", "predef-ref", "r:cdata", "comment", "pi", "attribute", "r:charref"];
    let nfeat = interesting.iter().filter(|f| labels.iter().any(|l| l == *f)).count();
    let nontrivial = nelem >= 3 && nfeat >= 2;
    // internal consistency of the oracle: both renderings denote the same merged tree
    let m1 = canon::merge(&r1.raw);
    let m2 = canon::merge(&r2.raw);
    if m1 != m2 {
        return json!({"_discard": "oracle-inconsistent-renderings"});
    }
    labels.push(format!("elements:{}", match nelem { 0..=1 => "1", 2..=4 => "2-4", 5..=12 => "5-12", _ => "13+" }));
    json!({
        "renderings": [
            {"text": r1.text, "raw": r1.raw, "props": r1.props},
            {"text": r2.text, "raw": r2.raw, "props": r2.props},
        ],
        "_labels": labels,
        "_nontrivial": nontrivial,
    })
}

fn props_subset_diff(expected: &Json, got: &Json) -> Option<String> {
    for k in ["version", "encoding", "standalone", "doctype_pub", "doctype_sys"] {
        if expected[k] != got[k] {
            return Some(format!("{}: expected {} got {}", k, expected[k], got[k]));
        }
    }
    None
}

pub fn check_rendering(r: &Json, labels: &[String], triggers: &[(&str, &str)], id: &str) -> Verdict {
    let text = r["text"].as_str().unwrap_or("");
    let raw_expected = &r["raw"];
    // raw view
    let doc = match xml_dom::XmlDocument::from_raw(text) {
        Ok((rest, doc)) => {
            if !rest.is_empty() {
                return Verdict::fail(
                    attribute(id, labels, "c01.reject.rest-nonempty".into(), triggers),
                    format!("well-formed document not consumed: rest={:?} text={:?}", rest.chars().take(60).collect::<String>(), text),
                );
            }
            doc
        }
        Err(e) => {
            let es = format!("{:?}", e);
            let class: String = es.chars().take_while(|c| c.is_ascii_alphanumeric() || *c == '(').collect();
            return Verdict::fail(
                attribute(id, labels, format!("c01.reject.{}", class.replace('(', ".")), triggers),
                format!("well-formed document rejected: {} text={:?}", es.chars().take(200).collect::<String>(), text),
            );
        }
    };
    let got_raw = canon::doc_json(&doc);
    if let Some(d) = canon::first_diff(raw_expected, &got_raw, "") {
        return Verdict::fail(
            attribute(id, labels, format!("c01.raw.{}", diff_class(&d)), triggers),
            format!("raw view differs (expected vs library) at {} text={:?}", d, text),
        );
    }
    // merged view
    match xml_dom::XmlDocument::from_raw_with_context(text, xml_dom::Context::from_text_expanded(true)) {
        Ok((rest, mdoc)) if rest.is_empty() => {
            let got = canon::doc_json(&mdoc);
            let exp = canon::merge(raw_expected);
            if let Some(d) = canon::first_diff(&exp, &got, "") {
                return Verdict::fail(
                    attribute(id, labels, format!("c01.merged.{}", diff_class(&d)), triggers),
                    format!("merged-text view differs (expected vs library) at {} text={:?}", d, text),
                );
            }
        }
        other => {
            return Verdict::fail(
                attribute(id, labels, "c01.reject.merged-view".into(), triggers),
                format!("from_raw_with_context rejects what from_raw accepts: {:?} text={:?}", other.map(|(r, _)| r.to_string()), text),
            );
        }
    }
    // information-set level properties
    match canon::info_props(text) {
        Ok(p) => {
            if let Some(d) = props_subset_diff(&r["props"], &p) {
                return Verdict::fail(attribute(id, labels, format!("c01.props.{}", d.split(':').next().unwrap_or("")), triggers), format!("document property {} text={:?}", d, text));
            }
            // notations / unparsed entities against the doctype expectation
            if let Some(dt) = raw_expected["kids"].as_array().and_then(|k| k.iter().find(|x| x["k"] == "doctype")) {
                let mut exp_un: Vec<Json> = dt["ents"].as_array().cloned().unwrap_or_default().into_iter().filter(|e| !e["ndata"].is_null()).collect();
                exp_un.sort_by_key(|e| e["name"].as_str().unwrap_or("").to_string());
                if json!(exp_un) != p["unparsed"] {
                    return Verdict::fail(attribute(id, labels, "c01.props.unparsed-entities".into(), triggers), format!("unparsed entities: expected {} got {} text={:?}", json!(exp_un), p["unparsed"], text));
                }
                if dt["nots"] != p["notations"] {
                    return Verdict::fail(attribute(id, labels, "c01.props.notations".into(), triggers), format!("notations: expected {} got {} text={:?}", dt["nots"], p["notations"], text));
                }
            }
        }
        Err(e) => {
            return Verdict::fail(attribute(id, labels, "c01.reject.info".into(), triggers), format!("info-level construction failed: {} text={:?}", e, text));
        }
    }
    Verdict::Pass
}

impl Property for C01 {
    fn id(&self) -> &'static str {
        "C01"
    }
    fn rule(&self) -> String {
        "abstract documents (XML declaration, prolog/epilog comments and PIs, DOCTYPE with internal subset of general/unparsed entities, notations, \
         ATTLISTs of every type/default, ELEMENT declarations, comments, PIs; namespace-well-formed element tree with attributes, character data, \
         references, comments, PIs) built from a proptest gene vector, each rendered twice with independent surface choices (quotes, white space, \
         empty-element tag vs pair, literal vs character reference, text vs CDATA, attribute order). Oracle: the expected canonical tree is produced by \
         the renderer from the abstract document (own implementation of entity expansion, attribute normalisation/defaulting, namespace resolution). \
         Non-trivial = at least 3 elements and at least 2 of {DTD declaration kinds, namespace declarations, references, CDATA, comment/PI, attribute}; \
         distinct by hash of the two rendered texts."
            .into()
    }
    fn assumptions(&self) -> Vec<String> {
        vec![
            "the renderer's expected infoset (gen/adoc.rs: Semantics, render) implements XML 1.0 §3.3.3, §4.4-4.6 and Namespaces in XML correctly for the generated profile".into(),
            "entity replacement texts are plain characters (no markup inside entities), no parameter entities, no reliance on an external subset, UTF-8 only".into(),
            "CR characters appear only as character references unless the line-end class is enabled".into(),
        ]
    }
    fn cases_per_shard(&self, tier: Tier) -> u32 {
        tier.pick(700, 30000)
    }
    fn strategy(&self, tier: Tier) -> BoxedStrategy<Json> {
        let max_genes = tier.pick(300usize, 900usize);
        let max_nodes = tier.pick(40usize, 200usize);
        (
            proptest::collection::vec(any::<u16>(), 0..max_genes),
            proptest::collection::vec(any::<u16>(), 0..200),
            proptest::collection::vec(any::<u16>(), 0..200),
        )
            .prop_map(move |(g, c1, c2)| doc_case(g, c1, c2, &DocCfg::full(max_nodes), false))
            .boxed()
    }
    fn fixed_cases(&self, _tier: Tier) -> Vec<Json> {
        crate::engine::regress_cases("C01")
    }
    fn check(&self, case: &Json, _obs: &mut Obs) -> Verdict {
        let labels = labels_of(case);
        let rs = match case["renderings"].as_array() {
            Some(a) => a,
            None => return Verdict::Discard("malformed-case".into()),
        };
        for r in rs {
            match check_rendering(r, &labels, TRIGGERS, "C01") {
                Verdict::Pass => {}
                other => return other,
            }
        }
        Verdict::Pass
    }
    fn floors(&self, _tier: Tier) -> Vec<(&'static str, f64)> {
        vec![("doctype", 0.2), ("ns-prefix", 0.1), ("r:cdata", 0.1), ("attribute", 0.3), ("entity-ref", 0.03), ("defaulted-attr", 0.01)]
    }
}
