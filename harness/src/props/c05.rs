//! C05 — XPath evaluation returns the value XPath 1.0 prescribes (differential against vp-xref).

use crate::engine::{panics, skip_known, Json, Obs, Property, Tier, Verdict};
use crate::gen::xgen::{self, ExprGen, Rng, Ty};
use crate::oracle::{xjson, xmap};
use proptest::prelude::*;
use serde_json::json;
use vp_xref::ast::{Axis, BinOp, Expr, NodeTest, PathStart};
use vp_xref::tree::Kind;
use xml_dom::XmlNode;

pub struct C05;

/// syntactic features of an expression (for labels and finding keys)
pub fn features(e: &Expr, out: &mut Vec<String>) {
    fn add(out: &mut Vec<String>, s: String) {
        if !out.contains(&s) {
            out.push(s);
        }
    }
    match e {
        Expr::Bin(op, a, b) => {
            add(
                out,
                format!(
                    "op:{}",
                    match op {
                        BinOp::Or => "or",
                        BinOp::And => "and",
                        BinOp::Eq => "eq",
                        BinOp::Ne => "ne",
                        BinOp::Lt => "lt",
                        BinOp::Le => "le",
                        BinOp::Gt => "gt",
                        BinOp::Ge => "ge",
                        BinOp::Add => "add",
                        BinOp::Sub => "sub",
                        BinOp::Mul => "mul",
                        BinOp::Div => "div",
                        BinOp::Mod => "mod",
                        BinOp::Union => "union",
                    }
                ),
            );
            features(a, out);
            features(b, out);
        }
        Expr::Neg(a) => {
            add(out, "op:neg".into());
            features(a, out);
        }
        Expr::Literal(_) => add(out, "literal".into()),
        Expr::Number(_) => add(out, "number".into()),
        Expr::Var(_) => add(out, "variable".into()),
        Expr::Call(f, args) => {
            add(out, format!("fn:{}", f));
            for a in args {
                features(a, out);
            }
        }
        Expr::Path(p) => {
            match &p.start {
                PathStart::Root => add(out, "path:absolute".into()),
                PathStart::Context => add(out, "path:relative".into()),
                PathStart::Filter(e, preds) => {
                    add(out, "path:filter".into());
                    features(e, out);
                    for q in preds {
                        add(out, "filter-predicate".into());
                        features(q, out);
                    }
                }
            }
            for s in &p.steps {
                let ax = match s.axis {
                    Axis::Ancestor => "ancestor",
                    Axis::AncestorOrSelf => "ancestor-or-self",
                    Axis::Attribute => "attribute",
                    Axis::Child => "child",
                    Axis::Descendant => "descendant",
                    Axis::DescendantOrSelf => "descendant-or-self",
                    Axis::Following => "following",
                    Axis::FollowingSibling => "following-sibling",
                    Axis::Namespace => "namespace",
                    Axis::Parent => "parent",
                    Axis::Preceding => "preceding",
                    Axis::PrecedingSibling => "preceding-sibling",
                    Axis::SelfAxis => "self",
                };
                add(out, format!("axis:{}", ax));
                add(
                    out,
                    format!(
                        "test:{}",
                        match &s.test {
                            NodeTest::AnyName => "star",
                            NodeTest::NsAny(_) => "ns-star",
                            NodeTest::Name(Some(_), _) => "prefixed-name",
                            NodeTest::Name(None, _) => "name",
                            NodeTest::Node => "node()",
                            NodeTest::Text => "text()",
                            NodeTest::Comment => "comment()",
                            NodeTest::PI(None) => "pi()",
                            NodeTest::PI(Some(_)) => "pi(literal)",
                        }
                    ),
                );
                for q in &s.preds {
                    add(out, "step-predicate".into());
                    features(q, out);
                }
            }
        }
    }
}

pub struct LibValue {
    pub json: Json,
}

/// evaluate with the library; node-sets are mapped to reference indices
pub fn lib_eval(doc: &xml_dom::XmlDocument, map: &xmap::NodeMap, expr: &str, ns: &[(String, String)]) -> Json {
    lib_eval_used(doc, map, expr, ns, false)
}

/// a document and queries that an evaluation context has served before it is handed to the query under test
const EARLIER_DOC: &str = "<r xmlns:p='urn:1' k='1'><e id='a'>t<p:e p:id='b'>u</p:e></e><x/><!--c--><x k='2'><y/>v</x></r>";
const EARLIER_QUERIES: &[&str] = &[
    "//*", "count(//node())", "//x[2]", "/r/@k", "/r/e[@id]", "//e[note[2] or position()=last()]", "//*[nosuch()]", "(//x)[last()]/y", "/r/namespace::*", "//@*", "string(//e)", "//x[y][last()]", "//e/..",
];

/// `used`: the context has evaluated other queries on another document before (a caller may keep one context)
pub fn lib_eval_used(doc: &xml_dom::XmlDocument, map: &xmap::NodeMap, expr: &str, ns: &[(String, String)], used: bool) -> Json {
    let r = panics::catch(|| {
        let mut ctx = xml_xpath::eval::model::Context::default();
        for (p, u) in ns {
            ctx.add_ns(Some(p.as_str()), u.as_str());
        }
        if used {
            if let Ok((_, earlier)) = xml_dom::XmlDocument::from_raw_with_context(EARLIER_DOC, xml_dom::Context::from_text_expanded(true)) {
                let n = EARLIER_QUERIES.len();
                // which queries came before depends on the expression only (replayable)
                let start = expr.len() % n;
                for k in 0..(1 + expr.len() % 4) {
                    let _ = xml_xpath::query(earlier.clone(), EARLIER_QUERIES[(start + k) % n], &mut ctx);
                }
            }
        }
        match xml_xpath::query(doc.clone(), expr, &mut ctx) {
            Ok(v) => Ok(v),
            Err(e) => Err(format!("{:?}", e)),
        }
    });
    match r {
        Err(pi) => json!({"t": "panic", "v": pi.key(), "msg": format!("{} at {}", pi.message, pi.location)}),
        Ok(Err(e)) => json!({"t": "error", "v": e}),
        Ok(Ok(v)) => match v {
            xml_xpath::eval::model::Value::Boolean(b) => json!({"t": "bool", "v": b}),
            xml_xpath::eval::model::Value::Number(n) => json!({"t": "num", "bits": format!("{:016x}", n.to_bits()), "v": format!("{}", n)}),
            xml_xpath::eval::model::Value::Text(s) => json!({"t": "str", "v": s}),
            xml_xpath::eval::model::Value::Node(ns) => {
                let mut idx: Vec<Json> = vec![];
                let mut nsnodes: Vec<String> = vec![];
                for n in &ns {
                    if let XmlNode::Namespace(_) = n {
                        use xml_dom::Node;
                        nsnodes.push(format!("{}={}", n.node_name(), n.node_value().ok().flatten().unwrap_or_default()));
                        continue;
                    }
                    match map.get(&(n.id(), xmap::class_of(n))) {
                        Some(i) => idx.push(json!(i)),
                        None => idx.push(json!(format!("unmapped:{}#{}", crate::gen::hist::kind_name(n), n.id()))),
                    }
                }
                if nsnodes.is_empty() {
                    json!({"t": "nodeset", "v": idx})
                } else {
                    nsnodes.sort();
                    json!({"t": "nodeset", "v": idx, "ns": nsnodes})
                }
            }
        },
    }
}

pub fn values_agree(expected: &Json, got: &Json, tree: &vp_xref::XTree) -> bool {
    match (expected["t"].as_str().unwrap_or(""), got["t"].as_str().unwrap_or("")) {
        ("error", "error") => true,
        ("bool", "bool") => expected["v"] == got["v"],
        ("str", "str") => expected["v"] == got["v"],
        ("num", "num") => {
            let a = xjson::num_of(expected);
            let b = xjson::num_of(got);
            (a.is_nan() && b.is_nan()) || a.to_bits() == b.to_bits()
        }
        ("nodeset", "nodeset") => {
            // namespace nodes have no identity in the library: compared as a multiset of (prefix, uri)
            let exp: Vec<usize> = expected["v"].as_array().map(|a| a.iter().filter_map(|x| x.as_u64().map(|v| v as usize)).collect()).unwrap_or_default();
            let exp_plain: Vec<Json> = exp.iter().filter(|i| tree.nodes[**i].kind != Kind::Namespace).map(|i| json!(i)).collect();
            let mut exp_ns: Vec<String> = exp
                .iter()
                .filter(|i| tree.nodes[**i].kind == Kind::Namespace)
                .map(|i| format!("{}={}", if tree.nodes[*i].local.is_empty() { "xmlns".to_string() } else { tree.nodes[*i].local.clone() }, tree.nodes[*i].value))
                .collect();
            exp_ns.sort();
            let got_ns: Vec<String> = got["ns"].as_array().map(|a| a.iter().filter_map(|x| x.as_str().map(|s| s.to_string())).collect()).unwrap_or_default();
            Json::Array(exp_plain) == got["v"] && exp_ns == got_ns
        }
        _ => false,
    }
}

pub fn make_case(tgenes: Vec<u16>, egenes: Vec<u16>, sgenes: Vec<u8>, ty: Ty, depth: u32) -> Json {
    let mut rt = Rng::new(tgenes);
    let mut tree = xgen::gen_tree(&mut rt);
    let mut text = vp_xref::to_xml(&tree);
    // a few documents carry an internal subset that defaults an attribute on one element type
    let mut defaulted = 0usize;
    if rt.pct(6) {
        if let Some((d, t2, n)) = xgen::with_defaults(&tree, &mut rt) {
            if n >= 1 {
                text = d;
                tree = t2;
                defaulted = n;
            }
        }
    }
    let mut re = Rng::new(egenes);
    let gen = ExprGen { error_pct: 0, ..ExprGen::default() }.with_vocabulary(&tree);
    let ast = gen.gen(&mut re, ty, depth);
    let ns = xgen::expr_ns();
    let mut ch = vp_xref::Choices::new(sgenes);
    let spelled = match vp_xref::spell(&ast, &mut ch) {
        Ok(s) => s,
        Err(e) => return json!({"_discard": format!("unspellable:{}", e.chars().take(30).collect::<String>())}),
    };
    let env = vp_xref::Env::new(&tree, &ns);
    vp_xref::trace::start();
    let expected = vp_xref::eval_root(&ast, &env);
    let trace = vp_xref::trace::take();
    // did the reference evaluation convert a negative zero to a string? (known finding: the library prints "-0")
    let negzero = trace.num_to_str.iter().any(|v| *v == 0.0 && v.is_sign_negative());
    let mut feats = vec![];
    features(&ast, &mut feats);
    let nontrivial = {
        let steps = feats.iter().filter(|f| f.starts_with("axis:")).count();
        let trivial_value = match &expected {
            Ok(vp_xref::Value::NodeSet(v)) => v.is_empty(),
            Ok(vp_xref::Value::Bool(b)) => !*b,
            Ok(vp_xref::Value::Num(n)) => n.is_nan(),
            Ok(vp_xref::Value::Str(s)) => s.is_empty(),
            Err(_) => true,
        };
        (steps >= 2 || feats.iter().any(|f| f == "step-predicate" || f == "filter-predicate") || feats.iter().any(|f| f.starts_with("op:"))) && !trivial_value
    };
    let rtype = match &expected {
        Ok(vp_xref::Value::NodeSet(_)) => "nodeset",
        Ok(vp_xref::Value::Bool(_)) => "bool",
        Ok(vp_xref::Value::Num(_)) => "num",
        Ok(vp_xref::Value::Str(_)) => "str",
        Err(_) => "error",
    };
    let mut labels = feats.clone();
    labels.push(format!("result:{}", rtype));
    if defaulted > 0 {
        labels.push("doc-has-defaulted-attributes".into());
    }
    json!({
        "doc": text,
        "tree": xjson::tree_to_json(&tree),
        "expr": spelled,
        "ns": ns.iter().map(|(p, u)| json!([p, u])).collect::<Vec<_>>(),
        "expected": xjson::value_to_json(&expected),
        "features": feats,
        "negzero_to_string": negzero,
        "_labels": labels,
        "_nontrivial": nontrivial,
    })
}

pub fn check_case(id: &str, case: &Json, obs: &mut Obs) -> Verdict {
    let text = case["doc"].as_str().unwrap_or("");
    let tree = match xjson::tree_from_json(&case["tree"]) {
        Some(t) => t,
        None => return Verdict::Discard("malformed-case".into()),
    };
    let doc = match xml_dom::XmlDocument::from_raw_with_context(text, xml_dom::Context::from_text_expanded(true)) {
        Ok((rest, d)) if rest.is_empty() => d,
        _ => return Verdict::Discard("document-rejected".into()),
    };
    let map = match xmap::align(&doc, &tree) {
        Ok(m) => m,
        Err(e) => return Verdict::Discard(format!("dom-differs-from-reference-tree:{}", e.split(':').next().unwrap_or("").chars().take(24).collect::<String>())),
    };
    let ns: Vec<(String, String)> = case["ns"].as_array().map(|a| a.iter().map(|x| (x[0].as_str().unwrap_or("").to_string(), x[1].as_str().unwrap_or("").to_string())).collect()).unwrap_or_default();
    let expr = case["expr"].as_str().unwrap_or("");
    let expected = &case["expected"];
    if expected["t"] == "error" {
        return Verdict::Discard("reference-says-error".into());
    }
    let feats0: Vec<&str> = case["features"].as_array().map(|a| a.iter().filter_map(|x| x.as_str()).collect()).unwrap_or_default();
    // Namespace nodes: the library hands out one shared node per declaration (no parent, no identity per
    // element), so anything that goes through the namespace axis of more than the bare axis step is excluded
    // by construction while finding <id>.namespace-nodes-shared is open (its witness shows the defect).
    let ns_key = format!("{}.namespace-nodes-shared-between-elements", id.to_lowercase());
    if feats0.contains(&"axis:namespace") && skip_known(id, &ns_key) && case["_witness"].is_null() {
        return Verdict::Discard("excluded:namespace-axis".into());
    }
    let got = lib_eval(&doc, &map, expr, &ns);
    if values_agree(expected, &got, &tree) {
        // a context that has served another document before gives the same value
        let got_used = lib_eval_used(&doc, &map, expr, &ns, true);
        obs.label("used-context-also");
        if !values_agree(expected, &got_used, &tree) {
            let key = format!("{}.used-context-differs.{}", id.to_lowercase(), got_used["t"].as_str().unwrap_or("?"));
            if skip_known(id, &key) {
                obs.known_hits.push(key);
                return Verdict::Pass;
            }
            return Verdict::fail(key, format!("{} on {:?} with a context that has evaluated queries on {:?} before: XPath 1.0 says {}, the library says {} (a fresh context is right)", expr, text, EARLIER_DOC, crate::oracle::canon::short(expected), crate::oracle::canon::short(&got_used)));
        }
        // the raw view coincides with the merged one when the text has no reference and no CDATA section
        if !text.contains('&') && !text.contains("<![CDATA[") {
            if let Ok((rest, raw)) = xml_dom::XmlDocument::from_raw(text) {
                if rest.is_empty() {
                    if let Ok(rmap) = xmap::align(&raw, &tree) {
                        obs.label("raw-view-also");
                        let got_raw = lib_eval(&raw, &rmap, expr, &ns);
                        if !values_agree(expected, &got_raw, &tree) {
                            let key = format!("{}.raw-view-differs.{}", id.to_lowercase(), got_raw["t"].as_str().unwrap_or("?"));
                            if skip_known(id, &key) {
                                obs.known_hits.push(key);
                                return Verdict::Pass;
                            }
                            return Verdict::fail(key, format!("{} on {:?} in the raw view: XPath 1.0 says {}, the library says {} (the merged view is right)", expr, text, crate::oracle::canon::short(expected), crate::oracle::canon::short(&got_raw)));
                        }
                    }
                }
            }
        }
        return Verdict::Pass;
    }
    if feats0.contains(&"axis:namespace") && !case["_witness"].is_null() {
        return Verdict::fail(ns_key, format!("{} on {:?}: XPath 1.0 says {}, the library says {}", expr, text, crate::oracle::canon::short(expected), crate::oracle::canon::short(&got)));
    }
    // string(-0) is "-0" in the library (pinned by its own test). Evaluations in which the reference converts a
    // negative zero to a string are excluded by construction while the finding is open; its witness shows it.
    let z_key = format!("{}.string-of-negative-zero", id.to_lowercase());
    if case["negzero_to_string"].as_bool().unwrap_or(false) {
        if !case["_witness"].is_null() {
            return Verdict::fail(z_key, format!("{} on {:?}: XPath 1.0 says {}, the library says {}", expr, text, crate::oracle::canon::short(expected), crate::oracle::canon::short(&got)));
        }
        if skip_known(id, &z_key) {
            return Verdict::Discard("excluded:negative-zero-to-string".into());
        }
    }
    // DTD-defaulted attribute nodes are made afresh on every access (id 0, order key 0): node-sets collapse them
    // into one. Expressions that walk the attribute axis of such a document are attributed to that finding.
    let d_key = format!("{}.dtd-defaulted-attributes-have-no-identity", id.to_lowercase());
    if case["_labels"].as_array().map(|a| a.iter().any(|l| l == "doc-has-defaulted-attributes")).unwrap_or(false) && feats0.contains(&"axis:attribute") {
        if !case["_witness"].is_null() {
            return Verdict::fail(d_key, format!("{} on {:?}: XPath 1.0 says {}, the library says {}", expr, text, crate::oracle::canon::short(expected), crate::oracle::canon::short(&got)));
        }
        if skip_known(id, &d_key) {
            obs.known_hits.push(d_key);
            return Verdict::Pass;
        }
    }
    let feats: Vec<String> = case["features"].as_array().map(|a| a.iter().filter_map(|x| x.as_str().map(|s| s.to_string())).collect()).unwrap_or_default();
    let mut sig: Vec<String> = feats.iter().filter(|f| !matches!(f.as_str(), "literal" | "number" | "path:relative" | "path:absolute")).cloned().collect();
    sig.sort();
    let key = format!("{}.{}.{}", id.to_lowercase(), got["t"].as_str().unwrap_or("?"), sig.join("+"));
    let key = if got["t"] == "panic" { format!("{}.panic.{}", id.to_lowercase(), got["v"].as_str().unwrap_or("")) } else { key };
    if skip_known(id, &key) {
        obs.known_hits.push(key);
        return Verdict::Pass;
    }
    Verdict::fail(key, format!("{} on {:?}: XPath 1.0 says {}, the library says {}", expr, text, crate::oracle::canon::short(expected), crate::oracle::canon::short(&got)))
}

impl Property for C05 {
    fn id(&self) -> &'static str {
        "C05"
    }
    fn rule(&self) -> String {
        "documents (elements with and without namespaces incl. shadowing and xmlns=\"\", attributes, xml:lang, text values that make coercions meaningful, comments, PIs) and \
         typed expression ASTs of depth <= 5 (all 13 axes, every node-test form, positional/boolean/nested-path predicates, unions, filter expressions, all operators, every \
         core function but id()) generated from proptest gene vectors and spelled with random surface choices; caller prefix bindings differ from the document's prefixes. \
         Oracle: the independent reference evaluator vp-xref (written from the XPath 1.0 text, 6M-case differential campaign against libxml2) evaluates the AST on the reference \
         tree; the library evaluates the spelled string on the parsed text in the merged-text view, and also in the raw view when the text has no reference and no CDATA section (where the two views coincide); node-sets are compared as index vectors through a parallel walk of both \
         trees (order and duplicates matter), numbers bit-exactly (NaN = NaN), strings and booleans exactly. Non-trivial = the expression has >= 2 steps or a predicate or an \
         operator and the reference value is not the trivial empty/false/NaN/\"\"; distinct by (document, expression)."
            .into()
    }
    fn assumptions(&self) -> Vec<String> {
        vec![
            "vp-xref (oracles/xref) implements XPath 1.0 exactly for the generated language; its NOTES.md lists the few places where the recommendation leaves room (string(number) ties, error timing)".into(),
            "namespace nodes have no identity in the library's API: they are compared as a multiset of (prefix, URI)".into(),
            "cases on which the parsed document does not align with the reference tree are discarded and counted (that is C01's subject)".into(),
        ]
    }
    fn cases_per_shard(&self, tier: Tier) -> u32 {
        tier.pick(20000, 400000)
    }
    fn strategy(&self, _tier: Tier) -> BoxedStrategy<Json> {
        (
            proptest::collection::vec(any::<u16>(), 0..160),
            proptest::collection::vec(any::<u16>(), 0..120),
            proptest::collection::vec(any::<u8>(), 0..40),
            0usize..5,
            1u32..6,
        )
            .prop_map(|(t, e, s, ty, depth)| make_case(t, e, s, [Ty::NodeSet, Ty::NodeSet, Ty::Num, Ty::Str, Ty::Bool][ty], depth))
            .boxed()
    }
    fn fixed_cases(&self, _tier: Tier) -> Vec<Json> {
        crate::engine::regress_cases("C05")
    }
    fn check(&self, case: &Json, obs: &mut Obs) -> Verdict {
        check_case("C05", case, obs)
    }
}
