use std::path::Path;
use vp::engine::{self, Tier};

fn tier_of(s: &str) -> Tier {
    match s {
        "thorough" => Tier::Thorough,
        _ => Tier::Quick,
    }
}

fn main() {
    let args: Vec<String> = std::env::args().collect();
    if args.len() < 2 {
        eprintln!("usage: vcheck <ID> quick|thorough | vcheck <ID> --replay FILE | vcheck --list");
        std::process::exit(2);
    }
    match args[1].as_str() {
        "--list" => {
            for p in vp::props::all() {
                println!("{}", p.id());
            }
        }
        "--worker" => {
            // --worker ID tier shard nshards skip out cur
            let p = vp::props::by_id(&args[2]).expect("property");
            let tier = tier_of(&args[3]);
            let shard: usize = args[4].parse().unwrap();
            let nshards: usize = args[5].parse().unwrap();
            let skip: u64 = args[6].parse().unwrap();
            let code = engine::run_worker(p.as_ref(), tier, shard, nshards, skip, Path::new(&args[7]), Path::new(&args[8]));
            std::process::exit(code);
        }
        "--emit-corpus" => {
            // --emit-corpus TARGET DIR N
            let n: usize = args.get(4).and_then(|s| s.parse().ok()).unwrap_or(200);
            match vp::fuzzing::emit_corpus(&args[2], Path::new(&args[3]), n) {
                Ok(k) => println!("{} seed inputs written", k),
                Err(e) => {
                    eprintln!("{}", e);
                    std::process::exit(2);
                }
            }
        }
        "--artifact-to-case" => {
            // --artifact-to-case TARGET ARTIFACT OUT
            if let Err(e) = vp::fuzzing::artifact_to_case(&args[2], Path::new(&args[3]), Path::new(&args[4])) {
                eprintln!("{}", e);
                std::process::exit(2);
            }
        }
        "--replay-child" => {
            let p = vp::props::by_id(&args[2]).expect("property");
            std::process::exit(engine::replay_child(p.as_ref(), Path::new(&args[3])));
        }
        id => {
            let p = match vp::props::by_id(id) {
                Some(p) => p,
                None => {
                    eprintln!("unknown property {}", id);
                    std::process::exit(2);
                }
            };
            if args.len() >= 4 && args[2] == "--replay" {
                std::process::exit(engine::replay_cmd(p.as_ref(), Path::new(&args[3])));
            }
            let tier = tier_of(args.get(2).map(|s| s.as_str()).unwrap_or_else(|| "quick"));
            let tier = match std::env::var("VERIF_TIER").ok().as_deref() {
                Some("thorough") if args.get(2).is_none() => Tier::Thorough,
                _ => tier,
            };
            let r = engine::run_parent(p.as_ref(), tier);
            std::process::exit(r.exit);
        }
    }
}
