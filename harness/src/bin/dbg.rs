use vp::gen::hist::{self, Pool};
use xml_dom::*;
fn main() {
    let f = std::env::args().nth(1).unwrap();
    let d: serde_json::Value = serde_json::from_str(&std::fs::read_to_string(f).unwrap()).unwrap();
    let case = if d.get("case").is_some() { d["case"].clone() } else { d };
    let docs: Vec<String> = case["docs"].as_array().unwrap().iter().map(|x| x.as_str().unwrap().to_string()).collect();
    let mut pool = Pool::new(&docs, case["merged"].as_bool().unwrap_or(false)).unwrap();
    for op in case["ops"].as_array().unwrap() {
        for k in ["p", "c", "r", "n", "o", "e", "a"] {
            if op.get(k).map(|v| v.is_number() || v.is_array()).unwrap_or(false) {
                let i = pool.idx(&op[k]);
                let n = &pool.nodes[i];
                print!(" {}=#{}:{}:id{}(doc{})", k, i, hist::kind_name(n), n.id(), pool.origin[i]);
            }
        }
        let out = hist::apply(&mut pool, op);
        println!("  {} => {:?}", op, out);
        if std::env::var("DBG_TREE").is_ok() {
            for d in pool.docs.iter() {
                fn dump(n: &XmlNode, depth: usize) {
                    println!("{}{}:id{} order{} parent{:?} prev{:?} next{:?}", " ".repeat(depth * 2 + 6), vp::gen::hist::kind_name(n), n.id(), n.order(), n.parent_node().map(|p| p.id()), n.previous_sibling().map(|p| p.id()), n.next_sibling().map(|p| p.id()));
                    for k in n.child_nodes().iter() { dump(&k, depth + 1); }
                }
                dump(&d.as_node(), 0);
            }
        }
    }
    for (i, d) in pool.docs.iter().enumerate() {
        println!("doc{}: {}", i, d);
    }
}
