//! probe: dump what the library reports for a document (development aid, not a check)
use vp::oracle::canon;
use xml_dom::PrettyPrint;
fn main() {
    let args: Vec<String> = std::env::args().collect();
    let text = if args.len() > 1 { args[1].clone() } else { let mut s = String::new(); use std::io::Read; std::io::stdin().read_to_string(&mut s).unwrap(); s };
    match xml_dom::XmlDocument::from_raw(&text) {
        Ok((rest, doc)) => {
            println!("rest={:?}", rest);
            println!("raw   : {}", canon::doc_json(&doc));
            println!("print : {}", doc);
            let mut buf = vec![]; let _ = doc.pretty(&mut buf); println!("pretty: {}", String::from_utf8_lossy(&buf));
        }
        Err(e) => println!("ERR {:?}", e),
    }
    match xml_dom::XmlDocument::from_raw_with_context(&text, xml_dom::Context::from_text_expanded(true)) {
        Ok((_rest, doc)) => {
            println!("merged: {}", canon::doc_json(&doc));
        }
        Err(e) => println!("ERR {:?}", e),
    }
    if args.len() > 2 {
        let (_r, doc) = xml_dom::XmlDocument::from_raw_with_context(&text, xml_dom::Context::from_text_expanded(true)).unwrap();
        let mut ctx = xml_xpath::eval::model::Context::default();
        for e in &args[2..] {
            if let Some((p,u)) = e.strip_prefix("ns:").and_then(|x| x.split_once('=')) { ctx.add_ns(Some(p), u); continue; }
            let r = std::panic::catch_unwind(std::panic::AssertUnwindSafe(|| xml_xpath::query(doc.clone(), e, &mut ctx).map(|v| format!("{:?}", v)).map_err(|e| format!("{:?}", e))));
            println!("xpath {} => {:?}", e, r);
        }
    }
}
