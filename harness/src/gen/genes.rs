//! Gene stream: every random decision of the imperative builders is drawn from a `Vec<u16>` that
//! proptest generates and shrinks. An exhausted stream yields 0 and 0 always selects the simplest
//! alternative, so shrinking (shorter vector, smaller numbers) gives simpler cases.

#[derive(Clone, Debug)]
pub struct Genes {
    data: Vec<u16>,
    pos: usize,
}

impl Genes {
    pub fn new(data: Vec<u16>) -> Genes {
        Genes { data, pos: 0 }
    }
    pub fn raw(&mut self) -> u16 {
        let v = self.data.get(self.pos).copied().unwrap_or(0);
        self.pos += 1;
        v
    }
    /// uniform index in 0..n, monotone in the gene (0 -> 0)
    pub fn pick(&mut self, n: usize) -> usize {
        if n <= 1 {
            // still consume, so that the alignment of later decisions does not depend on n
            self.raw();
            return 0;
        }
        ((self.raw() as usize) * n) >> 16
    }
    /// true with probability num/den; gene 0 -> false
    pub fn chance(&mut self, num: u32, den: u32) -> bool {
        let v = self.raw() as u32;
        // true for the top num/den fraction of the range
        v >= 65536 - (65536 * num / den).min(65536) && num > 0
    }
    /// weighted choice; index 0 is the simplest alternative
    pub fn weighted(&mut self, weights: &[u32]) -> usize {
        let total: u32 = weights.iter().sum();
        if total == 0 {
            self.raw();
            return 0;
        }
        let mut x = ((self.raw() as u64) * (total as u64) >> 16) as u32;
        for (i, w) in weights.iter().enumerate() {
            if x < *w {
                return i;
            }
            x -= *w;
        }
        weights.len() - 1
    }
    /// number in lo..=hi, 0 -> lo
    pub fn range(&mut self, lo: usize, hi: usize) -> usize {
        lo + self.pick(hi - lo + 1)
    }
    pub fn exhausted(&self) -> bool {
        self.pos >= self.data.len()
    }
    pub fn remaining(&self) -> usize {
        self.data.len().saturating_sub(self.pos)
    }
}
