//! HistGen — DOM edit histories: generation from a gene stream, JSON encoding, and an interpreter
//! that applies each operation to the library and reports the outcome to a monitor.

use super::genes::Genes;
use crate::engine::panics;
use serde_json::{json, Value as Json};
use xml_dom::{
    AsNode, Attr, AttrMut, CharacterData, CharacterDataMut, Document, DocumentMut, Element, ElementMut, NamedNodeMapMut, Node, NodeList, NodeMut,
    ProcessingInstructionMut, TextMut, XmlDocument, XmlNode,
};

pub const START_DOCS: &[&str] = &[
    "<r><a id=\"1\">x<b/>y</a><c k=\"v\"><!--m--><d/></c><?p q?>t<l>] ]> a long run of character data, more than sixty-four characters: 0123456789 0123456789 ]] &gt;<![CDATA[]] ] a long CDATA section, more than sixty-four characters: 0123456789 0123456789 0123456789]]></l></r>",
    "<r id=\"r\"><a id=\"1\" k=\"x\">t</a><b id=\"2\" k=\"y\"><c k=\"z\">&#65;</c></b></r>",
    "<!DOCTYPE r [<!ENTITY e \"ee\"><!ENTITY m \"<i>x</i>\"><!ATTLIST a d CDATA \"dv\">]><r>t1<a n=\"1\">&e;<![CDATA[cd]]></a><b><c><d>deep</d>&m;</c></b></r>",
    "<r xmlns=\"urn:d\" xmlns:p=\"urn:1\"><g><p:a p:k=\"1\" k=\"2\">\u{e9}\u{1F600}</p:a><b>one</b></g>two<s xmlns:p=\"urn:2\" w=\"1\" xmlns=\"\"><p:c/><d>three</d></s></r>",
    "<?x y?><!DOCTYPE r><r><!--c1--><a>a-b-c</a><b>]]</b><c>&#169;</c><e>t&#233;</e></r><!--a-b-c-d-e-f-g-h-i-j-k-l, more than sixty-four characters of comment - with single hyphens - 0123456789-->",
    "<r><!--a-b-c--><![CDATA[]]x>]]><t>]]x></t><u q=\"x'\" w=\"]]>\">-</u><!---x--></r>",
];

/// strings for names and data: harmless, markup-significant, multi-byte
pub const NAMES: &[&str] = &["e", "a", "b", "n", "k", "id", "d", "p", "p:q", "x1", "a x=\"1\"", "1a", "", "a b", "<", "\u{e9}", "xml", "a:b:c", "-a"];
pub const SAFE_NAMES: &[&str] = &["e", "a", "b", "n", "k", "id", "d", "p", "x1", "\u{e9}"];
pub const DATA: &[&str] = &[
    "", "x", "abc", "a-b-c", "-", "--", "a-", "]", "]]", "]]>", ">", "<", "&", "&amp;", "\"", "'", "\"'", "?>", "?", " ", "\n", "\u{e9}", "\u{1F600}", "e\u{301}", "a\u{1F600}b\u{e9}c", "<b/>", "&#65;", "&e;", "&m;", "x y",
];
pub const SAFE_DATA: &[&str] = &["", "x", "abc", "a b", "\u{e9}", "\u{1F600}", "e\u{301}", "a\u{1F600}b\u{e9}c", "12", "z"];

#[derive(Clone, Debug, Default)]
pub struct HistCfg {
    pub max_ops: usize,
    /// only strings that every node kind can store (no markup-significant characters)
    pub safe_strings: bool,
    /// weights: structural ops, attribute ops, character-data ops, creation
    pub w_struct: u32,
    pub w_attr: u32,
    pub w_chardata: u32,
    pub w_create: u32,
    /// offsets/counts for character data also draw usize::MAX and usize::MAX-1
    pub huge_offsets: bool,
    /// number of START_DOCS usable (0 = all)
    pub max_doc: usize,
    /// weight of two-call steps: create a node and attach it at once (builds subtrees and multi-piece values)
    pub w_compound: u32,
    /// replacements whose argument meets ']' / '>' on either side of the replaced range, even with safe strings
    pub seams: bool,
    /// weight of navigation steps: the caller reads the children of a node in mid-history and keeps the handles it
    /// finds (snapshots of merged text nodes among them), then edits around and with them
    pub w_navigate: u32,
    /// namespace declarations are set through the DOM too (attribute names xmlns, xmlns:p, xmlns:q; elements that carry nothing else)
    pub ns_names: bool,
}

fn pick_str(g: &mut Genes, pool: &[&str]) -> String {
    pool[g.pick(pool.len())].to_string()
}

/// an edit of the node that was created and attached just before (it is still the newest pool member)
fn follow_up_edit(g: &mut Genes, data: &[&str]) -> Json {
    let n = json!([65535, "recent"]);
    let off = g.pick(5);
    match g.weighted(&[4, 2, 2, 2]) {
        0 => json!({"op": "split_text", "n": n, "off": off}),
        1 => json!({"op": "insert_data", "n": n, "off": off, "s": pick_str(g, data)}),
        2 => json!({"op": "delete_data", "n": n, "off": off, "cnt": 1 + g.pick(3)}),
        _ => json!({"op": "replace_data", "n": n, "off": off, "cnt": g.pick(3), "s": pick_str(g, data)}),
    }
}

pub fn gen_history(g: &mut Genes, cfg: &HistCfg) -> Json {
    let nd = if cfg.max_doc == 0 { START_DOCS.len() } else { cfg.max_doc.min(START_DOCS.len()) };
    let d1 = g.pick(nd);
    let d2 = g.pick(nd);
    // (the navigating shards spend half of their histories in the merged-text view, where handles are snapshots)
    let merged = if cfg.w_navigate > 0 { g.chance(1, 2) } else { g.chance(1, 4) };
    let n = g.range(0, cfg.max_ops);
    let names = if cfg.safe_strings { SAFE_NAMES } else { NAMES };
    const NS_NAMES: &[&str] = &["e", "a", "b", "k", "xmlns:q", "xmlns:p", "xmlns", "p:a", "q:k"];
    const NS_VALUES: &[&str] = &["urn:1", "urn:2", "urn:d", "x"];
    let data = if cfg.safe_strings { SAFE_DATA } else { DATA };
    let mut ops: Vec<Json> = vec![];
    for _ in 0..n {
        let class = g.weighted(&[cfg.w_struct, cfg.w_attr, cfg.w_chardata, cfg.w_create, cfg.w_compound, cfg.w_navigate]);
        if class == 5 {
            let d = g.raw();
            let rp = g.raw();
            if cfg.ns_names && g.chance(1, 4) {
                // an element that carries nothing but declarations (or one plain attribute, or a child), put in front of a child /
                // in place of a child / at the end of an element
                let en = ["e", "a", "b", "p:a"][g.pick(4)];
                ops.push(json!({"op": "create_element", "d": d, "name": en}));
                let newest = json!([65535, "recent"]);
                for _ in 0..(1 + g.pick(2)) {
                    ops.push(json!({"op": "set_attr", "e": newest.clone(), "name": pick_str(g, NS_NAMES), "value": pick_str(g, NS_VALUES)}));
                }
                let q = json!([rp, "element"]);
                match g.weighted(&[3, 2, 1]) {
                    0 => ops.push(json!({"op": "insert_before", "p": q.clone(), "c": newest, "r": [g.raw(), "child-of", q]})),
                    1 => ops.push(json!({"op": "replace", "p": q.clone(), "n": newest, "o": [g.raw(), "child-of", q]})),
                    _ => ops.push(json!({"op": "append", "p": q, "c": newest})),
                }
                continue;
            }
            let pk = ["element", "container", "attr", "detached-element", "document"][g.weighted(&[8, 2, 2, 2, 1])];
            let pspec = json!([rp, pk]);
            // often a text-like node is put next to what is there first, so that the parent shows a run of several pieces
            if g.chance(1, 2) {
                let create = ["create_text", "create_cdata", "create_text"][g.pick(3)];
                ops.push(json!({"op": create, "d": d, "s": pick_str(g, data)}));
                if g.chance(2, 3) {
                    ops.push(json!({"op": "append", "p": pspec.clone(), "c": [65535, "recent"]}));
                } else {
                    ops.push(json!({"op": "insert_before", "p": pspec.clone(), "c": [65535, "recent"], "r": [g.raw(), "child-of", pspec.clone()]}));
                }
            }
            ops.push(json!({"op": "children", "p": pspec.clone()}));
            // then calls around and with the handles just taken: a piece or a neighbour moves away through its own handle,
            // the handle read before that is used afterwards
            let follow = 1 + g.pick(3);
            for _ in 0..follow {
                let c = match g.weighted(&[3, 3, 2, 2]) {
                    0 => json!([g.raw(), "recent"]),
                    1 => json!([g.raw(), "child-of", pspec.clone()]),
                    2 => json!([g.raw(), "text"]),
                    _ => json!([g.raw(), "expandedtext"]),
                };
                let qk = ["element", "element", "attr", "detached-element", "recent"][g.pick(5)];
                let q = json!([g.raw(), qk]);
                match g.weighted(&[4, 3, 2, 2]) {
                    0 => ops.push(json!({"op": "append", "p": q, "c": c})),
                    1 => ops.push(json!({"op": "insert_before", "p": q.clone(), "c": c, "r": [g.raw(), "child-of", q]})),
                    2 => ops.push(json!({"op": "replace", "p": q.clone(), "n": c, "o": [g.raw(), "child-of", q]})),
                    _ => ops.push(json!({"op": "remove", "p": pspec.clone(), "c": c})),
                }
            }
            continue;
        }
        if class == 4 {
            let d = g.raw();
            let rp = g.raw();
            let newest = json!([65535, "recent"]);
            match g.weighted(&[3, 6, 2, 1, 2, 1, if cfg.safe_strings && !cfg.seams { 0 } else { 1 }]) {
                6 => {
                    // a replacement whose argument is harmless by itself but spells ']]>' (or is fine) together with the
                    // characters that stay on either side of the replaced range
                    const SEAMS: &[(&str, &str, &str)] = &[
                        ("a]]", ">", ""), ("a]", "]>", "b"), ("", "]]", ">b"), ("x]]", "", ">y"), ("\u{1F600}]]", ">", "z"), ("]", "]", ">"), ("q]", "]", "]>"), ("a]]", "x", ">"), ("ab", ">", "cd"), ("]]", "&gt;", ""),
                    ];
                    let (head, arg, tail) = SEAMS[g.pick(SEAMS.len())];
                    let mid = ["z", "zz", "\u{e9}\u{1F600}", "]"][g.pick(4)];
                    let whole = format!("{}{}{}", head, mid, tail);
                    let create = if g.chance(1, 3) { "create_cdata" } else { "create_text" };
                    ops.push(json!({"op": create, "d": d, "s": whole}));
                    if g.chance(3, 4) {
                        ops.push(json!({"op": "append", "p": [rp, "element"], "c": newest.clone()}));
                    }
                    let off = head.chars().count();
                    let cnt = mid.chars().count();
                    match g.weighted(&[5, 1, 1]) {
                        0 => ops.push(json!({"op": "replace_data", "n": newest, "off": off, "cnt": cnt, "s": arg})),
                        1 => ops.push(json!({"op": "replace_data", "n": newest, "off": off, "cnt": cnt + tail.chars().count() + g.pick(3), "s": arg})),
                        _ => ops.push(json!({"op": "insert_data", "n": newest, "off": off, "s": arg})),
                    }
                    // and a read / another edit on the same node afterwards
                    if g.chance(1, 2) {
                        ops.push(follow_up_edit(g, data));
                    }
                }
                5 => {
                    // take something out of a document and put a document-level node (back) in
                    let docspec = json!([rp, "document"]);
                    ops.push(json!({"op": "remove", "p": docspec.clone(), "c": [g.raw(), "child-of", docspec.clone()]}));
                    let back = json!([g.raw(), "doc-level"]);
                    if g.chance(1, 2) {
                        ops.push(json!({"op": "append", "p": docspec, "c": back}));
                    } else {
                        ops.push(json!({"op": "insert_before", "p": docspec.clone(), "c": back, "r": [g.raw(), "child-of", docspec]}));
                    }
                }
                4 => {
                    // a burst of two or three text nodes appended to one parent (sequences that only arise by adjacency)
                    let tk = ["element", "attr", "detached-element"][g.weighted(&[5, 2, 2])];
                    let target = json!([rp, tk]);
                    // half of the bursts spell a sequence that is forbidden only as a whole, split over the pieces
                    const SPLITS: &[&[&str]] = &[
                        &["]", "]", ">"], &["]]", "", ">"], &["]", "", "]>"], &["]]", ">"], &["a]]", "", ">b"], &["]", "]>"], &["x]", "]", "", ">"],
                        &["\"", "'"], &["'", "", "\""], &["it's", " \"q\""],
                    ];
                    let pieces: Vec<String> = if !cfg.safe_strings && g.chance(1, 2) {
                        SPLITS[g.pick(SPLITS.len())].iter().map(|s| s.to_string()).collect()
                    } else {
                        (0..(2 + g.pick(2))).map(|_| pick_str(g, data)).collect()
                    };
                    for s in pieces {
                        ops.push(json!({"op": "create_text", "d": d, "s": s}));
                        ops.push(json!({"op": "append", "p": target.clone(), "c": [65535, "recent"]}));
                    }
                }
                0 => {
                    // a further text piece for an attribute value
                    ops.push(json!({"op": "create_text", "d": d, "s": pick_str(g, data)}));
                    ops.push(json!({"op": "append", "p": [rp, "attr"], "c": newest}));
                }
                1 => {
                    let create = match g.weighted(&[4, 3, 1, 1, 1]) {
                        0 => json!({"op": "create_element", "d": d, "name": pick_str(g, names)}),
                        1 => json!({"op": "create_text", "d": d, "s": pick_str(g, data)}),
                        2 => json!({"op": "create_comment", "d": d, "s": pick_str(g, data)}),
                        3 => json!({"op": "create_cdata", "d": d, "s": pick_str(g, data)}),
                        _ => json!({"op": "create_pi", "d": d, "name": pick_str(g, names), "s": pick_str(g, data)}),
                    };
                    let target = ["element", "detached-element", "recent"][g.weighted(&[4, 3, 3])];
                    let is_chardata = matches!(create["op"].as_str(), Some("create_text") | Some("create_cdata") | Some("create_comment"));
                    ops.push(create);
                    ops.push(json!({"op": "append", "p": [rp, target], "c": newest}));
                    if is_chardata && g.chance(1, 3) {
                        ops.push(follow_up_edit(g, data));
                    }
                }
                2 => {
                    let pspec = json!([rp, "element"]);
                    let create = match g.weighted(&[4, 2, 2, 1]) {
                        0 => json!({"op": "create_element", "d": d, "name": pick_str(g, names)}),
                        1 => json!({"op": "create_text", "d": d, "s": pick_str(g, data)}),
                        2 => json!({"op": "create_cdata", "d": d, "s": pick_str(g, data)}),
                        _ => json!({"op": "create_comment", "d": d, "s": pick_str(g, data)}),
                    };
                    let is_chardata = !matches!(create["op"].as_str(), Some("create_element"));
                    ops.push(create);
                    ops.push(json!({"op": "insert_before", "p": pspec.clone(), "c": newest, "r": [g.raw(), "child-of", pspec]}));
                    if is_chardata && g.chance(1, 2) {
                        ops.push(follow_up_edit(g, data));
                    }
                }
                _ => {
                    ops.push(json!({"op": "create_attr", "d": d, "name": pick_str(g, names)}));
                    ops.push(json!({"op": "set_attr_node", "e": [rp, "element"], "a": newest}));
                }
            }
            continue;
        }
        let ra = g.raw();
        let rb = g.raw();
        let rc = g.raw();
        let filt = |g: &mut Genes, raw: u16, opts: &[&str], w: &[u32]| -> Json {
            let f = opts[g.weighted(w)];
            if f == "any" {
                json!(raw)
            } else {
                json!([raw, f])
            }
        };
        let off = |g: &mut Genes, huge: bool| -> Json {
            let k = g.pick(if huge { 14 } else { 12 });
            match k {
                12 => json!("max"),
                13 => json!("max-1"),
                k => json!(k),
            }
        };
        let op = match class {
            0 => {
                let p = filt(g, ra, &["any", "element", "container", "detached-element", "recent", "document", "attr"], &[1, 6, 2, 2, 1, 2, 2]);
                let c = filt(g, rb, &["any", "content", "element", "leaf", "detached", "recent", "doc-level", "expandedtext"], &[1, 4, 3, 2, 2, 2, 1, 1]);
                let r = filt(g, rc, &["any", "content"], &[1, 3]);
                // mostly a real child of the receiver as reference / old / removed child
                let rel = g.chance(2, 3);
                let r = if rel { json!([rc, "child-of", p.clone()]) } else { r };
                // now and then the new child is an ancestor of the receiver (must be refused: hierarchy)
                let c = if g.chance(1, 12) { json!([rb, "ancestor-of", p.clone()]) } else { c };
                // a document receiver mostly gets what may live below a document (its element, its document type)
                let c = if p.as_array().map(|a| a.get(1) == Some(&json!("document"))).unwrap_or(false) && g.chance(2, 3) { json!([rb, "doc-level"]) } else { c };
                // an attribute receiver mostly gets text-like nodes (merged text nodes in the merged view)
                let c = if p.as_array().map(|a| a.get(1) == Some(&json!("attr"))).unwrap_or(false) && g.chance(1, 2) { json!([rb, "expandedtext"]) } else { c };
                match g.weighted(&[4, 3, 2, 3]) {
                    0 => json!({"op": "append", "p": p, "c": c}),
                    1 => json!({"op": "insert_before", "p": p, "c": c, "r": r}),
                    2 => json!({"op": "replace", "p": p, "n": c, "o": r}),
                    _ => {
                        let c = if rel { json!([rb, "child-of", p.clone()]) } else { c };
                        json!({"op": "remove", "p": p, "c": c})
                    }
                }
            }
            1 => {
                let a = filt(g, ra, &["any", "element", "attr"], &[1, 6, 1]);
                let b = filt(g, rb, &["any", "attr", "recent"], &[1, 6, 1]);
                let a2 = filt(g, ra, &["any", "attr", "chardata", "pi"], &[2, 3, 2, 1]);
                let b = match g.weighted(&[5, 2, 2]) {
                    0 => b,
                    1 => json!([rb, "attr-named-like", a.clone()]),
                    _ => json!([rb, "attr-of", a.clone()]),
                };
                match g.weighted(&[4, 2, 2, 1, 2, 1, 2]) {
                0 => json!({"op": "set_attr", "e": a, "name": pick_str(g, names), "value": pick_str(g, data)}),
                1 => json!({"op": "remove_attr", "e": a, "name": pick_str(g, names)}),
                2 => json!({"op": "set_attr_node", "e": a, "a": b}),
                3 => json!({"op": "remove_attr_node", "e": a, "a": b}),
                4 => json!({"op": "set_named_item", "e": a, "a": b}),
                5 => json!({"op": "remove_named_item", "e": a, "name": pick_str(g, names)}),
                _ => json!({"op": "set_value", "n": a2, "s": pick_str(g, data)}),
                }
            }
            2 => {
                // (merged text nodes exist in the merged-text view only; elsewhere the filter falls back to any node)
                let a = filt(g, ra, &["any", "chardata", "text", "pi", "recent", "expandedtext"], &[1, 6, 2, 1, 1, 2]);
                match g.weighted(&[2, 2, 3, 3, 3, 2, 1, 2, 1]) {
                0 => json!({"op": "set_data", "n": a, "s": pick_str(g, data)}),
                1 => json!({"op": "append_data", "n": a, "s": pick_str(g, data)}),
                2 => json!({"op": "insert_data", "n": a, "off": off(g, cfg.huge_offsets), "s": pick_str(g, data)}),
                3 => json!({"op": "delete_data", "n": a, "off": off(g, cfg.huge_offsets), "cnt": off(g, cfg.huge_offsets)}),
                4 => json!({"op": "replace_data", "n": a, "off": off(g, cfg.huge_offsets), "cnt": off(g, cfg.huge_offsets), "s": pick_str(g, data)}),
                5 => json!({"op": "split_text", "n": a, "off": off(g, cfg.huge_offsets)}),
                6 => json!({"op": "pi_set_data", "n": a, "s": pick_str(g, data)}),
                7 => json!({"op": "substring", "n": a, "off": off(g, cfg.huge_offsets), "cnt": off(g, cfg.huge_offsets)}),
                _ => json!({"op": "length", "n": a}),
                }
            }
            _ => {
                let a = ra;
                match g.weighted(&[4, 4, 2, 2, 2, 2, 1]) {
                0 => json!({"op": "create_element", "d": a, "name": pick_str(g, names)}),
                1 => json!({"op": "create_text", "d": a, "s": pick_str(g, data)}),
                2 => json!({"op": "create_comment", "d": a, "s": pick_str(g, data)}),
                3 => json!({"op": "create_cdata", "d": a, "s": pick_str(g, data)}),
                4 => json!({"op": "create_pi", "d": a, "name": pick_str(g, names), "s": pick_str(g, data)}),
                5 => json!({"op": "create_attr", "d": a, "name": pick_str(g, names)}),
                _ => {
                    let nm = ["e", "amp", "nosuch", "lt"][g.pick(4)];
                    json!({"op": "create_entity_ref", "d": a, "name": nm})
                }
                }
            }
        };
        ops.push(op);
    }
    json!({"docs": [START_DOCS[d1], START_DOCS[d2], START_DOCS[d1]], "merged": merged, "ops": ops})
}

// ------------------------------------------------------------------------------------------------

#[derive(Clone, Debug, PartialEq)]
pub enum Outcome {
    /// the call returned Ok; the string describes the returned value when there is one
    Ok(String),
    /// DomException or other error (Debug form)
    Err(String),
    Panic(String, String),
    /// the receiver/argument kinds do not offer this operation in the Rust API (nothing was called)
    NotApplicable,
    /// operand shape excluded by construction (nothing was called); the reason is counted
    Excluded(&'static str),
}

pub struct Pool {
    pub docs: Vec<XmlDocument>,
    pub nodes: Vec<XmlNode>,
    /// index of the document (in `docs`) each pool node was created from / belongs to originally
    pub origin: Vec<usize>,
}

fn collect(n: &XmlNode, out: &mut Vec<XmlNode>, depth: usize) {
    if depth > 200 {
        return;
    }
    out.push(n.clone());
    if let Some(attrs) = n.attributes() {
        for a in attrs.iter() {
            out.push(a.as_node());
            // the value pieces of a written attribute are nodes too (a defaulted attribute's are shared: left out)
            if a.as_node().id() != 0 {
                for piece in a.as_node().child_nodes().iter() {
                    out.push(piece);
                }
            }
        }
    }
    for c in n.child_nodes().iter() {
        collect(&c, out, depth + 1);
    }
}

impl Pool {
    pub fn new(docs: &[String], merged: bool) -> Option<Pool> {
        let mut ds = vec![];
        for t in docs {
            let d = if merged {
                xml_dom::XmlDocument::from_raw_with_context(t, xml_dom::Context::from_text_expanded(true)).ok()?.1
            } else {
                xml_dom::XmlDocument::from_raw(t).ok()?.1
            };
            ds.push(d);
        }
        let mut nodes = vec![];
        let mut origin = vec![];
        for (i, d) in ds.iter().enumerate() {
            let mut v = vec![];
            collect(&d.as_node(), &mut v, 0);
            for n in v {
                nodes.push(n);
                origin.push(i);
            }
        }
        Some(Pool { docs: ds, nodes, origin })
    }
    /// `raw` is either a number (index over the whole pool) or [number, "filter"] (index over the
    /// pool members matching the filter, falling back to the whole pool when none matches)
    pub fn idx(&self, raw: &Json) -> usize {
        // relational form: [number, relation, base operand] — index over the pool members standing in that
        // relation to the base operand (falls back to the plain forms when none does)
        if let Json::Array(a) = raw {
            if a.len() == 3 {
                let r = a[0].as_u64().unwrap_or(0) as usize;
                let rel = a[1].as_str().unwrap_or("");
                let base = self.idx(&a[2]);
                let same = |i: usize, n: &XmlNode| -> bool { self.origin[i] == self.origin[base] && n.id() == self.nodes[base].id() && std::mem::discriminant(n) == std::mem::discriminant(&self.nodes[base]) };
                let cand: Vec<usize> = (0..self.nodes.len())
                    .filter(|&i| {
                        let n = &self.nodes[i];
                        match rel {
                            "child-of" => !matches!(n, XmlNode::Attribute(_)) && n.parent_node().map(|p| same(i, &p)).unwrap_or(false),
                            // a proper ancestor of the base operand (inserting it below the base must be refused)
                            "ancestor-of" => {
                                let mut cur = self.nodes[base].parent_node();
                                let mut hit = false;
                                let mut steps = 0;
                                while let Some(p) = cur {
                                    if self.origin[i] == self.origin[base] && n.id() == p.id() && std::mem::discriminant(n) == std::mem::discriminant(&p) {
                                        hit = true;
                                        break;
                                    }
                                    steps += 1;
                                    if steps > 64 {
                                        break;
                                    }
                                    cur = p.parent_node();
                                }
                                hit && !matches!(n, XmlNode::Document(_))
                            }
                            "attr-of" => match n {
                                XmlNode::Attribute(a) => a.owner_element().map(|e| same(i, &e.as_node())).unwrap_or(false),
                                _ => false,
                            },
                            "attr-named-like" => match (n, &self.nodes[base]) {
                                // an attribute of ANOTHER element whose name the base element also uses
                                (XmlNode::Attribute(a), XmlNode::Element(e)) => {
                                    let owned_by_base = a.owner_element().map(|o| same(i, &o.as_node())).unwrap_or(false);
                                    !owned_by_base && a.owner_element().is_some() && e.get_attribute_node(&a.name()).is_some()
                                }
                                _ => false,
                            },
                            _ => false,
                        }
                    })
                    .collect();
                if !cand.is_empty() {
                    return cand[(r * cand.len()) >> 16];
                }
                return self.idx(&json!([a[0], "any"]));
            }
        }
        let (r, f) = match raw {
            Json::Array(a) => (a.first().and_then(|x| x.as_u64()).unwrap_or(0) as usize, a.get(1).and_then(|x| x.as_str()).unwrap_or("any")),
            other => (other.as_u64().unwrap_or(0) as usize, "any"),
        };
        if f != "any" {
            let cand: Vec<usize> = (0..self.nodes.len()).filter(|i| matches_filter(&self.nodes[*i], f, *i, self.nodes.len())).collect();
            if !cand.is_empty() {
                return cand[(r * cand.len()) >> 16];
            }
        }
        (r * self.nodes.len()) >> 16
    }
    pub fn node(&self, raw: &Json) -> XmlNode {
        self.nodes[self.idx(raw)].clone()
    }
    pub fn push(&mut self, n: XmlNode, origin: usize) {
        self.nodes.push(n);
        self.origin.push(origin);
    }
}

pub fn matches_filter(n: &XmlNode, f: &str, index: usize, len: usize) -> bool {
    match f {
        "element" => matches!(n, XmlNode::Element(_)),
        "container" => matches!(n, XmlNode::Element(_) | XmlNode::Document(_) | XmlNode::Attribute(_)),
        "leaf" => matches!(n, XmlNode::Text(_) | XmlNode::Comment(_) | XmlNode::PI(_) | XmlNode::CData(_) | XmlNode::EntityReference(_)),
        "content" => matches!(n, XmlNode::Element(_) | XmlNode::Text(_) | XmlNode::Comment(_) | XmlNode::PI(_) | XmlNode::CData(_) | XmlNode::EntityReference(_)),
        "chardata" => matches!(n, XmlNode::Text(_) | XmlNode::Comment(_) | XmlNode::CData(_)),
        "text" => matches!(n, XmlNode::Text(_) | XmlNode::CData(_)),
        "attr" => matches!(n, XmlNode::Attribute(_)),
        "pi" => matches!(n, XmlNode::PI(_)),
        "recent" => index + 6 >= len,
        "detached" => n.parent_node().is_none() && !matches!(n, XmlNode::Document(_) | XmlNode::Attribute(_) | XmlNode::DocumentType(_)),
        "detached-element" => n.parent_node().is_none() && matches!(n, XmlNode::Element(_)),
        "document" => matches!(n, XmlNode::Document(_)),
        // what lives directly below a document: its document type and its document element
        "doc-level" => matches!(n, XmlNode::DocumentType(_)) || (matches!(n, XmlNode::Element(_)) && matches!(n.parent_node(), Some(XmlNode::Document(_)))),
        // a merged text node with several pieces (merged-text view only)
        "expandedtext" => matches!(n, XmlNode::ExpandedText(_)),
        _ => true,
    }
}

pub fn offset_of(j: &Json) -> usize {
    match j {
        Json::String(s) if s == "max" => usize::MAX,
        Json::String(s) if s == "max-1" => usize::MAX - 1,
        other => other.as_u64().unwrap_or(0) as usize,
    }
}

fn with_nodemut<T>(n: &XmlNode, f: impl FnOnce(&dyn NodeMut) -> T) -> Option<T> {
    match n {
        XmlNode::Document(v) => Some(f(v)),
        XmlNode::Element(v) => Some(f(v)),
        XmlNode::Attribute(v) => Some(f(v)),
        XmlNode::Text(v) => Some(f(v)),
        XmlNode::Comment(v) => Some(f(v)),
        XmlNode::CData(v) => Some(f(v)),
        XmlNode::PI(v) => Some(f(v)),
        _ => None,
    }
}

fn with_chardatamut<T>(n: &XmlNode, f: impl FnOnce(&dyn CharacterDataMut) -> T) -> Option<T> {
    match n {
        XmlNode::Text(v) => Some(f(v)),
        XmlNode::Comment(v) => Some(f(v)),
        XmlNode::CData(v) => Some(f(v)),
        _ => None,
    }
}

pub fn with_chardata<T>(n: &XmlNode, f: impl FnOnce(&dyn CharacterData) -> T) -> Option<T> {
    match n {
        XmlNode::Text(v) => Some(f(v)),
        XmlNode::Comment(v) => Some(f(v)),
        XmlNode::CData(v) => Some(f(v)),
        XmlNode::ExpandedText(v) => Some(f(v)),
        _ => None,
    }
}

fn res<T>(r: xml_dom::error::Result<T>, d: impl FnOnce(&T) -> String) -> (Outcome, Option<T>) {
    match r {
        Ok(v) => (Outcome::Ok(d(&v)), Some(v)),
        Err(e) => (Outcome::Err(format!("{:?}", e)), None),
    }
}

/// Apply one operation. New nodes (created, returned by remove/replace, split off) are pushed to the pool.
pub fn apply(pool: &mut Pool, op: &Json) -> Outcome {
    let kind = op["op"].as_str().unwrap_or("");
    // DTD-defaulted attribute nodes (id 0) are ephemeral views that share their value nodes with the
    // ATTLIST declaration; using them as operands of mutators is excluded by construction (one known
    // finding covers them) so that histories keep exploring everything else.
    for k in ["p", "c", "r", "n", "o", "e", "a"] {
        if op.get(k).map(|v| v.is_number() || v.is_array()).unwrap_or(false) {
            let n = pool.node(&op[k]);
            if matches!(n, XmlNode::Attribute(_)) && n.id() == 0 {
                return Outcome::Excluded("defaulted-attribute-operand");
            }
            if let Some(XmlNode::Attribute(pa)) = n.parent_node() {
                if pa.as_node().id() == 0 {
                    return Outcome::Excluded("defaulted-attribute-operand");
                }
            }
        }
    }
    let r = panics::catch(|| apply_inner(pool, kind, op));
    match r {
        Ok(o) => o,
        Err(pi) => Outcome::Panic(pi.key(), format!("{} at {}", pi.message, pi.location)),
    }
}

fn doc_of(pool: &Pool, raw: &Json) -> (usize, XmlDocument) {
    let i = (raw.as_u64().unwrap_or(0) as usize * pool.docs.len()) >> 16;
    (i, pool.docs[i].clone())
}

fn apply_inner(pool: &mut Pool, kind: &str, op: &Json) -> Outcome {
    let s = |k: &str| op[k].as_str().unwrap_or("").to_string();
    match kind {
        "append" => {
            let p = pool.node(&op["p"]);
            let c = pool.node(&op["c"]);
            match with_nodemut(&p, |m| m.append_child(c)) {
                Some(r) => res(r, |v| format!("id{}", v.id())).0,
                None => Outcome::NotApplicable,
            }
        }
        "insert_before" => {
            let p = pool.node(&op["p"]);
            let c = pool.node(&op["c"]);
            let r = pool.node(&op["r"]);
            match with_nodemut(&p, |m| m.insert_before(c, Some(&r))) {
                Some(x) => res(x, |v| format!("id{}", v.id())).0,
                None => Outcome::NotApplicable,
            }
        }
        "replace" => {
            let p = pool.node(&op["p"]);
            let n = pool.node(&op["n"]);
            let o = pool.node(&op["o"]);
            let oi = pool.origin[pool.idx(&op["o"])]; // before the call: relational operands depend on the state
            match with_nodemut(&p, |m| m.replace_child(n, &o)) {
                Some(x) => {
                    let (out, v) = res(x, |v| format!("id{}", v.id()));
                    if let Some(v) = v {
                        pool.push(v, oi);
                    }
                    out
                }
                None => Outcome::NotApplicable,
            }
        }
        "remove" => {
            let p = pool.node(&op["p"]);
            let c = pool.node(&op["c"]);
            let oi = pool.origin[pool.idx(&op["c"])]; // before the call: relational operands depend on the state
            match with_nodemut(&p, |m| m.remove_child(&c)) {
                Some(x) => {
                    let (out, v) = res(x, |v| format!("id{}", v.id()));
                    if let Some(v) = v {
                        pool.push(v, oi);
                    }
                    out
                }
                None => Outcome::NotApplicable,
            }
        }
        "set_attr" => match pool.node(&op["e"]) {
            XmlNode::Element(e) => res(e.set_attribute(&s("name"), &s("value")), |_| String::new()).0,
            _ => Outcome::NotApplicable,
        },
        "remove_attr" => match pool.node(&op["e"]) {
            XmlNode::Element(e) => res(e.remove_attribute(&s("name")), |_| String::new()).0,
            _ => Outcome::NotApplicable,
        },
        "set_attr_node" => match (pool.node(&op["e"]), pool.node(&op["a"])) {
            (XmlNode::Element(e), XmlNode::Attribute(a)) => {
                let oi = pool.origin[pool.idx(&op["e"])];
                let (out, v) = res(e.set_attribute_node(a), |v| format!("{:?}", v.as_ref().map(|x| x.as_node().id())));
                if let Some(Some(old)) = v {
                    pool.push(old.as_node(), oi);
                }
                out
            }
            _ => Outcome::NotApplicable,
        },
        "remove_attr_node" => match (pool.node(&op["e"]), pool.node(&op["a"])) {
            (XmlNode::Element(e), XmlNode::Attribute(a)) => res(e.remove_attribute_node(a), |v| format!("id{}", v.as_node().id())).0,
            _ => Outcome::NotApplicable,
        },
        "set_named_item" => match (pool.node(&op["e"]), pool.node(&op["a"])) {
            (XmlNode::Element(e), XmlNode::Attribute(a)) => match e.attributes() {
                Some(m) => res(m.set_named_item(a), |v| format!("{:?}", v.as_ref().map(|x| x.as_node().id()))).0,
                None => Outcome::NotApplicable,
            },
            _ => Outcome::NotApplicable,
        },
        "remove_named_item" => match pool.node(&op["e"]) {
            XmlNode::Element(e) => match e.attributes() {
                Some(m) => res(m.remove_named_item(&s("name")), |v| format!("id{}", v.as_node().id())).0,
                None => Outcome::NotApplicable,
            },
            _ => Outcome::NotApplicable,
        },
        "set_value" => {
            let n = pool.node(&op["n"]);
            match &n {
                XmlNode::Attribute(a) => res(a.set_value(&s("s")), |_| String::new()).0,
                _ => match with_nodemut(&n, |m| m.set_node_value(&s("s"))) {
                    Some(x) => res(x, |_| String::new()).0,
                    None => Outcome::NotApplicable,
                },
            }
        }
        "set_data" => match with_chardatamut(&pool.node(&op["n"]), |m| m.set_data(&s("s"))) {
            Some(x) => res(x, |_| String::new()).0,
            None => Outcome::NotApplicable,
        },
        "append_data" => match with_chardatamut(&pool.node(&op["n"]), |m| m.append_data(&s("s"))) {
            Some(x) => res(x, |_| String::new()).0,
            None => Outcome::NotApplicable,
        },
        "insert_data" => match with_chardatamut(&pool.node(&op["n"]), |m| m.insert_data(offset_of(&op["off"]), &s("s"))) {
            Some(x) => res(x, |_| String::new()).0,
            None => Outcome::NotApplicable,
        },
        "delete_data" => match with_chardatamut(&pool.node(&op["n"]), |m| m.delete_data(offset_of(&op["off"]), offset_of(&op["cnt"]))) {
            Some(x) => res(x, |_| String::new()).0,
            None => Outcome::NotApplicable,
        },
        "replace_data" => match with_chardatamut(&pool.node(&op["n"]), |m| m.replace_data(offset_of(&op["off"]), offset_of(&op["cnt"]), &s("s"))) {
            Some(x) => res(x, |_| String::new()).0,
            None => Outcome::NotApplicable,
        },
        "substring" => match with_chardata(&pool.node(&op["n"]), |m| m.substring_data(offset_of(&op["off"]), offset_of(&op["cnt"]))) {
            Some(x) => res(x, |v| v.clone()).0,
            None => Outcome::NotApplicable,
        },
        "length" => match with_chardata(&pool.node(&op["n"]), |m| m.length()) {
            Some(x) => Outcome::Ok(x.to_string()),
            None => Outcome::NotApplicable,
        },
        "split_text" => {
            let n = pool.node(&op["n"]);
            let oi = pool.origin[pool.idx(&op["n"])];
            match &n {
                XmlNode::Text(t) => {
                    let (out, v) = res(t.split_text(offset_of(&op["off"])), |v| format!("id{}", v.as_node().id()));
                    if let Some(v) = v {
                        pool.push(v.as_node(), oi);
                    }
                    out
                }
                XmlNode::CData(t) => {
                    let (out, v) = res(t.split_text(offset_of(&op["off"])), |v| format!("id{}", v.as_node().id()));
                    if let Some(v) = v {
                        pool.push(v.as_node(), oi);
                    }
                    out
                }
                _ => Outcome::NotApplicable,
            }
        }
        "pi_set_data" => match pool.node(&op["n"]) {
            XmlNode::PI(p) => res(p.set_data(&s("s")), |_| String::new()).0,
            _ => Outcome::NotApplicable,
        },
        "create_element" => {
            let (di, d) = doc_of(pool, &op["d"]);
            let (out, v) = res(d.create_element(&s("name")), |v| format!("id{}", v.as_node().id()));
            if let Some(v) = v {
                pool.push(v.as_node(), di);
            }
            out
        }
        // the caller navigates and keeps what it finds: the children of a node as they are *now* become operands
        // (hand-written histories and the navigating shards use this; a handle on a merged text node taken in mid-history is one of them)
        "children" => {
            let pi = pool.idx(&op["p"]);
            let p = pool.nodes[pi].clone();
            let origin = pool.origin[pi];
            let kids: Vec<XmlNode> = p.child_nodes().iter().collect();
            for k in kids {
                pool.push(k, origin);
            }
            Outcome::Ok(String::new())
        }
        "create_text" => {
            let (di, d) = doc_of(pool, &op["d"]);
            let v = d.create_text_node(&s("s"));
            pool.push(v.as_node(), di);
            Outcome::Ok(String::new())
        }
        "create_comment" => {
            let (di, d) = doc_of(pool, &op["d"]);
            let v = d.create_comment(&s("s"));
            pool.push(v.as_node(), di);
            Outcome::Ok(String::new())
        }
        "create_cdata" => {
            let (di, d) = doc_of(pool, &op["d"]);
            let v = d.create_cdata_section(&s("s"));
            pool.push(v.as_node(), di);
            Outcome::Ok(String::new())
        }
        "create_pi" => {
            let (di, d) = doc_of(pool, &op["d"]);
            let (out, v) = res(d.create_processing_instruction(&s("name"), &s("s")), |v| format!("id{}", v.as_node().id()));
            if let Some(v) = v {
                pool.push(v.as_node(), di);
            }
            out
        }
        "create_attr" => {
            let (di, d) = doc_of(pool, &op["d"]);
            let (out, v) = res(d.create_attribute(&s("name")), |v| format!("id{}", v.as_node().id()));
            if let Some(v) = v {
                pool.push(v.as_node(), di);
            }
            out
        }
        "create_entity_ref" => {
            let (di, d) = doc_of(pool, &op["d"]);
            let (out, v) = res(d.create_entity_reference(&s("name")), |v| format!("id{}", v.as_node().id()));
            if let Some(v) = v {
                pool.push(v.as_node(), di);
            }
            out
        }
        _ => Outcome::NotApplicable,
    }
}

pub fn kind_name(n: &XmlNode) -> &'static str {
    match n {
        XmlNode::Element(_) => "element",
        XmlNode::Attribute(_) => "attribute",
        XmlNode::Text(_) => "text",
        XmlNode::CData(_) => "cdata",
        XmlNode::EntityReference(_) => "entityref",
        XmlNode::Entity(_) => "entity",
        XmlNode::PI(_) => "pi",
        XmlNode::Comment(_) => "comment",
        XmlNode::Document(_) => "document",
        XmlNode::DocumentType(_) => "doctype",
        XmlNode::DocumentFragment(_) => "fragment",
        XmlNode::Notation(_) => "notation",
        XmlNode::Namespace(_) => "namespace",
        XmlNode::ExpandedText(_) => "expandedtext",
    }
}

/// children of a node as the DOM lists them, bounded
pub fn kids(n: &XmlNode) -> Vec<XmlNode> {
    n.child_nodes().iter().collect()
}

pub fn list_len(n: &XmlNode) -> usize {
    n.child_nodes().length()
}
