//! Adapted copy of oracles/xref/src/gen.rs (tree and typed-expression generators) whose random source is a
//! proptest gene stream instead of splitmix64.
use super::genes::Genes;
use vp_xref::ast::*;
use vp_xref::tree::{TreeBuilder, XTree};

/// Same interface as vp_xref::gen::Rng, but every decision is drawn from a proptest gene stream
/// (exhausted stream = 0 = first alternative), so that cases shrink and replay.
pub struct Rng {
    pub g: Genes,
}

impl Rng {
    pub fn new(genes: Vec<u16>) -> Rng {
        Rng { g: Genes::new(genes) }
    }
    pub fn next_u64(&mut self) -> u64 {
        self.g.raw() as u64
    }
    /// index in 0..n (n > 0)
    pub fn below(&mut self, n: usize) -> usize {
        self.g.pick(n)
    }
    /// true with probability pct/100 (gene 0 -> false)
    pub fn pct(&mut self, pct: u32) -> bool {
        self.g.chance(pct, 100)
    }
    pub fn pick<'a, T>(&mut self, xs: &'a [T]) -> &'a T {
        &xs[self.below(xs.len())]
    }
}

pub const URIS: [&str; 3] = ["urn:x", "urn:y", "urn:z"];
pub const LOCALS: [&str; 9] = ["a", "b", "c", "d", "a", "b", "div", "text", "a-b"];
pub const ATTR_LOCALS: [&str; 5] = ["id", "k", "n", "k", "lang"];
pub const PI_TARGETS: [&str; 3] = ["pi", "a", "xml-stylesheet"];
pub const LANGS: [&str; 10] = ["en", "en-US", "EN", "fr", "", "de-x", "en-", "zh-Hant-TW", "sr-Latn-RS", "de-CH-1996"];
pub const VALUES: [&str; 40] = [
    "", "1", "2", "10", " 3 ", "x", "abc", "-0.5", "1e2", "\u{e9}", "\u{65e5}\u{672c}", "0", "-0", "1.50",
    ".5", "5.", "NaN", "Infinity", "true", "false", "a b", " a  b ", "\t", "a\nb", "en", "12345", "+1",
    "007", "1 2", "1000000000000000000000", "0.1", "0.2", "2", "1", "3", "-1", "abcabc", "\u{1F600}z", "- 1",
    "0.0000001",
];
/// prefixes bound in the expression context by the cross-check: (prefix, uri)
pub const EXPR_NS: [(&str, &str); 4] = [
    ("x", "urn:x"),
    ("y", "urn:y"),
    ("z", "urn:z"),
    ("xml", vp_xref::tree::XML_NS),
];

pub fn expr_ns() -> Vec<(String, String)> {
    EXPR_NS.iter().map(|(p, u)| (p.to_string(), u.to_string())).collect()
}

// ---------------------------------------------------------------------------
// trees

pub fn gen_tree(rng: &mut Rng) -> XTree {
    let mut b = TreeBuilder::new();
    let mut budget = 3 + rng.below(22);
    while rng.pct(25) {
        misc(rng, &mut b);
    }
    element(rng, &mut b, 0, &mut budget);
    while rng.pct(25) {
        misc(rng, &mut b);
    }
    b.finish()
}

fn misc(rng: &mut Rng, b: &mut TreeBuilder) {
    if rng.pct(50) {
        let v = *rng.pick(&["c", "", " x ", "1", "a-b", "2"]);
        b.comment(v);
    } else {
        let t = *rng.pick(&PI_TARGETS);
        let d = *rng.pick(&["", "x", "a b", "1", "k=\"v\""]);
        b.pi(t, d);
    }
}

fn element(rng: &mut Rng, b: &mut TreeBuilder, depth: usize, budget: &mut usize) {
    if *budget > 0 {
        *budget -= 1;
    }
    // namespace declarations
    let mut decls: Vec<(Option<String>, String)> = Vec::new();
    let decl_pct = if depth == 0 { 60 } else { 18 };
    if rng.pct(decl_pct) {
        decls.push((Some("p".to_string()), rng.pick(&URIS).to_string()));
    }
    if rng.pct(decl_pct / 2) {
        decls.push((Some("q".to_string()), rng.pick(&URIS).to_string()));
    }
    if rng.pct(decl_pct / 2) {
        decls.push((None, rng.pick(&URIS).to_string()));
    } else if depth > 0 && rng.pct(8) {
        decls.push((None, String::new()));
    }
    // which prefixes are usable here?
    let bound = |b: &TreeBuilder, decls: &[(Option<String>, String)], p: &str| -> bool {
        decls.iter().any(|(dp, _)| dp.as_deref() == Some(p)) || b.lookup(p).is_some()
    };
    let mut prefixes: Vec<Option<String>> = vec![None, None];
    for p in ["p", "q"] {
        if bound(b, &decls, p) {
            prefixes.push(Some(p.to_string()));
        }
    }
    let prefix = rng.pick(&prefixes).clone();
    let local = *rng.pick(&LOCALS);
    // attributes
    let mut attrs: Vec<(Option<String>, String, String)> = Vec::new();
    let nattrs = [0, 0, 1, 1, 2, 3][rng.below(6)];
    for _ in 0..nattrs {
        let l = *rng.pick(&ATTR_LOCALS);
        let (ap, al, av) = if l == "lang" {
            (Some("xml".to_string()), "lang".to_string(), rng.pick(&LANGS).to_string())
        } else {
            let ap = if rng.pct(25) { rng.pick(&prefixes).clone() } else { None };
            (ap, l.to_string(), rng.pick(&VALUES).to_string())
        };
        if !attrs.iter().any(|(p2, l2, _)| *p2 == ap && *l2 == al) {
            attrs.push((ap, al, av));
        }
    }
    if b.try_start_element(prefix.as_deref(), local, &decls, &attrs).is_err() {
        // e.g. p:k and q:k with p and q bound to the same URI: drop the attributes
        b.start_element(prefix.as_deref(), local, &decls, &[]);
    }
    // content
    let nchildren = if depth >= 4 || *budget == 0 { rng.below(2) } else { rng.below(5) };
    for _ in 0..nchildren {
        match rng.below(10) {
            0..=4 => {
                if depth < 4 && *budget > 0 {
                    // now and then the same subtree twice: nodes that are equal in content but distinct
                    let twin = rng.pct(12);
                    let saved = rng.g.clone();
                    let saved_budget = *budget;
                    element(rng, b, depth + 1, budget);
                    if twin {
                        let mut again = Rng { g: saved };
                        let mut b2 = saved_budget;
                        element(&mut again, b, depth + 1, &mut b2);
                    }
                } else {
                    b.text(*rng.pick(&VALUES));
                }
            }
            5..=7 => b.text(*rng.pick(&VALUES)),
            8 => {
                let v = *rng.pick(&["c", "", " x ", "1", "2"]);
                b.comment(v);
            }
            _ => {
                let t = *rng.pick(&PI_TARGETS);
                let d = *rng.pick(&["", "x", "a b", "1", "2"]);
                b.pi(t, d);
            }
        }
    }
    b.end_element();
}

// ---------------------------------------------------------------------------
// expressions

#[derive(Clone, Copy, Debug, PartialEq, Eq)]
pub enum Ty {
    NodeSet,
    Num,
    Str,
    Bool,
    Any,
}

#[derive(Clone, Debug)]
pub struct ExprGen {
    /// no #xA / #xD inside string literals (line-oriented consumers)
    pub no_newline_literals: bool,
    /// percentage of sub-expressions that are deliberately erroneous
    /// (variable, unknown function, wrong arity, wrong argument type)
    pub error_pct: u32,
    /// percentage of positions where an expression of another type is used
    /// (implicit conversion)
    pub coerce_pct: u32,
    /// element names worth testing for: (prefix in the expression context, local)
    pub elem_names: Vec<(Option<String>, String)>,
    /// attribute names worth testing for
    pub attr_names: Vec<(Option<String>, String)>,
}

impl Default for ExprGen {
    fn default() -> Self {
        ExprGen {
            no_newline_literals: false,
            error_pct: 1,
            coerce_pct: 12,
            elem_names: Vec::new(),
            attr_names: Vec::new(),
        }
    }
}

impl ExprGen {
    /// Learns the element / attribute names that occur in `tree` (expressed
    /// with the prefixes of [`EXPR_NS`]) so that most generated name tests
    /// select something.
    pub fn with_vocabulary(mut self, tree: &XTree) -> ExprGen {
        use vp_xref::tree::Kind;
        for n in &tree.nodes {
            if n.kind != Kind::Element && n.kind != Kind::Attribute {
                continue;
            }
            let prefix = match &n.uri {
                None => None,
                Some(u) => match EXPR_NS.iter().find(|(_, eu)| eu == u) {
                    Some((p, _)) => Some(p.to_string()),
                    None => continue,
                },
            };
            let entry = (prefix, n.local.clone());
            let list = if n.kind == Kind::Element { &mut self.elem_names } else { &mut self.attr_names };
            if !list.contains(&entry) {
                list.push(entry);
            }
        }
        self
    }
}

const NUMS: [f64; 26] = [
    0.0, 1.0, 2.0, 3.0, 4.0, 10.0, 0.5, 1.5, 2.5, 100.0, 0.1, 1e21, 1e-7, 4503599627370497.0, 12345.0, 1.0, 2.0,
    3.0, 0.25, 7.0, 123456789012.0, 0.30000000000000004, 0.49999999999999994, 3.5, 2147483647.0, 0.2,
];

const STRS: [&str; 30] = [
    "", "1", "2", "10", " 3 ", "x", "abc", "-0.5", "1e2", "\u{e9}", "\u{65e5}\u{672c}", "0", "a", "b", "en",
    "it's", "say \"x\"", " a  b ", "a\nb", "12345", "urn:x", "urn:y", "p", "-", "3", "c", ".5", "true", "\u{1F600}z",
    "xml",
];

impl ExprGen {
    pub fn gen(&self, rng: &mut Rng, ty: Ty, depth: u32) -> Expr {
        let mut ty = ty;
        if ty == Ty::Any {
            ty = [Ty::NodeSet, Ty::Num, Ty::Str, Ty::Bool][rng.below(4)];
        } else if depth > 0 && rng.pct(self.coerce_pct) && ty != Ty::NodeSet {
            ty = [Ty::NodeSet, Ty::Num, Ty::Str, Ty::Bool][rng.below(4)];
        }
        if depth > 0 && self.error_pct > 0 && rng.pct(self.error_pct) {
            return self.erroneous(rng, depth);
        }
        match ty {
            Ty::NodeSet => self.nodeset(rng, depth),
            Ty::Num => self.num(rng, depth),
            Ty::Str => self.string(rng, depth),
            Ty::Bool => self.boolean(rng, depth),
            Ty::Any => unreachable!(),
        }
    }

    fn erroneous(&self, rng: &mut Rng, depth: u32) -> Expr {
        let d = depth - 1;
        match rng.below(8) {
            0 => Expr::Var("v".to_string()),
            1 => Expr::call("foo", vec![self.gen(rng, Ty::Any, d)]),
            2 => Expr::call("count", vec![]),
            3 => Expr::call("count", vec![self.num(rng, d)]),
            4 => Expr::bin(BinOp::Union, self.nodeset(rng, d), self.string(rng, d)),
            5 => Expr::filter(self.num(rng, d), vec![Expr::num(1.0)], vec![]),
            6 => Expr::call("true", vec![self.gen(rng, Ty::Any, d)]),
            _ => Expr::rel(vec![Step::new(Axis::Child, NodeTest::Name(Some("zz".to_string()), "a".to_string()))]),
        }
    }

    fn lit(&self, rng: &mut Rng) -> Expr {
        loop {
            let s = *rng.pick(&STRS);
            if self.no_newline_literals && (s.contains('\n') || s.contains('\r')) {
                continue;
            }
            return Expr::lit(s);
        }
    }

    fn name_test(&self, rng: &mut Rng, axis: Axis) -> NodeTest {
        // most of the time: a name that exists in the document
        let vocab: &[(Option<String>, String)] = match axis {
            Axis::Attribute => &self.attr_names,
            Axis::Namespace => &[],
            _ => &self.elem_names,
        };
        if !vocab.is_empty() && rng.pct(55) {
            let (p, l) = rng.pick(vocab).clone();
            return if p.is_some() && rng.pct(25) { NodeTest::NsAny(p.unwrap()) } else { NodeTest::Name(p, l) };
        }
        match axis {
            Axis::Attribute => match rng.below(10) {
                0..=2 => NodeTest::AnyName,
                3..=6 => NodeTest::Name(None, rng.pick(&ATTR_LOCALS).to_string()),
                7 => NodeTest::Name(Some("xml".to_string()), "lang".to_string()),
                8 => NodeTest::Name(Some(rng.pick(&["p", "q", "r"]).to_string()), "k".to_string()),
                _ => NodeTest::NsAny(rng.pick(&["p", "q", "r", "xml"]).to_string()),
            },
            Axis::Namespace => match rng.below(6) {
                0..=2 => NodeTest::AnyName,
                3 => NodeTest::Name(None, rng.pick(&["p", "q", "xml"]).to_string()),
                4 => NodeTest::Name(Some("p".to_string()), "p".to_string()),
                _ => NodeTest::NsAny("p".to_string()),
            },
            _ => match rng.below(10) {
                0..=2 => NodeTest::AnyName,
                3..=5 => NodeTest::Name(None, rng.pick(&LOCALS).to_string()),
                6..=7 => NodeTest::Name(Some(rng.pick(&["p", "q", "r"]).to_string()), rng.pick(&LOCALS).to_string()),
                _ => NodeTest::NsAny(rng.pick(&["p", "q", "r"]).to_string()),
            },
        }
    }

    fn node_test(&self, rng: &mut Rng, axis: Axis) -> NodeTest {
        match rng.below(24) {
            0..=11 => self.name_test(rng, axis),
            12..=14 => NodeTest::AnyName,
            15..=18 => NodeTest::Node,
            19..=20 => NodeTest::Text,
            21 => NodeTest::Comment,
            22 => NodeTest::PI(None),
            _ => NodeTest::PI(Some(rng.pick(&PI_TARGETS).to_string())),
        }
    }

    fn axis(&self, rng: &mut Rng) -> Axis {
        match rng.below(100) {
            0..=29 => Axis::Child,
            30..=37 => Axis::Attribute,
            38..=45 => Axis::Descendant,
            46..=51 => Axis::DescendantOrSelf,
            52..=57 => Axis::Parent,
            58..=63 => Axis::Ancestor,
            64..=68 => Axis::AncestorOrSelf,
            69..=74 => Axis::FollowingSibling,
            75..=80 => Axis::PrecedingSibling,
            81..=85 => Axis::Following,
            86..=90 => Axis::Preceding,
            91..=95 => Axis::SelfAxis,
            _ => Axis::Namespace,
        }
    }

    pub fn step(&self, rng: &mut Rng, depth: u32) -> Step {
        match rng.below(20) {
            0 => return Step::dot(),
            1 => return Step::dotdot(),
            2 => return Step::dslash(),
            _ => {}
        }
        let axis = self.axis(rng);
        let test = self.node_test(rng, axis);
        let npreds = if depth == 0 { 0 } else { [0, 0, 0, 1, 1, 2][rng.below(6)] };
        let preds = (0..npreds).map(|_| self.pred(rng, depth - 1)).collect();
        Step { axis, test, preds }
    }

    pub fn pred(&self, rng: &mut Rng, depth: u32) -> Expr {
        let pos = || Expr::call("position", vec![]);
        let last = || Expr::call("last", vec![]);
        match rng.below(16) {
            0..=2 => Expr::num([1.0, 1.0, 1.0, 2.0, 2.0, 2.0, 3.0, 3.0, 4.0, 1.0, 2.0, 0.0, 1.5][rng.below(13)]),
            3 => last(),
            4 => Expr::bin(BinOp::Sub, last(), Expr::num(1.0)),
            5 => {
                let op = [BinOp::Eq, BinOp::Ne, BinOp::Lt, BinOp::Le, BinOp::Gt, BinOp::Ge][rng.below(6)];
                Expr::bin(op, pos(), Expr::num((1 + rng.below(3)) as f64))
            }
            6 => Expr::bin(BinOp::Eq, Expr::bin(BinOp::Mod, pos(), Expr::num(2.0)), Expr::num(rng.below(2) as f64)),
            7 => Expr::bin(BinOp::Eq, pos(), last()),
            8..=10 => self.boolean(rng, depth),
            11..=12 => self.nodeset(rng, depth),
            13 => self.string(rng, depth),
            _ => self.num(rng, depth),
        }
    }

    fn steps(&self, rng: &mut Rng, depth: u32, n: usize) -> Vec<Step> {
        (0..n).map(|_| self.step(rng, depth)).collect()
    }

    pub fn nodeset(&self, rng: &mut Rng, depth: u32) -> Expr {
        if depth == 0 {
            let s = self.step(rng, 0);
            return if rng.pct(25) { Expr::abs(vec![Step::dslash(), s]) } else { Expr::rel(vec![s]) };
        }
        let d = depth - 1;
        match rng.below(20) {
            0..=6 => {
                let n = 1 + rng.below(3);
                Expr::rel(self.steps(rng, d, n))
            }
            7..=9 => {
                let n = rng.below(4);
                Expr::abs(self.steps(rng, d, n))
            }
            10..=12 => {
                let mut s = vec![Step::dslash()];
                let n = 1 + rng.below(2);
                s.extend(self.steps(rng, d, n));
                Expr::abs(s)
            }
            13..=14 => Expr::bin(BinOp::Union, self.nodeset(rng, d), self.nodeset(rng, d)),
            15..=16 => {
                let inner = self.nodeset(rng, d);
                let npreds = 1 + rng.below(2);
                let preds = (0..npreds).map(|_| self.pred(rng, d)).collect();
                let n = rng.below(2);
                Expr::filter(inner, preds, self.steps(rng, d, n))
            }
            17 => {
                let inner = self.nodeset(rng, d);
                let n = 1 + rng.below(2);
                // (E)/step and (E)//step
                let mut steps = self.steps(rng, d, n);
                if rng.pct(50) {
                    steps.insert(0, Step::dslash());
                }
                Expr::filter(inner, vec![], steps)
            }
            18 => {
                // a/b//c
                let mut s = self.steps(rng, d, 1);
                s.push(Step::dslash());
                s.extend(self.steps(rng, d, 1));
                Expr::rel(s)
            }
            _ => Expr::rel(vec![Step::dot()]),
        }
    }

    pub fn num(&self, rng: &mut Rng, depth: u32) -> Expr {
        if depth == 0 {
            return match rng.below(6) {
                0 => Expr::call("position", vec![]),
                1 => Expr::call("last", vec![]),
                _ => Expr::num(*rng.pick(&NUMS)),
            };
        }
        let d = depth - 1;
        match rng.below(22) {
            0..=2 => Expr::num(*rng.pick(&NUMS)),
            3..=8 => {
                let op = [BinOp::Add, BinOp::Sub, BinOp::Mul, BinOp::Div, BinOp::Mod][rng.below(5)];
                Expr::bin(op, self.gen(rng, Ty::Num, d), self.gen(rng, Ty::Num, d))
            }
            9..=10 => Expr::neg(self.gen(rng, Ty::Num, d)),
            11..=12 => Expr::call("count", vec![self.nodeset(rng, d)]),
            13 => Expr::call("sum", vec![self.nodeset(rng, d)]),
            14 => Expr::call("position", vec![]),
            15 => Expr::call("last", vec![]),
            16 => {
                if rng.pct(30) {
                    Expr::call("string-length", vec![])
                } else {
                    Expr::call("string-length", vec![self.gen(rng, Ty::Str, d)])
                }
            }
            17..=18 => {
                if rng.pct(25) {
                    Expr::call("number", vec![])
                } else {
                    Expr::call("number", vec![self.gen(rng, Ty::Any, d)])
                }
            }
            19 => Expr::call("floor", vec![self.gen(rng, Ty::Num, d)]),
            20 => Expr::call("ceiling", vec![self.gen(rng, Ty::Num, d)]),
            _ => Expr::call("round", vec![self.gen(rng, Ty::Num, d)]),
        }
    }

    pub fn string(&self, rng: &mut Rng, depth: u32) -> Expr {
        if depth == 0 {
            return self.lit(rng);
        }
        let d = depth - 1;
        match rng.below(22) {
            0..=3 => self.lit(rng),
            4..=5 => {
                if rng.pct(25) {
                    Expr::call("string", vec![])
                } else {
                    Expr::call("string", vec![self.gen(rng, Ty::Any, d)])
                }
            }
            6..=7 => {
                let n = 2 + rng.below(3);
                Expr::call("concat", (0..n).map(|_| self.gen(rng, Ty::Str, d)).collect())
            }
            8 => Expr::call("substring-before", vec![self.gen(rng, Ty::Str, d), self.gen(rng, Ty::Str, d)]),
            9 => Expr::call("substring-after", vec![self.gen(rng, Ty::Str, d), self.gen(rng, Ty::Str, d)]),
            10..=12 => {
                let mut args = vec![self.gen(rng, Ty::Str, d), self.gen(rng, Ty::Num, d)];
                if rng.pct(60) {
                    args.push(self.gen(rng, Ty::Num, d));
                }
                Expr::call("substring", args)
            }
            13..=14 => {
                if rng.pct(30) {
                    Expr::call("normalize-space", vec![])
                } else {
                    Expr::call("normalize-space", vec![self.gen(rng, Ty::Str, d)])
                }
            }
            15..=16 => Expr::call(
                "translate",
                vec![self.gen(rng, Ty::Str, d), self.gen(rng, Ty::Str, d), self.gen(rng, Ty::Str, d)],
            ),
            _ => {
                let f = *rng.pick(&["name", "local-name", "namespace-uri"]);
                if rng.pct(30) {
                    Expr::call(f, vec![])
                } else {
                    Expr::call(f, vec![self.nodeset(rng, d)])
                }
            }
        }
    }

    pub fn boolean(&self, rng: &mut Rng, depth: u32) -> Expr {
        if depth == 0 {
            return Expr::call(if rng.pct(50) { "true" } else { "false" }, vec![]);
        }
        let d = depth - 1;
        match rng.below(22) {
            0..=9 => {
                let op = [BinOp::Eq, BinOp::Ne, BinOp::Lt, BinOp::Le, BinOp::Gt, BinOp::Ge][rng.below(6)];
                // bias towards node-set operands
                let t1 = [Ty::NodeSet, Ty::NodeSet, Ty::Num, Ty::Str, Ty::Bool, Ty::Any][rng.below(6)];
                let t2 = [Ty::NodeSet, Ty::NodeSet, Ty::Num, Ty::Str, Ty::Bool, Ty::Any][rng.below(6)];
                Expr::bin(op, self.gen(rng, t1, d), self.gen(rng, t2, d))
            }
            10..=11 => Expr::bin(BinOp::And, self.gen(rng, Ty::Bool, d), self.gen(rng, Ty::Bool, d)),
            12..=13 => Expr::bin(BinOp::Or, self.gen(rng, Ty::Bool, d), self.gen(rng, Ty::Bool, d)),
            14..=15 => Expr::call("not", vec![self.gen(rng, Ty::Bool, d)]),
            16 => Expr::call(if rng.pct(50) { "true" } else { "false" }, vec![]),
            17 => Expr::call("boolean", vec![self.gen(rng, Ty::Any, d)]),
            18..=19 => {
                let arg = if rng.pct(80) {
                    Expr::lit(*rng.pick(&["en", "EN", "en-US", "fr", "", "de", "en-", "e", "zh-Hant", "sr-latn", "de-CH", "zh", "zh-Hant-TW", "de-CH-1996-x"]))
                } else {
                    self.gen(rng, Ty::Str, d)
                };
                Expr::call("lang", vec![arg])
            }
            20 => Expr::call("starts-with", vec![self.gen(rng, Ty::Str, d), self.gen(rng, Ty::Str, d)]),
            _ => Expr::call("contains", vec![self.gen(rng, Ty::Str, d), self.gen(rng, Ty::Str, d)]),
        }
    }
}

// ---------------------------------------------------------------------------
// DTD-defaulted attributes

/// Gives one element type of the tree an attribute `dv` that is declared with a default value in an internal
/// subset: some of the elements write it (with another value), the others get it by default. Returns the document
/// text (with DOCTYPE), the reference tree (every such element has the attribute) and the number of defaulted ones.
pub fn with_defaults(tree: &XTree, rng: &mut Rng) -> Option<(String, XTree, usize)> {
    use vp_xref::tree::Kind;
    let elems: Vec<usize> = (0..tree.nodes.len()).filter(|&i| tree.nodes[i].kind == Kind::Element).collect();
    if elems.is_empty() {
        return None;
    }
    let qname = tree.name(*rng.pick(&elems));
    let default = *rng.pick(&["d", "1", "2", "a b", "x"]);
    let text = vp_xref::to_xml(tree);
    let root = tree.name(tree.document_element()?);
    let needle = format!("<{}", qname);
    let mut full = String::new();
    let mut doc = String::new();
    let mut rest = text.as_str();
    let mut defaulted = 0usize;
    while let Some(i) = rest.find(&needle) {
        let after = &rest[i + needle.len()..];
        let boundary = after.chars().next().map(|c| c == ' ' || c == '>' || c == '/').unwrap_or(false);
        full.push_str(&rest[..i + needle.len()]);
        doc.push_str(&rest[..i + needle.len()]);
        if boundary {
            if rng.pct(35) {
                let v = *rng.pick(&["w", "3", "d"]);
                full.push_str(&format!(" dv=\"{}\"", v));
                doc.push_str(&format!(" dv=\"{}\"", v));
            } else {
                full.push_str(&format!(" dv=\"{}\"", default));
                defaulted += 1;
            }
        }
        rest = after;
    }
    full.push_str(rest);
    doc.push_str(rest);
    let reference = vp_xref::tree::from_xml(&full).ok()?;
    let doc = format!("<!DOCTYPE {} [<!ATTLIST {} dv CDATA \"{}\">]>{}", root, qname, default, doc);
    Some((doc, reference, defaulted))
}
