//! Mutators over rendered documents: token-level "breaking" edits aimed at the well-formedness
//! rules, and plain character-level edits. Whether a mutant is ill-formed is decided by the
//! reference recognizer, never by the mutator.

use super::genes::Genes;

fn occurrences(text: &str, pat: &str) -> Vec<usize> {
    let mut v = vec![];
    let mut from = 0;
    while let Some(i) = text[from..].find(pat) {
        v.push(from + i);
        from += i + pat.len().max(1);
        if from >= text.len() {
            break;
        }
    }
    v
}

fn char_boundaries(text: &str) -> Vec<usize> {
    let mut v: Vec<usize> = text.char_indices().map(|(i, _)| i).collect();
    v.push(text.len());
    v
}

const EDIT_ALPHABET: &[&str] = &[
    "<", ">", "&", "\"", "'", "=", "/", "!", "?", "-", "[", "]", ";", "#", "a", "1", " ", "\t", "\n", ":", "x", "%", "]]>", "--", "</", "<!--", "<![CDATA[", "<?", "&#", "\u{0}", "\u{b}", "\u{fffe}", "\u{ffff}", "\u{e9}",
    "\u{1}", "\u{1f}", ".", "xml",
];

pub const MUTATORS: &[&str] = &[
    "char-edit",
    "rename-end-tag",
    "delete-end-tag",
    "delete-start-tag-close",
    "swap-end-tags",
    "dup-attribute",
    "lt-in-attr",
    "amp-in-attr",
    "lt-in-content",
    "amp-in-content",
    "double-hyphen-in-comment",
    "hyphen-before-comment-end",
    "cdata-end-in-content",
    "undeclared-entity",
    "second-root",
    "text-after-root",
    "delete-root",
    "xmldecl-not-first",
    "reserved-pi-target",
    "illegal-char",
    "bad-name-start",
    "charref-not-char",
    "drop-attr-quote",
    "drop-attr-eq",
    "drop-attr-space",
    "truncate",
    "doctype-after-root",
    "entity-recursion",
    "xmldecl-reorder",
    "lt-entity-in-attr",
    "unterminated-comment",
    "pe-reference",
    "external-entity-in-attr",
    "unparsed-entity-ref",
    "redeclared-entity",
    "pe-in-entity-value",
];

/// apply mutator `which` (index into MUTATORS); returns (mutant, mutator actually applied)
pub fn mutate(text: &str, which: usize, g: &mut Genes) -> (String, &'static str) {
    let name = MUTATORS[which % MUTATORS.len()];
    if let Some(m) = apply(text, name, g) {
        if m != text {
            return (m, name);
        }
    }
    (char_edit(text, g), "char-edit")
}

pub fn char_edit(text: &str, g: &mut Genes) -> String {
    let b = char_boundaries(text);
    let pos = b[g.pick(b.len())];
    match g.pick(3) {
        0 => {
            let ins = EDIT_ALPHABET[g.pick(EDIT_ALPHABET.len())];
            format!("{}{}{}", &text[..pos], ins, &text[pos..])
        }
        1 => {
            // delete one character
            if pos < text.len() {
                let next = text[pos..].chars().next().map(|c| c.len_utf8()).unwrap_or(0);
                format!("{}{}", &text[..pos], &text[pos + next..])
            } else {
                text[..text.len().saturating_sub(text.chars().last().map(|c| c.len_utf8()).unwrap_or(0))].to_string()
            }
        }
        _ => {
            let ins = EDIT_ALPHABET[g.pick(EDIT_ALPHABET.len())];
            if pos < text.len() {
                let next = text[pos..].chars().next().map(|c| c.len_utf8()).unwrap_or(0);
                format!("{}{}{}", &text[..pos], ins, &text[pos + next..])
            } else {
                format!("{}{}", text, ins)
            }
        }
    }
}

fn pick_occ(text: &str, pat: &str, g: &mut Genes) -> Option<usize> {
    let o = occurrences(text, pat);
    if o.is_empty() {
        None
    } else {
        Some(o[g.pick(o.len())])
    }
}

/// positions of '<' that start a start tag or empty-element tag (next char is a name character)
fn start_tags(text: &str) -> Vec<usize> {
    let bytes = text.as_bytes();
    occurrences(text, "<").into_iter().filter(|&i| i + 1 < bytes.len() && (bytes[i + 1].is_ascii_alphabetic() || bytes[i + 1] == b'_' || bytes[i + 1] >= 0x80)).collect()
}

fn root_span(text: &str) -> Option<(usize, usize)> {
    // first start tag that is not inside the doctype, up to the end of the last "</...>" or "/>"
    let dt_end = match text.find("<!DOCTYPE") {
        Some(i) => {
            // skip to the matching '>' after an optional [...] — approximate: the first "]>" or the first '>' when there is no '['
            let rest = &text[i..];
            match rest.find('[') {
                Some(b) if rest[..b].find('>').is_none() => rest.find("]").map(|e| i + e).unwrap_or(i),
                _ => rest.find('>').map(|e| i + e).unwrap_or(i),
            }
        }
        None => 0,
    };
    let st = start_tags(text).into_iter().find(|&i| i >= dt_end)?;
    let end = text.rfind('>')?;
    // the root ends at the last '>' that closes "</name>" or "/>" before trailing misc: approximate with last "</" or "/>"
    let e1 = text.rfind("</").and_then(|i| text[i..].find('>').map(|j| i + j + 1));
    let e2 = text.rfind("/>").map(|i| i + 2);
    let e = match (e1, e2) {
        (Some(a), Some(b)) => a.max(b),
        (Some(a), None) => a,
        (None, Some(b)) => b,
        _ => end + 1,
    };
    if e > st {
        Some((st, e))
    } else {
        None
    }
}

fn apply(text: &str, name: &str, g: &mut Genes) -> Option<String> {
    match name {
        "char-edit" => Some(char_edit(text, g)),
        "rename-end-tag" => {
            let i = pick_occ(text, "</", g)?;
            Some(format!("{}</z{}", &text[..i], &text[i + 2..]))
        }
        "delete-end-tag" => {
            let i = pick_occ(text, "</", g)?;
            let j = text[i..].find('>')? + i + 1;
            Some(format!("{}{}", &text[..i], &text[j..]))
        }
        "delete-start-tag-close" => {
            let st = start_tags(text);
            if st.is_empty() {
                return None;
            }
            let i = st[g.pick(st.len())];
            let j = text[i..].find('>')? + i;
            Some(format!("{}{}", &text[..j], &text[j + 1..]))
        }
        "swap-end-tags" => {
            let o = occurrences(text, "</");
            if o.len() < 2 {
                return None;
            }
            let k = g.pick(o.len() - 1);
            let (a, b) = (o[k], o[k + 1]);
            let ae = text[a..].find('>')? + a + 1;
            let be = text[b..].find('>')? + b + 1;
            if ae > b {
                return None;
            }
            Some(format!("{}{}{}{}{}", &text[..a], &text[b..be], &text[ae..b], &text[a..ae], &text[be..]))
        }
        "dup-attribute" => {
            // find name="value" or name='value' inside a tag and repeat it (optionally with the other quote)
            let eqs = occurrences(text, "=");
            if eqs.is_empty() {
                return None;
            }
            let e = eqs[g.pick(eqs.len())];
            // name: run of non-space chars before '=' (skipping spaces)
            let before = text[..e].trim_end();
            let ns = before.rfind(|c: char| c.is_whitespace() || c == '<')? + 1;
            let aname = &before[ns..];
            if aname.is_empty() || aname.contains('?') || aname.contains('!') {
                return None;
            }
            let after = text[e + 1..].trim_start();
            let q = after.chars().next()?;
            if q != '"' && q != '\'' {
                return None;
            }
            let vstart = text.len() - after.len();
            let vend = text[vstart + 1..].find(q)? + vstart + 2;
            let dup = if g.chance(1, 2) { format!(" {}=\"\"", aname) } else { format!(" {}='x'", aname) };
            // right after the original, or separated from it: at the end of the tag, or in front of every attribute
            match g.pick(3) {
                0 => Some(format!("{}{}{}", &text[..vend], dup, &text[vend..])),
                1 => {
                    // end of the tag: the next '>' that is not inside a quoted value
                    let mut i = vend;
                    let b = text.as_bytes();
                    let mut quote: Option<u8> = None;
                    while i < b.len() {
                        match (quote, b[i]) {
                            (Some(q), c) if c == q => quote = None,
                            (Some(_), _) => {}
                            (None, b'"') | (None, b'\'') => quote = Some(b[i]),
                            (None, b'>') => break,
                            (None, b'/') if i + 1 < b.len() && b[i + 1] == b'>' => break,
                            _ => {}
                        }
                        i += 1;
                    }
                    if i >= b.len() {
                        return None;
                    }
                    Some(format!("{}{}{}", &text[..i], dup, &text[i..]))
                }
                _ => {
                    // in front of the first attribute of the tag: right after the element name
                    let lt = text[..ns].rfind('<')?;
                    let name_end = text[lt + 1..].find(|c: char| c.is_whitespace() || c == '>' || c == '/')? + lt + 1;
                    if name_end > ns {
                        return None;
                    }
                    Some(format!("{}{}{}", &text[..name_end], dup, &text[name_end..]))
                }
            }
        }
        "lt-in-attr" | "amp-in-attr" => {
            let q = if g.chance(1, 2) { "\"" } else { "'" };
            let eqs = occurrences(text, &format!("={}", q));
            if eqs.is_empty() {
                return None;
            }
            let i = eqs[g.pick(eqs.len())] + 2;
            let ins = if name == "lt-in-attr" { "<" } else { ["&", "& ", "&;", "&#;", "&#x;", "&a b;"][g.pick(6)] };
            Some(format!("{}{}{}", &text[..i], ins, &text[i..]))
        }
        "lt-in-content" | "amp-in-content" | "cdata-end-in-content" | "text-after-root" => {
            if name == "text-after-root" {
                return Some(format!("{}{}", text, ["x", "&amp;", "<![CDATA[x]]>", "&#65;"][g.pick(4)]));
            }
            // right after a '>' that closes a start tag inside the root
            let (rs, re) = root_span(text)?;
            let cands: Vec<usize> = occurrences(&text[rs..re], ">").into_iter().map(|i| rs + i + 1).filter(|&i| i < re).collect();
            if cands.is_empty() {
                return None;
            }
            let i = cands[g.pick(cands.len())];
            let ins = match name {
                "lt-in-content" => ["<", "< ", "<1", "<>"][g.pick(4)],
                "amp-in-content" => ["&", "& ", "&;", "&#;", "&#x;", "&#xg;", "&a b;", "&#1a;"][g.pick(8)],
                _ => "]]>",
            };
            Some(format!("{}{}{}", &text[..i], ins, &text[i..]))
        }
        "double-hyphen-in-comment" => {
            let i = pick_occ(text, "<!--", g)? + 4;
            Some(format!("{}{}{}", &text[..i], ["--", "a--b", "--x"][g.pick(3)], &text[i..]))
        }
        "hyphen-before-comment-end" => {
            let i = pick_occ(text, "-->", g)?;
            Some(format!("{}-{}", &text[..i], &text[i..]))
        }
        "undeclared-entity" => {
            // inside the root: after a '>'
            let (rs, re) = root_span(text)?;
            let cands: Vec<usize> = occurrences(&text[rs..re], ">").into_iter().map(|i| rs + i + 1).filter(|&i| i < re).collect();
            if cands.is_empty() {
                return None;
            }
            let i = cands[g.pick(cands.len())];
            Some(format!("{}&nosuch;{}", &text[..i], &text[i..]))
        }
        "second-root" => Some(format!("{}{}", text, ["<b/>", "<a></a>", "<a/><b/>"][g.pick(3)])),
        "delete-root" => {
            let (rs, re) = root_span(text)?;
            Some(format!("{}{}", &text[..rs], &text[re..]))
        }
        "xmldecl-not-first" => {
            if text.starts_with("<?xml") {
                Some(format!("{}{}", [" ", "\n", "<!--c-->", "\u{feff} "][g.pick(4)], text))
            } else {
                // put a declaration somewhere later
                let (rs, _) = root_span(text)?;
                Some(format!("{}<?xml version=\"1.0\"?>{}", &text[..rs], &text[rs..]))
            }
        }
        "reserved-pi-target" => {
            let i = match pick_occ(text, "<?", g) {
                Some(i) if !text[i..].starts_with("<?xml ") => i,
                _ => {
                    let (rs, _) = root_span(text)?;
                    return Some(format!("{}<?{} d?>{}", &text[..rs], ["xml", "XML", "xMl", "Xml"][g.pick(4)], &text[rs..]));
                }
            };
            // replace the target
            let te = text[i + 2..].find(|c: char| c.is_whitespace() || c == '?')? + i + 2;
            Some(format!("{}{}{}", &text[..i + 2], ["xml", "XML", "xMl", "XmL"][g.pick(4)], &text[te..]))
        }
        "illegal-char" => {
            let b = char_boundaries(text);
            let pos = b[g.pick(b.len())];
            let c = ["\u{0}", "\u{1}", "\u{8}", "\u{b}", "\u{c}", "\u{e}", "\u{1f}", "\u{fffe}", "\u{ffff}"][g.pick(9)];
            Some(format!("{}{}{}", &text[..pos], c, &text[pos..]))
        }
        "bad-name-start" => {
            let st = start_tags(text);
            if st.is_empty() {
                return None;
            }
            let i = st[g.pick(st.len())] + 1;
            Some(format!("{}{}{}", &text[..i], ["1", "-", ".", "\u{b7}", "\u{300}"][g.pick(5)], &text[i..]))
        }
        "charref-not-char" => {
            let bad = ["&#0;", "&#x0;", "&#8;", "&#xB;", "&#xFFFE;", "&#xFFFF;", "&#xD800;", "&#x110000;", "&#99999999999;", "&#xFFFFFFFFF;", "&#x;", "&#;"][g.pick(12)];
            match pick_occ(text, "&#", g) {
                Some(i) => {
                    let e = text[i..].find(';')? + i + 1;
                    Some(format!("{}{}{}", &text[..i], bad, &text[e..]))
                }
                None => {
                    let (rs, re) = root_span(text)?;
                    let cands: Vec<usize> = occurrences(&text[rs..re], ">").into_iter().map(|i| rs + i + 1).filter(|&i| i < re).collect();
                    if cands.is_empty() {
                        return None;
                    }
                    let i = cands[g.pick(cands.len())];
                    Some(format!("{}{}{}", &text[..i], bad, &text[i..]))
                }
            }
        }
        "drop-attr-quote" => {
            let q = if g.chance(1, 2) { "\"" } else { "'" };
            let i = pick_occ(text, q, g)?;
            Some(format!("{}{}", &text[..i], &text[i + 1..]))
        }
        "drop-attr-eq" => {
            let i = pick_occ(text, "=", g)?;
            Some(format!("{}{}", &text[..i], &text[i + 1..]))
        }
        "drop-attr-space" => {
            // remove the white space between a closing quote and the next attribute name
            for q in ["\" ", "' ", "\"\n", "'\t"] {
                if let Some(i) = pick_occ(text, q, g) {
                    return Some(format!("{}{}", &text[..i + 1], text[i + 1..].trim_start()));
                }
            }
            None
        }
        "truncate" => {
            let b = char_boundaries(text);
            if b.len() < 3 {
                return None;
            }
            let pos = b[1 + g.pick(b.len() - 2)];
            Some(text[..pos].to_string())
        }
        "doctype-after-root" => Some(format!("{}<!DOCTYPE a>", text)),
        "entity-recursion" => {
            let (rs, _) = root_span(text)?;
            if text.contains("<!DOCTYPE") {
                let i = text.find('[')? + 1;
                // direct, mutual, and a cycle that the referenced entity only leads into
                let decl = ["<!ENTITY rec \"&rec;\">", "<!ENTITY rec \"a&rec2;\"><!ENTITY rec2 \"&rec;b\">", "<!ENTITY rec \"x&r1;\"><!ENTITY r1 \"&r2;\"><!ENTITY r2 \"&r3;y\"><!ENTITY r3 \"&r1;\">"][g.pick(3)];
                let t = format!("{}{}{}", &text[..i], decl, &text[i..]);
                let (rs2, re2) = root_span(&t)?;
                let cands: Vec<usize> = occurrences(&t[rs2..re2], ">").into_iter().map(|i| rs2 + i + 1).filter(|&i| i < re2).collect();
                if cands.is_empty() {
                    return None;
                }
                let k = cands[g.pick(cands.len())];
                Some(format!("{}&rec;{}", &t[..k], &t[k..]))
            } else {
                let decl = "<!DOCTYPE a [<!ENTITY rec \"&rec;\">]>";
                let t = format!("{}{}{}", &text[..rs], decl, &text[rs..]);
                let (rs2, re2) = root_span(&t)?;
                let cands: Vec<usize> = occurrences(&t[rs2..re2], ">").into_iter().map(|i| rs2 + i + 1).filter(|&i| i < re2).collect();
                if cands.is_empty() {
                    return None;
                }
                let k = cands[g.pick(cands.len())];
                Some(format!("{}&rec;{}", &t[..k], &t[k..]))
            }
        }
        "xmldecl-reorder" => {
            // [23] XMLDecl fixes the order version, encoding, standalone: trade two of them (adding what is missing)
            let t = if text.starts_with("<?xml ") || text.starts_with("<?xml\t") {
                let end = text.find("?>")?;
                format!("{}{}", ["<?xml version='1.0' standalone='yes' encoding='UTF-8'", "<?xml encoding='UTF-8' version='1.0'", "<?xml standalone='no' version='1.0'", "<?xml version='1.0' encoding='UTF-8' standalone='yes' encoding='UTF-8'"][g.pick(4)], &text[end..])
            } else {
                format!("{}{}", ["<?xml version='1.0' standalone='yes' encoding='UTF-8'?>", "<?xml encoding='UTF-8' version='1.0'?>", "<?xml standalone='no' version='1.0'?>"][g.pick(3)], text)
            };
            Some(t)
        }
        "lt-entity-in-attr" => {
            // WFC No < in Attribute Values through an entity whose replacement text is markup that is fine in
            // content; the same entity may also be referenced in content before and/or after the attribute
            let (rs, _) = root_span(text)?;
            let decl = ["<!ENTITY m \"<i>x</i>\">", "<!ENTITY m \"<i/>\">", "<!ENTITY m0 \"<i>y</i>\"><!ENTITY m \"a&m0;b\">"][g.pick(3)];
            let t = if text.contains("<!DOCTYPE") {
                let i = text.find('[')? + 1;
                format!("{}{}{}", &text[..i], decl, &text[i..])
            } else {
                format!("{}<!DOCTYPE a [{}]>{}", &text[..rs], decl, &text[rs..])
            };
            let (rs2, re2) = root_span(&t)?;
            // start tags inside the root span
            let tags: Vec<usize> = occurrences(&t[rs2..re2], "<").into_iter().map(|i| rs2 + i).filter(|&i| t[i + 1..].chars().next().map(|c| c.is_alphabetic() || c == '_').unwrap_or(false)).collect();
            if tags.is_empty() {
                return None;
            }
            let tag = tags[g.pick(tags.len())];
            let te = t[tag + 1..].find(|c: char| c == '>' || c == '/' || c.is_whitespace())? + tag + 1;
            let mut out = format!("{} zz=\"&m;\"{}", &t[..te], &t[te..]);
            // content uses: positions right after a '>' inside the root element
            let uses = g.pick(4); // 0 none, 1 before, 2 after, 3 both
            let (rs3, re3) = root_span(&out)?;
            let spots: Vec<usize> = occurrences(&out[rs3..re3], ">").into_iter().map(|i| rs3 + i + 1).filter(|&i| i < re3).collect();
            let attr_at = out.find(" zz=\"&m;\"")?;
            let before: Vec<usize> = spots.iter().copied().filter(|&i| i < attr_at).collect();
            let after: Vec<usize> = spots.iter().copied().filter(|&i| i > attr_at + 10).collect();
            if (uses == 2 || uses == 3) && !after.is_empty() {
                let k = after[g.pick(after.len())];
                out = format!("{}&m;{}", &out[..k], &out[k..]);
            }
            if (uses == 1 || uses == 3) && !before.is_empty() {
                let k = before[g.pick(before.len())];
                out = format!("{}&m;{}", &out[..k], &out[k..]);
            }
            Some(out)
        }
        "unterminated-comment" => {
            let i = pick_occ(text, "-->", g)?;
            Some(format!("{}{}", &text[..i], &text[i + 3..]))
        }
        "pe-reference" => {
            let i = text.find('[').filter(|_| text.contains("<!DOCTYPE"))? + 1;
            Some(format!("{}{}{}", &text[..i], ["%pe;", "<!ENTITY % pe \"x\">", "<!ENTITY % pe SYSTEM \"s\">%pe;"][g.pick(3)], &text[i..]))
        }
        "external-entity-in-attr" | "unparsed-entity-ref" => {
            let (rs, _) = root_span(text)?;
            if text.contains("<!DOCTYPE") {
                return None;
            }
            let decl = if name == "unparsed-entity-ref" {
                "<!DOCTYPE a [<!NOTATION n SYSTEM \"n\"><!ENTITY ext SYSTEM \"s\" NDATA n>]>"
            } else {
                "<!DOCTYPE a [<!ENTITY ext SYSTEM \"s\">]>"
            };
            let t = format!("{}{}{}", &text[..rs], decl, &text[rs..]);
            let (rs2, re2) = root_span(&t)?;
            if name == "unparsed-entity-ref" {
                let cands: Vec<usize> = occurrences(&t[rs2..re2], ">").into_iter().map(|i| rs2 + i + 1).filter(|&i| i < re2).collect();
                if cands.is_empty() {
                    return None;
                }
                let k = cands[g.pick(cands.len())];
                Some(format!("{}&ext;{}", &t[..k], &t[k..]))
            } else {
                // into the first attribute value of the root, or a new attribute
                let te = t[rs2..].find(|c: char| c == '>' || c == '/' || c.is_whitespace())? + rs2;
                Some(format!("{} zz=\"&ext;\"{}", &t[..te], &t[te..]))
            }
        }
        "pe-in-entity-value" => {
            // WFC PEs in Internal Subset: no parameter-entity reference inside a markup declaration, whether or not
            // the general entity that holds it is ever used, and whether or not the parameter entity exists
            let (rs, _) = root_span(text)?;
            let decl = ["<!ENTITY pev \"%p;\">", "<!ENTITY pev 'a%p;b'>", "<!ENTITY pev \"%\">", "<!ENTITY pev \"50% off\">"][g.pick(4)];
            let t = if text.contains("<!DOCTYPE") {
                let i = text.find('[')? + 1;
                format!("{}{}{}", &text[..i], decl, &text[i..])
            } else {
                format!("{}<!DOCTYPE a [{}]>{}", &text[..rs], decl, &text[rs..])
            };
            if g.chance(1, 2) {
                return Some(t);
            }
            // referenced as well
            let (rs2, re2) = root_span(&t)?;
            let cands: Vec<usize> = occurrences(&t[rs2..re2], ">").into_iter().map(|i| rs2 + i + 1).filter(|&i| i < re2).collect();
            if cands.is_empty() {
                return Some(t);
            }
            let k = cands[g.pick(cands.len())];
            Some(format!("{}&pev;{}", &t[..k], &t[k..]))
        }
        "redeclared-entity" => {
            // 4.2: the first declaration of an entity is binding. One of the entity-borne violations, after which
            // every entity of the subset is declared once more, harmlessly: the document stays ill-formed.
            let base = match g.pick(6) {
                0 => apply(text, "entity-recursion", g)?,
                1 => apply(text, "lt-entity-in-attr", g)?,
                2 => apply(text, "external-entity-in-attr", g)?,
                3 => apply(text, "unparsed-entity-ref", g)?,
                _ => {
                    // the binding declaration refers to an entity that is not declared
                    let (rs, _) = root_span(text)?;
                    let decl = ["<!ENTITY und \"&nosuch;\">", "<!ENTITY und0 \"&nosuch;\"><!ENTITY und \"a&und0;\">"][g.pick(2)];
                    let t = if text.contains("<!DOCTYPE") {
                        let i = text.find('[')? + 1;
                        format!("{}{}{}", &text[..i], decl, &text[i..])
                    } else {
                        format!("{}<!DOCTYPE a [{}]>{}", &text[..rs], decl, &text[rs..])
                    };
                    let (rs2, re2) = root_span(&t)?;
                    let cands: Vec<usize> = occurrences(&t[rs2..re2], ">").into_iter().map(|i| rs2 + i + 1).filter(|&i| i < re2).collect();
                    if cands.is_empty() {
                        return None;
                    }
                    let k = cands[g.pick(cands.len())];
                    format!("{}&und;{}", &t[..k], &t[k..])
                }
            };
            let (rs, _) = root_span(&base)?;
            let close = base[..rs].rfind("]>")?;
            let mut again = String::new();
            for name in ["rec", "rec2", "r1", "r2", "r3", "m", "m0", "ext", "und", "und0"] {
                if base[..close].contains(&format!("<!ENTITY {} ", name)) && (name == "rec" || name == "m" || name == "ext" || name == "und" || g.chance(1, 2)) {
                    again.push_str(&format!("<!ENTITY {} \"x\">", name));
                }
            }
            if again.is_empty() {
                return None;
            }
            Some(format!("{}{}{}", &base[..close], again, &base[close..]))
        }
        _ => None,
    }
}

/// token soup for totality checks: arbitrary but markup-rich valid UTF-8
pub const SOUP: &[&str] = &[
    "<", ">", "</", "/>", "<a", "<b ", "a", "b", "x=", "\"", "'", "=", " ", "\n", "<!--", "-->", "--", "<![CDATA[", "]]>", "]]", "<?", "?>", "<?xml ", "version=\"1.0\"", "encoding=\"UTF-8\"",
    "standalone=\"yes\"", "<!DOCTYPE ", "[", "]", "<!ENTITY ", "<!ENTITY % ", "%", "%p;", "<!ATTLIST ", "<!ELEMENT ", "<!NOTATION ", "CDATA", "#REQUIRED", "#IMPLIED", "#FIXED ", "ID", "NMTOKENS", "(",
    ")", "|", ",", "*", "+", "?", "#PCDATA", "EMPTY", "ANY", "SYSTEM ", "PUBLIC ", "NDATA ", "&", "&#", "&#x", ";", "&amp;", "&lt;", "&e;", "&#65;", "&#x41;", "&#0;", "xmlns", "xmlns:p=", "p:", ":", "1",
    "-", ".", "\u{e9}", "\u{1F600}", "\u{0}", "\u{fffe}", "\t", "\r", "\r\n", "e", "p", "\"u\"",
];
