//! ADoc — abstract document (infoset level), a gene-driven builder, and a renderer that draws
//! every surface-syntax choice from a second gene stream. The renderer also produces the canonical
//! JSON the library must report (same shape as oracle::canon), so no parser is needed to know what
//! the text denotes.

use super::genes::Genes;
use serde_json::{json, Value as Json};
use std::collections::BTreeMap;

pub const XML_NS: &str = "http://www.w3.org/XML/1998/namespace";

#[derive(Clone, Debug, PartialEq, Eq, PartialOrd, Ord)]
pub struct QN {
    pub prefix: Option<String>,
    pub local: String,
}

impl QN {
    pub fn new(prefix: Option<&str>, local: &str) -> QN {
        QN { prefix: prefix.map(|s| s.to_string()), local: local.to_string() }
    }
    pub fn text(&self) -> String {
        match &self.prefix {
            Some(p) => format!("{}:{}", p, self.local),
            None => self.local.clone(),
        }
    }
}

#[derive(Clone, Debug, PartialEq)]
pub enum Piece {
    /// literal characters (a literal white space character is normalised in attribute values)
    Text(String),
    /// character written as a character reference
    CharRef(char),
    /// reference to a general entity (predefined or declared internal)
    EntRef(String),
}

#[derive(Clone, Debug)]
pub struct AAttr {
    pub name: QN,
    pub value: Vec<Piece>,
}

#[derive(Clone, Debug)]
pub enum ANode {
    Elem(AElem),
    /// character data; the renderer chooses text / CDATA / character references
    Chars(String),
    EntRef(String),
    Comment(String),
    PI(String, String),
}

#[derive(Clone, Debug)]
pub struct AElem {
    pub name: QN,
    /// (prefix or None for the default namespace, uri; "" undeclares the default)
    pub ns_decls: Vec<(Option<String>, String)>,
    pub attrs: Vec<AAttr>,
    pub children: Vec<ANode>,
}

#[derive(Clone, Debug, PartialEq)]
pub enum AttType {
    Cdata,
    Id,
    IdRef,
    IdRefs,
    Entity,
    Entities,
    NmToken,
    NmTokens,
    Notation(Vec<String>),
    Enum(Vec<String>),
}

#[derive(Clone, Debug, PartialEq)]
pub enum DefaultDecl {
    Required,
    Implied,
    Value(Vec<Piece>),
    Fixed(Vec<Piece>),
}

#[derive(Clone, Debug)]
pub struct AttDef {
    pub name: QN,
    pub ty: AttType,
    pub default: DefaultDecl,
}

#[derive(Clone, Debug)]
pub enum ADecl {
    Entity { name: String, value: Vec<Piece> },
    ExtEntity { name: String, pubid: Option<String>, sysid: String, ndata: Option<String> },
    Notation { name: String, pubid: Option<String>, sysid: Option<String> },
    AttList { elem: String, defs: Vec<AttDef> },
    Element { name: String, spec: String },
    Comment(String),
    PI(String, String),
}

#[derive(Clone, Debug)]
pub struct ADocType {
    pub name: String,
    pub external: Option<(Option<String>, String)>,
    /// None: no internal subset brackets at all
    pub decls: Option<Vec<ADecl>>,
}

#[derive(Clone, Debug)]
pub struct XmlDecl {
    pub version: String,
    pub encoding: Option<String>,
    pub standalone: Option<bool>,
}

#[derive(Clone, Debug)]
pub struct ADoc {
    pub decl: Option<XmlDecl>,
    pub pre: Vec<ANode>,
    pub doctype: Option<ADocType>,
    pub pre2: Vec<ANode>,
    pub root: AElem,
    pub post: Vec<ANode>,
}

// ------------------------------------------------------------------------------------------------
// builder
// ------------------------------------------------------------------------------------------------

#[derive(Clone, Debug)]
pub struct DocCfg {
    pub max_nodes: usize,
    pub max_depth: usize,
    pub dtd: bool,
    pub namespaces: bool,
    pub attlist: bool,
    pub entity_refs: bool,
    /// value pools tuned for XPath coercions
    pub xpath_values: bool,
    pub non_ascii_names: bool,
    /// CR characters (as character references) in content and attribute values
    pub cr_chars: bool,
    pub external_id: bool,
    pub prolog_misc: bool,
    pub comments_pis: bool,
    /// ATTLIST defaults may reference declared entities
    pub default_entity_refs: bool,
}

impl DocCfg {
    pub fn full(max_nodes: usize) -> DocCfg {
        DocCfg {
            max_nodes,
            max_depth: 8,
            dtd: true,
            namespaces: true,
            attlist: true,
            entity_refs: true,
            xpath_values: false,
            non_ascii_names: true,
            cr_chars: true,
            external_id: true,
            prolog_misc: true,
            comments_pis: true,
            default_entity_refs: true,
        }
    }
}

const LOCALS: &[&str] = &["a", "b", "c", "d", "x", "item", "a-b", "a.1", "_u"];
const LOCALS_NA: &[&str] = &["\u{e9}lan", "\u{10000}a", "\u{2fef}", "b\u{b7}", "\u{3b1}\u{301}"];
const XPATH_LOCALS: &[&str] = &["a", "b", "c", "div", "mod", "and", "or", "text", "node", "comment", "x"];
const PREFIXES: &[&str] = &["p", "q", "r"];
const URIS: &[&str] = &["urn:u1", "urn:u2", "http://e/3", "urn:u1"];
const ATTR_LOCALS: &[&str] = &["id", "n", "k", "x", "y", "t"];
const ENTITY_NAMES: &[&str] = &["e1", "e2", "e3", "ent", "e.x", "\u{e9}"];
const NOTATION_NAMES: &[&str] = &["n1", "n2", "gif"];
const PI_TARGETS: &[&str] = &["t", "pi", "xml-stylesheet", "x", "xm", "XM", "xmlfoo", "\u{e9}"];
const SYS_IDS: &[&str] = &["s", "http://e/x.dtd", "a'b", "a\"b", ""];
const PUB_IDS: &[&str] = &["pub", "-//W3C//DTD X//EN", "a'b", ""];
const CONTENT_SPECS: &[&str] =
    &["EMPTY", "ANY", "(#PCDATA)", "(#PCDATA|a|b)*", "(a,b)", "(a|b)*", "(a,(b|c)+,d?)", "( a , b* )?", "(#PCDATA )", "((a|b),(c|d))"];

const TEXT_CHARS: &[&str] =
    &["a", "b", "z", "0", "1", " ", "\t", "\n", "<", "&", ">", "\"", "'", "]", "]]>", "\u{e9}", "\u{1F600}", "e\u{301}", "-", ";", "#", "\u{2028}", "\u{a0}"];
const XPATH_TEXTS: &[&str] = &["", "1", "2", "10", " 3 ", "x", "abc", "-0.5", "1e2", "a b", "\u{e9}", "07", "  ", "true", "NaN"];
const ATTR_TEXT_CHARS: &[&str] = &["a", "b", "0", "1", " ", " ", "\t", "\n", ">", "\"", "'", "]", "\u{e9}", "\u{1F600}", "-", "x y", "  ", "]]>", "]]"];
const CHARREF_CHARS: &[char] = &[' ', '\t', '\n', 'A', '\u{e9}', '>', '"', '\'', '<', '&', '\u{1F600}', '%', ']'];
const ENTVAL_TEXT_CHARS: &[&str] = &["a", "b", "1", " ", "\t", "\n", ">", "\"", "'", "\u{e9}", "]", "x y"];
const ENTVAL_CHARREF_CHARS: &[char] = &[' ', '\t', '\n', 'A', '\u{e9}', '>', '"', '\'', '%'];
const PREDEFINED: &[(&str, &str)] = &[("amp", "&"), ("lt", "<"), ("gt", ">"), ("apos", "'"), ("quot", "\"")];

pub struct Builder<'a> {
    g: &'a mut Genes,
    cfg: &'a DocCfg,
    nodes: usize,
    /// declared internal entities in declaration order: name -> pieces
    pub entities: Vec<(String, Vec<Piece>)>,
    notations: Vec<String>,
    pub features: Vec<&'static str>,
}

fn sanitize_comment(s: &str) -> String {
    // no "--", must not end with '-'
    let mut out = String::new();
    for c in s.chars() {
        if c == '-' && out.ends_with('-') {
            out.push(' ');
        }
        out.push(c);
    }
    if out.ends_with('-') {
        out.push(' ');
    }
    out
}

fn sanitize_pi_data(s: &str) -> String {
    let t = s.replace("?>", "? >");
    t.trim_start_matches(|c| c == ' ' || c == '\t' || c == '\n' || c == '\r').to_string()
}

impl<'a> Builder<'a> {
    pub fn new(g: &'a mut Genes, cfg: &'a DocCfg) -> Builder<'a> {
        Builder { g, cfg, nodes: 0, entities: vec![], notations: vec![], features: vec![] }
    }

    fn feat(&mut self, f: &'static str) {
        if !self.features.contains(&f) {
            self.features.push(f);
        }
    }

    fn local(&mut self) -> String {
        if self.cfg.xpath_values {
            return XPATH_LOCALS[self.g.pick(XPATH_LOCALS.len())].to_string();
        }
        if self.cfg.non_ascii_names && self.g.chance(1, 10) {
            self.feat("non-ascii-name");
            LOCALS_NA[self.g.pick(LOCALS_NA.len())].to_string()
        } else {
            LOCALS[self.g.pick(LOCALS.len())].to_string()
        }
    }

    fn string_from(&mut self, pool: &[&str], max: usize) -> String {
        let n = self.g.range(0, max);
        let mut s = String::new();
        for _ in 0..n {
            s.push_str(pool[self.g.pick(pool.len())]);
        }
        s
    }

    fn misc(&mut self) -> ANode {
        if self.g.chance(1, 2) {
            let raw = self.string_from(&["a", " ", "-", "<", "&", ">", "\u{e9}", "]]>", "?", "\n"], 5);
            self.feat("comment");
            ANode::Comment(sanitize_comment(&raw))
        } else {
            let t = PI_TARGETS[self.g.pick(PI_TARGETS.len())].to_string();
            let raw = self.string_from(&["a", " ", "?", ">", "<", "&", "\u{e9}", "=", "\"", "'"], 5);
            self.feat("pi");
            ANode::PI(t, sanitize_pi_data(&raw))
        }
    }

    fn miscs(&mut self, max: usize) -> Vec<ANode> {
        let mut v = vec![];
        if !self.cfg.prolog_misc {
            return v;
        }
        let n = self.g.weighted(&[6, 2, 1]).min(max);
        for _ in 0..n {
            v.push(self.misc());
        }
        v
    }

    fn entity_value_pieces(&mut self) -> Vec<Piece> {
        let n = self.g.range(0, 4);
        let mut v: Vec<Piece> = vec![];
        for _ in 0..n {
            match self.g.weighted(&[5, 2, 2]) {
                0 => {
                    let t = self.string_from(ENTVAL_TEXT_CHARS, 3);
                    if !t.is_empty() {
                        if let Some(Piece::Text(prev)) = v.last_mut() {
                            prev.push_str(&t);
                        } else {
                            v.push(Piece::Text(t));
                        }
                    }
                }
                1 => v.push(Piece::CharRef(ENTVAL_CHARREF_CHARS[self.g.pick(ENTVAL_CHARREF_CHARS.len())])),
                _ => {
                    // predefined or an earlier declared internal entity (so there can be no recursion)
                    let total = PREDEFINED.len() + self.entities.len();
                    let i = self.g.pick(total);
                    if i < PREDEFINED.len() {
                        v.push(Piece::EntRef(PREDEFINED[i].0.to_string()));
                    } else {
                        v.push(Piece::EntRef(self.entities[i - PREDEFINED.len()].0.clone()));
                    }
                }
            }
        }
        v
    }

    fn attr_value_pieces(&mut self, allow_refs: bool) -> Vec<Piece> {
        if self.cfg.xpath_values {
            let t = XPATH_TEXTS[self.g.pick(XPATH_TEXTS.len())].to_string();
            return if t.is_empty() { vec![] } else { vec![Piece::Text(t)] };
        }
        let n = self.g.range(0, 4);
        let mut v: Vec<Piece> = vec![];
        for _ in 0..n {
            match self.g.weighted(&[5, 2, if allow_refs && self.cfg.entity_refs { 2 } else { 0 }]) {
                0 => {
                    let t = self.string_from(ATTR_TEXT_CHARS, 3);
                    if !t.is_empty() {
                        if let Some(Piece::Text(prev)) = v.last_mut() {
                            prev.push_str(&t);
                        } else {
                            v.push(Piece::Text(t));
                        }
                    }
                }
                1 => {
                    let mut c = CHARREF_CHARS[self.g.pick(CHARREF_CHARS.len())];
                    if self.cfg.cr_chars && self.g.chance(1, 12) {
                        c = '\r';
                        self.feat("cr-charref");
                    }
                    v.push(Piece::CharRef(c));
                    self.feat("attr-charref");
                }
                _ => {
                    let total = PREDEFINED.len() + self.entities.len();
                    let i = self.g.pick(total);
                    if i < PREDEFINED.len() {
                        v.push(Piece::EntRef(PREDEFINED[i].0.to_string()));
                        self.feat("attr-predef-ref");
                    } else {
                        v.push(Piece::EntRef(self.entities[i - PREDEFINED.len()].0.clone()));
                        self.feat("attr-entity-ref");
                    }
                }
            }
        }
        v
    }

    fn doctype(&mut self, root_name: &str) -> ADocType {
        let name = if self.g.chance(1, 8) { LOCALS[self.g.pick(LOCALS.len())].to_string() } else { root_name.to_string() };
        let external = if self.cfg.external_id && self.g.chance(1, 6) {
            self.feat("doctype-external-id");
            let sys = SYS_IDS[self.g.pick(SYS_IDS.len())].to_string();
            if self.g.chance(1, 2) {
                Some((Some(PUB_IDS[self.g.pick(PUB_IDS.len())].to_string()), sys))
            } else {
                Some((None, sys))
            }
        } else {
            None
        };
        let decls = if self.g.chance(5, 6) {
            let n = self.g.range(0, 6);
            let mut v = vec![];
            for _ in 0..n {
                match self.g.weighted(&[4, 1, 2, if self.cfg.attlist { 3 } else { 0 }, 2, 1, 1]) {
                    0 => {
                        let name = ENTITY_NAMES[self.g.pick(ENTITY_NAMES.len())].to_string();
                        if self.entities.iter().any(|(n, _)| *n == name) || v.iter().any(|d| matches!(d, ADecl::ExtEntity { name: n, .. } if *n == name)) {
                            continue;
                        }
                        let value = self.entity_value_pieces();
                        self.entities.push((name.clone(), value.clone()));
                        self.feat("entity-decl");
                        v.push(ADecl::Entity { name, value });
                    }
                    1 => {
                        let name = format!("u{}", self.g.pick(3));
                        if self.entities.iter().any(|(n, _)| *n == name) || v.iter().any(|d| matches!(d, ADecl::ExtEntity { name: n, .. } if *n == name)) {
                            continue;
                        }
                        let sysid = SYS_IDS[self.g.pick(SYS_IDS.len())].to_string();
                        let pubid = if self.g.chance(1, 3) { Some(PUB_IDS[self.g.pick(PUB_IDS.len())].to_string()) } else { None };
                        let ndata = if self.g.chance(3, 4) { Some(NOTATION_NAMES[self.g.pick(NOTATION_NAMES.len())].to_string()) } else { None };
                        self.feat(if ndata.is_some() { "unparsed-entity" } else { "external-entity-decl" });
                        v.push(ADecl::ExtEntity { name, pubid, sysid, ndata });
                    }
                    2 => {
                        let name = NOTATION_NAMES[self.g.pick(NOTATION_NAMES.len())].to_string();
                        if self.notations.contains(&name) {
                            continue;
                        }
                        self.notations.push(name.clone());
                        let (pubid, sysid) = match self.g.pick(3) {
                            0 => (None, Some(SYS_IDS[self.g.pick(SYS_IDS.len())].to_string())),
                            1 => (Some(PUB_IDS[self.g.pick(PUB_IDS.len())].to_string()), None),
                            _ => (Some(PUB_IDS[self.g.pick(PUB_IDS.len())].to_string()), Some(SYS_IDS[self.g.pick(SYS_IDS.len())].to_string())),
                        };
                        self.feat("notation");
                        v.push(ADecl::Notation { name, pubid, sysid });
                    }
                    3 => {
                        let elem = LOCALS[self.g.pick(4)].to_string();
                        let nd = self.g.range(0, 3);
                        let mut defs = vec![];
                        for _ in 0..nd {
                            let aname = QN::new(None, ATTR_LOCALS[self.g.pick(ATTR_LOCALS.len())]);
                            let ty = match self.g.pick(10) {
                                0 => AttType::Cdata,
                                1 => AttType::Id,
                                2 => AttType::IdRef,
                                3 => AttType::IdRefs,
                                4 => AttType::Entity,
                                5 => AttType::Entities,
                                6 => AttType::NmToken,
                                7 => AttType::NmTokens,
                                8 => AttType::Notation(vec!["n1".into(), "gif".into()]),
                                _ => AttType::Enum(vec!["a".into(), "1".into(), "x-y".into()]),
                            };
                            let default = match self.g.pick(4) {
                                0 => DefaultDecl::Implied,
                                1 => DefaultDecl::Required,
                                2 => {
                                    let allow = self.cfg.default_entity_refs;
                                    DefaultDecl::Value(self.attr_value_pieces(allow))
                                }
                                _ => {
                                    let allow = self.cfg.default_entity_refs;
                                    DefaultDecl::Fixed(self.attr_value_pieces(allow))
                                }
                            };
                            defs.push(AttDef { name: aname, ty, default });
                        }
                        self.feat("attlist");
                        v.push(ADecl::AttList { elem, defs });
                    }
                    4 => {
                        let name = LOCALS[self.g.pick(LOCALS.len())].to_string();
                        let spec = CONTENT_SPECS[self.g.pick(CONTENT_SPECS.len())].to_string();
                        self.feat("element-decl");
                        v.push(ADecl::Element { name, spec });
                    }
                    5 => {
                        let raw = self.string_from(&["a", " ", "-", "<", "&", ">", "%", "]"], 4);
                        self.feat("dtd-comment");
                        v.push(ADecl::Comment(sanitize_comment(&raw)));
                    }
                    _ => {
                        let t = PI_TARGETS[self.g.pick(PI_TARGETS.len())].to_string();
                        let raw = self.string_from(&["a", " ", "?", ">", "%", "]"], 4);
                        self.feat("dtd-pi");
                        v.push(ADecl::PI(t, sanitize_pi_data(&raw)));
                    }
                }
            }
            // General entities may be declared in any order: a reference inside an entity value is resolved when the
            // entity is used, not where it is declared. Now and then the internal entities trade places (first with last,
            // ...), unless an attribute default refers to a declared entity (that one must be declared before the ATTLIST).
            let default_refs = v.iter().any(|d| match d {
                ADecl::AttList { defs, .. } => defs.iter().any(|a| match &a.default {
                    DefaultDecl::Value(p) | DefaultDecl::Fixed(p) => p.iter().any(|x| matches!(x, Piece::EntRef(n) if !matches!(n.as_str(), "lt" | "gt" | "amp" | "apos" | "quot"))),
                    _ => false,
                }),
                _ => false,
            });
            let slots: Vec<usize> = v.iter().enumerate().filter(|(_, d)| matches!(d, ADecl::Entity { .. })).map(|(i, _)| i).collect();
            if slots.len() >= 2 && !default_refs && self.g.chance(1, 3) {
                self.feat("entities-declared-after-use-in-entity-values");
                let mut ents: Vec<ADecl> = slots.iter().map(|&i| v[i].clone()).collect();
                ents.reverse();
                for (k, &i) in slots.iter().enumerate() {
                    v[i] = ents[k].clone();
                }
            }
            Some(v)
        } else {
            None
        };
        ADocType { name, external, decls }
    }

    fn element(&mut self, scope: &Vec<(Option<String>, String)>, depth: usize) -> AElem {
        self.nodes += 1;
        let mut scope = scope.clone();
        let mut ns_decls: Vec<(Option<String>, String)> = vec![];
        if self.cfg.namespaces {
            let n = self.g.weighted(&[6, 3, 1]);
            for _ in 0..n {
                if self.g.chance(1, 3) {
                    // default namespace: declare or undeclare
                    if ns_decls.iter().any(|(p, _)| p.is_none()) {
                        continue;
                    }
                    let has_default = scope.iter().rev().find(|(p, _)| p.is_none()).map(|(_, u)| !u.is_empty()).unwrap_or(false);
                    let uri = if has_default && self.g.chance(1, 2) {
                        self.feat("ns-undeclare");
                        String::new()
                    } else {
                        self.feat("ns-default");
                        URIS[self.g.pick(URIS.len())].to_string()
                    };
                    ns_decls.push((None, uri));
                } else {
                    let p = PREFIXES[self.g.pick(PREFIXES.len())].to_string();
                    if ns_decls.iter().any(|(q, _)| q.as_deref() == Some(&p)) {
                        continue;
                    }
                    if scope.iter().any(|(q, _)| q.as_deref() == Some(&p)) {
                        self.feat("ns-shadow");
                    }
                    self.feat("ns-prefix");
                    ns_decls.push((Some(p), URIS[self.g.pick(URIS.len())].to_string()));
                }
            }
        }
        for d in &ns_decls {
            scope.push(d.clone());
        }
        let in_scope_prefixes: Vec<String> = {
            let mut v: Vec<String> = vec![];
            for (p, _) in scope.iter() {
                if let Some(p) = p {
                    if !v.contains(p) {
                        v.push(p.clone());
                    }
                }
            }
            v
        };
        let resolve = |scope: &Vec<(Option<String>, String)>, p: &str| -> String {
            scope.iter().rev().find(|(q, _)| q.as_deref() == Some(p)).map(|(_, u)| u.clone()).unwrap_or_default()
        };
        let local = self.local();
        let name = if !in_scope_prefixes.is_empty() && self.g.chance(1, 3) {
            self.feat("prefixed-element");
            QN { prefix: Some(in_scope_prefixes[self.g.pick(in_scope_prefixes.len())].clone()), local }
        } else {
            QN { prefix: None, local }
        };
        // attributes: unique by qname and by expanded name
        let na = self.g.weighted(&[4, 3, 2, 1]);
        let mut attrs: Vec<AAttr> = vec![];
        let mut seen: Vec<(String, String)> = vec![];
        for _ in 0..na {
            let kind = self.g.weighted(&[8, if in_scope_prefixes.is_empty() { 0 } else { 3 }, if self.cfg.namespaces { 1 } else { 0 }]);
            let qn = match kind {
                0 => QN::new(None, ATTR_LOCALS[self.g.pick(ATTR_LOCALS.len())]),
                1 => {
                    self.feat("prefixed-attr");
                    let prefix = in_scope_prefixes[self.g.pick(in_scope_prefixes.len())].clone();
                    // `p:xmlns` is an ordinary attribute: only the *prefix* xmlns (or the whole name xmlns) declares
                    let local = if self.cfg.namespaces && self.g.chance(1, 8) {
                        self.feat("prefixed-attr-with-local-part-xmlns");
                        "xmlns".to_string()
                    } else {
                        ATTR_LOCALS[self.g.pick(ATTR_LOCALS.len())].to_string()
                    };
                    QN { prefix: Some(prefix), local }
                }
                _ => {
                    self.feat("xml-attr");
                    QN::new(Some("xml"), if self.g.chance(1, 2) { "lang" } else { "space" })
                }
            };
            let uri = match &qn.prefix {
                None => String::new(),
                Some(p) if p == "xml" => XML_NS.to_string(),
                Some(p) => resolve(&scope, p),
            };
            let key = (uri, qn.local.clone());
            if seen.contains(&key) {
                continue;
            }
            seen.push(key);
            let value = if qn.prefix.as_deref() == Some("xml") {
                vec![Piece::Text(if qn.local == "lang" { ["en", "en-US", "fr", ""][self.g.pick(4)].to_string() } else { "preserve".to_string() })]
            } else {
                self.attr_value_pieces(true)
            };
            if !value.is_empty() {
                self.feat("attribute");
            }
            attrs.push(AAttr { name: qn, value });
        }
        // children
        let mut children: Vec<ANode> = vec![];
        if depth < self.cfg.max_depth {
            let nc = if depth == 0 { self.g.weighted(&[1, 2, 3, 3, 3, 2, 2, 1]) } else { self.g.weighted(&[3, 3, 3, 2, 2, 1, 1]) };
            for _ in 0..nc {
                if self.nodes >= self.cfg.max_nodes {
                    break;
                }
                let w_ref = if self.cfg.entity_refs { 2 } else { 0 };
                let w_misc = if self.cfg.comments_pis { 2 } else { 0 };
                match self.g.weighted(&[5, 7, w_ref, w_misc]) {
                    0 => {
                        let s = if self.cfg.xpath_values {
                            XPATH_TEXTS[self.g.pick(XPATH_TEXTS.len())].to_string()
                        } else {
                            let mut s = self.string_from(TEXT_CHARS, 4);
                            if self.cfg.cr_chars && self.g.chance(1, 16) {
                                s.push('\r');
                                self.feat("cr-charref");
                            }
                            s
                        };
                        if s.is_empty() {
                            continue;
                        }
                        self.nodes += 1;
                        if let Some(ANode::Chars(prev)) = children.last_mut() {
                            prev.push_str(&s);
                        } else {
                            children.push(ANode::Chars(s));
                        }
                    }
                    1 => {
                        let e = self.element(&scope, depth + 1);
                        children.push(ANode::Elem(e));
                    }
                    2 => {
                        let total = PREDEFINED.len() + self.entities.len();
                        let mut i = self.g.pick(total);
                        if !self.entities.is_empty() && self.g.chance(1, 2) {
                            i = PREDEFINED.len() + self.g.pick(self.entities.len());
                        }
                        self.nodes += 1;
                        if i < PREDEFINED.len() {
                            self.feat("predef-ref");
                            children.push(ANode::EntRef(PREDEFINED[i].0.to_string()));
                        } else {
                            self.feat("entity-ref");
                            children.push(ANode::EntRef(self.entities[i - PREDEFINED.len()].0.clone()));
                        }
                    }
                    _ => {
                        self.nodes += 1;
                        let m = self.misc();
                        children.push(m);
                    }
                }
            }
        }
        AElem { name, ns_decls, attrs, children }
    }

    pub fn document(&mut self) -> ADoc {
        let decl = if self.g.chance(1, 2) {
            self.feat("xml-decl");
            let version = if self.g.chance(1, 8) { "1.1".to_string() } else { "1.0".to_string() };
            let encoding = match self.g.weighted(&[3, 2, 1]) {
                0 => None,
                1 => Some("UTF-8".to_string()),
                _ => Some("utf-8".to_string()),
            };
            let standalone = match self.g.weighted(&[3, 1, 1]) {
                0 => None,
                1 => Some(true),
                _ => Some(false),
            };
            Some(XmlDecl { version, encoding, standalone })
        } else {
            None
        };
        let pre = self.miscs(2);
        // the DTD comes first in the gene stream so that entity references can be generated afterwards
        let want_dtd = self.cfg.dtd && self.g.chance(1, 2);
        let root_local_for_dtd = LOCALS[self.g.pick(4)].to_string();
        let doctype = if want_dtd {
            self.feat("doctype");
            Some(self.doctype(&root_local_for_dtd))
        } else {
            None
        };
        let pre2 = if doctype.is_some() { self.miscs(1) } else { vec![] };
        let scope: Vec<(Option<String>, String)> = vec![];
        let mut root = self.element(&scope, 0);
        if want_dtd && root.name.prefix.is_none() && !self.cfg.xpath_values && self.g.chance(3, 4) {
            // make ATTLISTs apply to the root more often
            root.name.local = root_local_for_dtd;
        }
        let post = self.miscs(2);
        ADoc { decl, pre, doctype, pre2, root, post }
    }
}

pub fn build(genes: Vec<u16>, cfg: &DocCfg) -> (ADoc, Vec<&'static str>) {
    let mut g = Genes::new(genes);
    let mut b = Builder::new(&mut g, cfg);
    let d = b.document();
    let f = b.features.clone();
    (d, f)
}

// ------------------------------------------------------------------------------------------------
// semantics: entity expansion, attribute normalisation, namespaces
// ------------------------------------------------------------------------------------------------

pub struct Semantics<'a> {
    pub entities: BTreeMap<String, &'a Vec<Piece>>,
    /// element name (as written) -> attribute definitions, first declaration of a name wins
    pub attdefs: BTreeMap<String, Vec<&'a AttDef>>,
}

fn predefined(name: &str) -> Option<&'static str> {
    PREDEFINED.iter().find(|(n, _)| *n == name).map(|(_, v)| *v)
}

impl<'a> Semantics<'a> {
    pub fn of(doc: &'a ADoc) -> Semantics<'a> {
        let mut entities = BTreeMap::new();
        let mut attdefs: BTreeMap<String, Vec<&AttDef>> = BTreeMap::new();
        if let Some(dt) = &doc.doctype {
            if let Some(decls) = &dt.decls {
                for d in decls {
                    match d {
                        ADecl::Entity { name, value } => {
                            entities.entry(name.clone()).or_insert(value);
                        }
                        ADecl::AttList { elem, defs } => {
                            let e = attdefs.entry(elem.clone()).or_default();
                            for def in defs {
                                if !e.iter().any(|x| x.name == def.name) {
                                    e.push(def);
                                }
                            }
                        }
                        _ => {}
                    }
                }
            }
        }
        Semantics { entities, attdefs }
    }

    /// replacement text included in content, fully expanded to characters
    pub fn expand_content(&self, name: &str) -> String {
        if let Some(p) = predefined(name) {
            return p.to_string();
        }
        let mut out = String::new();
        if let Some(pieces) = self.entities.get(name) {
            for p in pieces.iter() {
                match p {
                    Piece::Text(t) => out.push_str(t),
                    Piece::CharRef(c) => out.push(*c),
                    Piece::EntRef(n) => out.push_str(&self.expand_content(n)),
                }
            }
        }
        out
    }

    /// XML 1.0 §3.3.3 step 3 applied to the replacement text of an entity (char references in the
    /// entity's literal were resolved when it was declared, so white space they produced is
    /// normalised like literal white space here)
    fn expand_attr(&self, name: &str, out: &mut String) {
        if let Some(p) = predefined(name) {
            out.push_str(p);
            return;
        }
        if let Some(pieces) = self.entities.get(name) {
            for p in pieces.iter() {
                match p {
                    Piece::Text(t) => {
                        for c in t.chars() {
                            out.push(if matches!(c, ' ' | '\t' | '\n' | '\r') { ' ' } else { c });
                        }
                    }
                    Piece::CharRef(c) => out.push(if matches!(*c, ' ' | '\t' | '\n' | '\r') { ' ' } else { *c }),
                    Piece::EntRef(n) => self.expand_attr(n, out),
                }
            }
        }
    }

    pub fn normalize_attr(&self, pieces: &[Piece], cdata: bool) -> String {
        let mut out = String::new();
        for p in pieces {
            match p {
                Piece::Text(t) => {
                    for c in t.chars() {
                        out.push(if matches!(c, ' ' | '\t' | '\n' | '\r') { ' ' } else { c });
                    }
                }
                Piece::CharRef(c) => out.push(*c),
                Piece::EntRef(n) => self.expand_attr(n, &mut out),
            }
        }
        if cdata {
            out
        } else {
            let mut r = String::new();
            for tok in out.split(' ').filter(|t| !t.is_empty()) {
                if !r.is_empty() {
                    r.push(' ');
                }
                r.push_str(tok);
            }
            r
        }
    }

    pub fn attdef(&self, elem: &str, attr: &QN) -> Option<&AttDef> {
        self.attdefs.get(elem).and_then(|v| v.iter().find(|d| d.name == *attr).copied())
    }
}

// ------------------------------------------------------------------------------------------------
// renderer
// ------------------------------------------------------------------------------------------------

pub struct Rendered {
    pub text: String,
    /// expected canonical tree in the raw view (oracle::canon shape)
    pub raw: Json,
    /// expected document-level properties
    pub props: Json,
    pub labels: Vec<String>,
}

struct R<'a> {
    c: &'a mut Genes,
    sem: &'a Semantics<'a>,
    out: String,
    labels: Vec<String>,
    /// render LF in content as CRLF / CR (exercises §2.11)
    line_end_variants: bool,
}

const WS_OPT: &[&str] = &["", " ", "\n", "\t", "  ", " \n "];
const WS_REQ: &[&str] = &[" ", "\n", "\t", "  ", "\r\n", " \t"];

impl<'a> R<'a> {
    fn label(&mut self, l: &str) {
        if !self.labels.iter().any(|x| x == l) {
            self.labels.push(l.to_string());
        }
    }
    fn ws0(&mut self) {
        let w = WS_OPT[self.c.pick(WS_OPT.len())];
        if !w.is_empty() {
            self.label("r:optional-ws");
        }
        self.out.push_str(w);
    }
    fn ws1(&mut self) {
        let w = WS_REQ[self.c.pick(WS_REQ.len())];
        self.out.push_str(w);
    }
    fn eq(&mut self) {
        self.ws0();
        self.out.push('=');
        self.ws0();
    }
    /// a literal whose content may not contain the chosen quote; `s` has no characters needing escape
    fn quoted_plain(&mut self, s: &str) {
        let q = if s.contains('"') {
            '\''
        } else if s.contains('\'') {
            '"'
        } else if self.c.chance(1, 2) {
            self.label("r:single-quote");
            '\''
        } else {
            '"'
        };
        self.out.push(q);
        self.out.push_str(s);
        self.out.push(q);
    }

    fn charref(&mut self, c: char) {
        let cp = c as u32;
        match self.c.pick(4) {
            0 => self.out.push_str(&format!("&#{};", cp)),
            1 => self.out.push_str(&format!("&#x{:X};", cp)),
            2 => self.out.push_str(&format!("&#x{:x};", cp)),
            _ => self.out.push_str(&format!("&#{:04};", cp)),
        }
    }

    fn charref_name(&self, from: usize) -> String {
        // the library names a character-reference node by its source text
        self.out[from..].to_string()
    }

    /// literal of attribute-value / entity-value pieces; returns nothing (value semantics are in Semantics)
    fn pieces_literal(&mut self, pieces: &[Piece], entity_value: bool) {
        // choose the delimiter
        let has_dq = pieces.iter().any(|p| matches!(p, Piece::Text(t) if t.contains('"')));
        let has_sq = pieces.iter().any(|p| matches!(p, Piece::Text(t) if t.contains('\'')));
        let q = if self.c.chance(1, 2) { '\'' } else { '"' };
        if q == '\'' {
            self.label("r:single-quote");
        }
        let _ = (has_dq, has_sq);
        self.out.push(q);
        for p in pieces {
            match p {
                Piece::Text(t) => {
                    for ch in t.chars() {
                        let ws = matches!(ch, ' ' | '\t' | '\n' | '\r');
                        if ch == q {
                            // the delimiter itself: reference (numeric or predefined)
                            if !entity_value && self.c.chance(1, 2) {
                                self.out.push_str(if q == '"' { "&quot;" } else { "&apos;" });
                            } else {
                                self.charref(ch);
                            }
                        } else if ch == '<' || ch == '&' || (entity_value && ch == '%') {
                            if !entity_value && self.c.chance(1, 2) {
                                self.out.push_str(if ch == '<' { "&lt;" } else { "&amp;" });
                            } else {
                                self.charref(ch);
                            }
                        } else if !ws && self.c.chance(1, 10) {
                            // a character reference for an ordinary character denotes the same value
                            self.label("r:charref-for-literal");
                            self.charref(ch);
                        } else {
                            self.out.push(ch);
                        }
                    }
                }
                Piece::CharRef(c) => self.charref(*c),
                Piece::EntRef(n) => {
                    self.out.push('&');
                    self.out.push_str(n);
                    self.out.push(';');
                }
            }
        }
        self.out.push(q);
    }

    fn misc(&mut self, n: &ANode) -> Option<Json> {
        match n {
            ANode::Comment(s) => {
                self.out.push_str("<!--");
                self.out.push_str(s);
                self.out.push_str("-->");
                Some(json!({"k": "comment", "v": s}))
            }
            ANode::PI(t, d) => {
                self.out.push_str("<?");
                self.out.push_str(t);
                if !d.is_empty() {
                    self.ws1();
                    self.out.push_str(d);
                } else if self.c.chance(1, 4) {
                    self.ws1();
                }
                self.out.push_str("?>");
                Some(json!({"k": "pi", "target": t, "data": d}))
            }
            _ => None,
        }
    }

    fn chars(&mut self, s: &str, kids: &mut Vec<Json>) {
        // split into segments: literal text, CDATA sections, character references, predefined references
        let chars: Vec<char> = s.chars().collect();
        let mut i = 0;
        let mut lit = String::new(); // pending literal text (expected value)
        let flush = |lit: &mut String, kids: &mut Vec<Json>| {
            if !lit.is_empty() {
                kids.push(json!({"k": "text", "v": lit.clone()}));
                lit.clear();
            }
        };
        while i < chars.len() {
            let mode = self.c.weighted(&[10, 2, 1]);
            if mode == 1 && chars[i] != '\r' {
                // CDATA section over a run that contains neither CR nor "]]>"
                let mut j = i;
                let maxlen = 1 + self.c.pick(6);
                let mut body = String::new();
                while j < chars.len() && j - i < maxlen && chars[j] != '\r' {
                    body.push(chars[j]);
                    if body.ends_with("]]>") {
                        body.pop();
                        break;
                    }
                    j += 1;
                }
                if body.is_empty() {
                    // single '>' that would complete "]]>" cannot start here; fall through to literal
                } else {
                    flush(&mut lit, kids);
                    self.label("r:cdata");
                    self.out.push_str("<![CDATA[");
                    let mut val = String::new();
                    for ch in body.chars() {
                        if ch == '\n' && self.line_end_variants {
                            match self.c.pick(3) {
                                0 => self.out.push('\n'),
                                1 => {
                                    self.label("r:crlf");
                                    self.out.push_str("\r\n")
                                }
                                _ => {
                                    self.label("r:cr");
                                    self.out.push('\r')
                                }
                            }
                        } else {
                            self.out.push(ch);
                        }
                        val.push(ch);
                    }
                    self.out.push_str("]]>");
                    kids.push(json!({"k": "cdata", "v": val}));
                    i += body.chars().count();
                    continue;
                }
            }
            let ch = chars[i];
            i += 1;
            if ch == '\r' || mode == 2 {
                flush(&mut lit, kids);
                self.label("r:charref");
                let from = self.out.len();
                self.charref(ch);
                let name = self.charref_name(from);
                kids.push(json!({"k": "ref", "name": name, "v": ch.to_string()}));
                continue;
            }
            match ch {
                '<' | '&' => {
                    if self.c.chance(1, 2) {
                        flush(&mut lit, kids);
                        let n = if ch == '<' { "lt" } else { "amp" };
                        self.out.push('&');
                        self.out.push_str(n);
                        self.out.push(';');
                        self.label("r:predef-for-literal");
                        kids.push(json!({"k": "ref", "name": n, "v": ch.to_string()}));
                    } else {
                        flush(&mut lit, kids);
                        let from = self.out.len();
                        self.charref(ch);
                        let name = self.charref_name(from);
                        kids.push(json!({"k": "ref", "name": name, "v": ch.to_string()}));
                    }
                }
                '>' if lit.ends_with("]]") || self.out.ends_with("]]") => {
                    flush(&mut lit, kids);
                    self.out.push_str("&gt;");
                    kids.push(json!({"k": "ref", "name": "gt", "v": ">"}));
                }
                '\n' if self.line_end_variants => {
                    match self.c.pick(3) {
                        0 => self.out.push('\n'),
                        1 => {
                            self.label("r:crlf");
                            self.out.push_str("\r\n")
                        }
                        _ => {
                            self.label("r:cr");
                            self.out.push('\r')
                        }
                    }
                    lit.push('\n');
                }
                _ => {
                    self.out.push(ch);
                    lit.push(ch);
                }
            }
        }
        flush(&mut lit, kids);
    }

    fn element(&mut self, e: &AElem, scope: &Vec<(Option<String>, String)>) -> Json {
        let mut scope = scope.clone();
        for d in &e.ns_decls {
            scope.push(d.clone());
        }
        let resolve_prefix = |p: &str| -> Option<String> {
            if p == "xml" {
                return Some(XML_NS.to_string());
            }
            scope.iter().rev().find(|(q, _)| q.as_deref() == Some(p)).map(|(_, u)| u.clone())
        };
        let default_ns: Option<String> = scope.iter().rev().find(|(q, _)| q.is_none()).map(|(_, u)| u.clone()).filter(|u| !u.is_empty());
        let uri = match &e.name.prefix {
            Some(p) => resolve_prefix(p),
            None => default_ns.clone(),
        };
        let qname = e.name.text();
        self.out.push('<');
        self.out.push_str(&qname);
        // items of the start tag in a chosen order: ns declarations and attributes
        #[derive(Clone)]
        enum Item<'b> {
            Ns(&'b (Option<String>, String)),
            At(&'b AAttr),
        }
        let mut items: Vec<Item> = e.ns_decls.iter().map(Item::Ns).chain(e.attrs.iter().map(Item::At)).collect();
        // Fisher-Yates driven by the choice stream (all-zero choices keep the order)
        let n = items.len();
        for i in 0..n.saturating_sub(1) {
            let j = i + self.c.pick(n - i);
            if j != i {
                self.label("r:attr-order");
                items.swap(i, j);
            }
        }
        for it in &items {
            self.ws1();
            match it {
                Item::Ns((p, u)) => {
                    match p {
                        Some(p) => {
                            self.out.push_str("xmlns:");
                            self.out.push_str(p);
                        }
                        None => self.out.push_str("xmlns"),
                    }
                    self.eq();
                    // the namespace name is an attribute value like any other: some of its characters may be written
                    // as references (never the first one, so that a literal piece is followed by a reference)
                    if u.len() >= 2 && !u.contains('"') && !u.contains('\'') && self.c.chance(1, 6) {
                        self.label("r:charref-in-namespace-name");
                        let q = if self.c.chance(1, 2) { '\'' } else { '"' };
                        self.out.push(q);
                        let at = 1 + self.c.pick(u.chars().count() - 1);
                        for (i, ch) in u.chars().enumerate() {
                            if i == at {
                                self.charref(ch);
                            } else {
                                self.out.push(ch);
                            }
                        }
                        self.out.push(q);
                    } else {
                        self.quoted_plain(u);
                    }
                }
                Item::At(a) => {
                    self.out.push_str(&a.name.text());
                    self.eq();
                    self.pieces_literal(&a.value, false);
                }
            }
        }
        // expected attributes
        let mut attrs: Vec<Json> = vec![];
        for a in &e.attrs {
            let def = self.sem.attdef(&qname, &a.name);
            let cdata = def.map(|d| d.ty == AttType::Cdata).unwrap_or(true);
            let value = self.sem.normalize_attr(&a.value, cdata);
            let auri = a.name.prefix.as_ref().and_then(|p| resolve_prefix(p));
            attrs.push(json!({"local": a.name.local, "uri": auri, "value": value, "spec": true}));
        }
        if let Some(defs) = self.sem.attdefs.get(&qname) {
            for d in defs {
                if e.attrs.iter().any(|a| a.name == d.name) {
                    continue;
                }
                let pieces = match &d.default {
                    DefaultDecl::Value(p) | DefaultDecl::Fixed(p) => p,
                    _ => continue,
                };
                let value = self.sem.normalize_attr(pieces, d.ty == AttType::Cdata);
                self.label("defaulted-attr");
                if value != self.sem.normalize_attr(pieces, true) {
                    self.label("default-needs-type-normalisation");
                }
                attrs.push(json!({"local": d.name.local, "uri": Json::Null, "value": value, "spec": false}));
            }
        }
        attrs.sort_by_key(|a| (a["uri"].as_str().unwrap_or("").to_string(), a["local"].as_str().unwrap_or("").to_string()));

        let mut kids: Vec<Json> = vec![];
        if e.children.is_empty() && !self.c.chance(1, 3) {
            self.ws0();
            self.out.push_str("/>");
        } else {
            if e.children.is_empty() {
                self.label("r:start-end-pair-for-empty");
            }
            self.ws0();
            self.out.push('>');
            for ch in &e.children {
                match ch {
                    ANode::Elem(c) => {
                        let j = self.element(c, &scope);
                        kids.push(j);
                    }
                    ANode::Chars(s) => self.chars(s, &mut kids),
                    ANode::EntRef(n) => {
                        self.out.push('&');
                        self.out.push_str(n);
                        self.out.push(';');
                        let x = self.sem.expand_content(n);
                        if x.is_empty() {
                            self.label("ref-to-empty-entity");
                        }
                        kids.push(json!({"k": "ref", "name": n, "v": x}));
                    }
                    m => {
                        if let Some(j) = self.misc(m) {
                            kids.push(j);
                        }
                    }
                }
            }
            self.out.push_str("</");
            self.out.push_str(&qname);
            self.ws0();
            self.out.push('>');
        }
        json!({"k": "elem", "local": e.name.local, "uri": uri, "attrs": attrs, "kids": kids})
    }

    fn doctype(&mut self, dt: &ADocType) -> Json {
        self.out.push_str("<!DOCTYPE");
        self.ws1();
        self.out.push_str(&dt.name);
        if let Some((p, s)) = &dt.external {
            self.ws1();
            match p {
                Some(p) => {
                    self.out.push_str("PUBLIC");
                    self.ws1();
                    self.quoted_plain(p);
                    self.ws1();
                    self.quoted_plain(s);
                }
                None => {
                    self.out.push_str("SYSTEM");
                    self.ws1();
                    self.quoted_plain(s);
                }
            }
        }
        self.ws0();
        let mut ents: Vec<Json> = vec![];
        let mut nots: Vec<Json> = vec![];
        if let Some(decls) = &dt.decls {
            self.out.push('[');
            for d in decls {
                self.ws0();
                match d {
                    ADecl::Entity { name, value } => {
                        self.out.push_str("<!ENTITY");
                        self.ws1();
                        self.out.push_str(name);
                        self.ws1();
                        self.pieces_literal(value, true);
                        self.ws0();
                        self.out.push('>');
                        ents.push(json!({"name": name, "pub": Json::Null, "sys": Json::Null, "ndata": Json::Null}));
                    }
                    ADecl::ExtEntity { name, pubid, sysid, ndata } => {
                        self.out.push_str("<!ENTITY");
                        self.ws1();
                        self.out.push_str(name);
                        self.ws1();
                        match pubid {
                            Some(p) => {
                                self.out.push_str("PUBLIC");
                                self.ws1();
                                self.quoted_plain(p);
                                self.ws1();
                                self.quoted_plain(sysid);
                            }
                            None => {
                                self.out.push_str("SYSTEM");
                                self.ws1();
                                self.quoted_plain(sysid);
                            }
                        }
                        if let Some(n) = ndata {
                            self.ws1();
                            self.out.push_str("NDATA");
                            self.ws1();
                            self.out.push_str(n);
                        }
                        self.ws0();
                        self.out.push('>');
                        ents.push(json!({"name": name, "pub": pubid, "sys": sysid, "ndata": ndata}));
                    }
                    ADecl::Notation { name, pubid, sysid } => {
                        self.out.push_str("<!NOTATION");
                        self.ws1();
                        self.out.push_str(name);
                        self.ws1();
                        match (pubid, sysid) {
                            (Some(p), Some(s)) => {
                                self.out.push_str("PUBLIC");
                                self.ws1();
                                self.quoted_plain(p);
                                self.ws1();
                                self.quoted_plain(s);
                            }
                            (Some(p), None) => {
                                self.out.push_str("PUBLIC");
                                self.ws1();
                                self.quoted_plain(p);
                            }
                            (None, Some(s)) => {
                                self.out.push_str("SYSTEM");
                                self.ws1();
                                self.quoted_plain(s);
                            }
                            (None, None) => {
                                self.out.push_str("SYSTEM");
                                self.ws1();
                                self.quoted_plain("");
                            }
                        }
                        self.ws0();
                        self.out.push('>');
                        let sys = if pubid.is_none() && sysid.is_none() { Some(String::new()) } else { sysid.clone() };
                        nots.push(json!({"name": name, "pub": pubid, "sys": sys}));
                    }
                    ADecl::AttList { elem, defs } => {
                        self.out.push_str("<!ATTLIST");
                        self.ws1();
                        self.out.push_str(elem);
                        for def in defs {
                            self.ws1();
                            self.out.push_str(&def.name.text());
                            self.ws1();
                            match &def.ty {
                                AttType::Cdata => self.out.push_str("CDATA"),
                                AttType::Id => self.out.push_str("ID"),
                                AttType::IdRef => self.out.push_str("IDREF"),
                                AttType::IdRefs => self.out.push_str("IDREFS"),
                                AttType::Entity => self.out.push_str("ENTITY"),
                                AttType::Entities => self.out.push_str("ENTITIES"),
                                AttType::NmToken => self.out.push_str("NMTOKEN"),
                                AttType::NmTokens => self.out.push_str("NMTOKENS"),
                                AttType::Notation(v) | AttType::Enum(v) => {
                                    if matches!(def.ty, AttType::Notation(_)) {
                                        self.out.push_str("NOTATION");
                                        self.ws1();
                                    }
                                    self.out.push('(');
                                    for (i, t) in v.iter().enumerate() {
                                        if i > 0 {
                                            self.ws0();
                                            self.out.push('|');
                                        }
                                        self.ws0();
                                        self.out.push_str(t);
                                    }
                                    self.ws0();
                                    self.out.push(')');
                                }
                            }
                            self.ws1();
                            match &def.default {
                                DefaultDecl::Required => self.out.push_str("#REQUIRED"),
                                DefaultDecl::Implied => self.out.push_str("#IMPLIED"),
                                DefaultDecl::Value(p) => self.pieces_literal(p, false),
                                DefaultDecl::Fixed(p) => {
                                    self.out.push_str("#FIXED");
                                    self.ws1();
                                    self.pieces_literal(p, false);
                                }
                            }
                        }
                        self.ws0();
                        self.out.push('>');
                    }
                    ADecl::Element { name, spec } => {
                        self.out.push_str("<!ELEMENT");
                        self.ws1();
                        self.out.push_str(name);
                        self.ws1();
                        self.out.push_str(spec);
                        self.ws0();
                        self.out.push('>');
                    }
                    ADecl::Comment(s) => {
                        self.out.push_str("<!--");
                        self.out.push_str(s);
                        self.out.push_str("-->");
                    }
                    ADecl::PI(t, d) => {
                        let _ = self.misc(&ANode::PI(t.clone(), d.clone()));
                    }
                }
            }
            self.ws0();
            self.out.push(']');
            self.ws0();
        }
        self.out.push('>');
        ents.sort_by_key(|e| e["name"].as_str().unwrap_or("").to_string());
        nots.sort_by_key(|e| e["name"].as_str().unwrap_or("").to_string());
        json!({"k": "doctype", "name": dt.name, "ents": ents, "nots": nots})
    }
}

pub fn render(doc: &ADoc, choices: Vec<u16>, line_end_variants: bool) -> Rendered {
    let sem = Semantics::of(doc);
    let mut c = Genes::new(choices);
    let mut r = R { c: &mut c, sem: &sem, out: String::new(), labels: vec![], line_end_variants };
    let mut kids: Vec<Json> = vec![];
    if let Some(d) = &doc.decl {
        r.out.push_str("<?xml");
        r.ws1();
        r.out.push_str("version");
        r.eq();
        r.quoted_plain(&d.version);
        if let Some(e) = &d.encoding {
            r.ws1();
            r.out.push_str("encoding");
            r.eq();
            r.quoted_plain(e);
        }
        if let Some(s) = d.standalone {
            r.ws1();
            r.out.push_str("standalone");
            r.eq();
            r.quoted_plain(if s { "yes" } else { "no" });
        }
        r.ws0();
        r.out.push_str("?>");
        r.ws0();
    } else {
        // without an XML declaration white space may come first (prolog ::= XMLDecl? Misc*, and S is a Misc)
        let before = r.out.len();
        r.ws0();
        if r.out.len() > before {
            r.label("r:leading-ws-without-declaration");
        }
    }
    for m in &doc.pre {
        if let Some(j) = r.misc(m) {
            kids.push(j);
        }
        r.ws0();
    }
    if let Some(dt) = &doc.doctype {
        let j = r.doctype(dt);
        kids.push(j);
        r.ws0();
        for m in &doc.pre2 {
            if let Some(j) = r.misc(m) {
                kids.push(j);
            }
            r.ws0();
        }
    }
    let root = r.element(&doc.root, &vec![]);
    kids.push(root);
    for m in &doc.post {
        r.ws0();
        if let Some(j) = r.misc(m) {
            kids.push(j);
        }
    }
    r.ws0();
    let props = json!({
        "version": doc.decl.as_ref().map(|d| d.version.clone()),
        "encoding": doc.decl.as_ref().and_then(|d| d.encoding.clone()),
        "standalone": doc.decl.as_ref().and_then(|d| d.standalone),
        "doctype_pub": doc.doctype.as_ref().and_then(|d| d.external.as_ref()).and_then(|(p, _)| p.clone()),
        "doctype_sys": doc.doctype.as_ref().and_then(|d| d.external.as_ref()).map(|(_, s)| s.clone()),
    });
    let mut labels = r.labels.clone();
    labels.extend(doc_labels(doc));
    Rendered { text: r.out, raw: json!({"k": "doc", "kids": kids}), props, labels }
}

pub fn count_elements(e: &AElem) -> usize {
    1 + e.children.iter().map(|c| if let ANode::Elem(x) = c { count_elements(x) } else { 0 }).sum::<usize>()
}

fn elem_names(e: &AElem, out: &mut Vec<String>) {
    out.push(e.name.text());
    for c in &e.children {
        if let ANode::Elem(x) = c {
            elem_names(x, out);
        }
    }
}

fn walk_elems<'a>(e: &'a AElem, f: &mut dyn FnMut(&'a AElem)) {
    f(e);
    for c in &e.children {
        if let ANode::Elem(x) = c {
            walk_elems(x, f);
        }
    }
}

/// labels describing semantic features of the abstract document that known defects key on
pub fn doc_labels(doc: &ADoc) -> Vec<String> {
    let mut l: Vec<String> = vec![];
    let mut names = vec![];
    elem_names(&doc.root, &mut names);
    if let Some(dt) = &doc.doctype {
        if let Some(decls) = &dt.decls {
            let mut per_elem: BTreeMap<String, usize> = BTreeMap::new();
            for d in decls {
                if let ADecl::AttList { elem, defs } = d {
                    *per_elem.entry(elem.clone()).or_insert(0) += 1;
                    for def in defs {
                        if let DefaultDecl::Value(p) | DefaultDecl::Fixed(p) = &def.default {
                            if p.iter().any(|x| matches!(x, Piece::EntRef(n) if predefined(n).is_none())) {
                                l.push("default-with-entity-ref".into());
                            }
                        }
                    }
                }
            }
            if per_elem.iter().any(|(e, n)| *n > 1 && names.contains(e)) {
                l.push("multi-attlist-for-used-element".into());
            }
        }
    }
    let sem = Semantics::of(doc);
    let mut req = false;
    let mut ent_ws = false;
    walk_elems(&doc.root, &mut |e| {
        if let Some(defs) = sem.attdefs.get(&e.name.text()) {
            for d in defs {
                if d.default == DefaultDecl::Required && !e.attrs.iter().any(|a| a.name == d.name) {
                    req = true;
                }
            }
        }
        for a in &e.attrs {
            for p in &a.value {
                if let Piece::EntRef(n) = p {
                    let x = sem.expand_content(n);
                    if x.contains('\t') || x.contains('\n') || x.contains('\r') {
                        ent_ws = true;
                    }
                }
            }
        }
    });
    if req {
        l.push("required-attr-not-written".into());
    }
    if ent_ws {
        l.push("attr-entity-with-tab-lf-cr".into());
    }
    l.sort();
    l.dedup();
    l
}
