pub mod adoc;
pub mod genes;
pub mod hist;
pub mod mutate;
pub mod xgen;
