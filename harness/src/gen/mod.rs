pub mod adoc;
pub mod genes;
