//! Entry points for the coverage-guided fuzz targets in /verif/fuzz: bytes in, the property's own check inside.
//! A violation is reported by panicking (libFuzzer then saves the input); everything else returns.

use crate::engine::{Json, Obs, Property, Verdict};
use serde_json::json;

fn text_of(data: &[u8]) -> Option<&str> {
    if data.len() > 4096 {
        return None;
    }
    std::str::from_utf8(data).ok()
}

fn judge(p: &dyn Property, case: Json) {
    let mut obs = Obs::default();
    if let Verdict::Fail { key, detail } = p.check(&case, &mut obs) {
        // second opinion first (external parsers for C02), exactly as the generated tier does
        if p.confirm(&case, &key).is_ok() {
            panic!("VIOLATION property={} key={} {}", p.id(), key, detail.chars().take(600).collect::<String>());
        }
    }
}

/// the case a fuzz input denotes (also used to turn a saved artifact into a replay file)
pub fn case_for(target: &str, data: &[u8]) -> Option<Json> {
    let s = text_of(data)?;
    Some(match target {
        "c02_illformed" => json!({"parent": "", "text": s}),
        "c03_total" | "c04_roundtrip" => json!({"text": s}),
        "c06_xpath" => {
            let (expr, doc) = s.split_once('\n')?;
            json!({"doc": 0, "doc_text": doc, "expr": expr})
        }
        _ => return None,
    })
}

pub fn c02_illformed(data: &[u8]) {
    if let Some(c) = case_for("c02_illformed", data) {
        judge(&crate::props::c02::C02, c);
    }
}

/// parse, both views, print, pretty-print must return: a panic inside the library is the crash libFuzzer sees
pub fn c03_total(data: &[u8]) {
    if let Some(c) = case_for("c03_total", data) {
        judge(&crate::props::c03::C03, c);
    }
}

pub fn c04_roundtrip(data: &[u8]) {
    if let Some(c) = case_for("c04_roundtrip", data) {
        judge(&crate::props::c04::C04, c);
    }
}

pub fn c06_xpath(data: &[u8]) {
    if let Some(c) = case_for("c06_xpath", data) {
        // stack exhaustion by nesting is an open finding: keep such inputs out of the campaign
        let expr = c["expr"].as_str().unwrap_or("");
        let depth = expr.chars().filter(|ch| matches!(ch, '(' | '[')).count();
        if depth > 200 || expr.matches('-').count() > 200 {
            return;
        }
        if crate::props::c03::nesting_estimate(c["doc_text"].as_str().unwrap_or("")) > 200 {
            return;
        }
        judge(&crate::props::c06::C06, c);
    }
}

// ---------------------------------------------------------------------------------------------
// corpus seeding and artifact conversion (used by tools/fuzz.sh, not by any check)

fn genes(seed: &mut u64, n: usize) -> Vec<u16> {
    (0..n)
        .map(|_| {
            *seed = seed.wrapping_mul(6364136223846793005).wrapping_add(1442695040888963407);
            (*seed >> 40) as u16
        })
        .collect()
}

/// writes `n` seed inputs for `target` into `dir`, produced by the same generators the proptest tier uses
pub fn emit_corpus(target: &str, dir: &std::path::Path, n: usize) -> std::io::Result<usize> {
    std::fs::create_dir_all(dir)?;
    let mut seed = 0x5eed_u64 ^ (target.len() as u64) << 32;
    let mut written = 0;
    for i in 0..n {
        let text: Option<String> = match target {
            "c06_xpath" => {
                let c = crate::props::c05::make_case(genes(&mut seed, 120), genes(&mut seed, 60), genes(&mut seed, 20).iter().map(|g| *g as u8).collect(), crate::gen::xgen::Ty::NodeSet, 3);
                match (c["expr"].as_str(), c["doc"].as_str()) {
                    (Some(e), Some(d)) if !e.contains('\n') => Some(format!("{}\n{}", e, d)),
                    _ => None,
                }
            }
            "c02_illformed" if i % 2 == 1 => {
                let c = crate::props::c02::mutant_case(genes(&mut seed, 160), genes(&mut seed, 60), genes(&mut seed, 12), 16);
                c["text"].as_str().map(|s| s.to_string())
            }
            _ => {
                let cfg = crate::gen::adoc::DocCfg::full(16);
                let (doc, _) = crate::gen::adoc::build(genes(&mut seed, 160), &cfg);
                Some(crate::gen::adoc::render(&doc, genes(&mut seed, 60), false).text)
            }
        };
        if let Some(t) = text {
            if t.len() <= 2048 {
                std::fs::write(dir.join(format!("seed-{:04}", i)), t)?;
                written += 1;
            }
        }
    }
    Ok(written)
}

/// turns a saved libFuzzer artifact into a replay file for `./check <ID> --replay`
pub fn artifact_to_case(target: &str, artifact: &std::path::Path, out: &std::path::Path) -> Result<(), String> {
    let data = std::fs::read(artifact).map_err(|e| e.to_string())?;
    let case = case_for(target, &data).ok_or("the artifact does not denote a case (not UTF-8, too long, or no expression line)")?;
    let id = match target {
        "c02_illformed" => "C02",
        "c03_total" => "C03",
        "c04_roundtrip" => "C04",
        "c06_xpath" => "C06",
        _ => return Err("unknown target".into()),
    };
    let doc = json!({"property": id, "key": format!("fuzz.{}", target), "case": case});
    std::fs::write(out, serde_json::to_string_pretty(&doc).map_err(|e| e.to_string())?).map_err(|e| e.to_string())
}
