#!/usr/bin/env python3
"""Differential check of the vp-xref reference evaluator against libxml2.

Corpus: produced by `cargo run --release --example xgen -- DIR SEED NDOCS PER_DOC`.

Two back-ends, both the libxml2 that ships with /root/miniconda/bin/xmllint
(2.13.9):

  default   libxml2.so.2 loaded through ctypes: exact result type, exact IEEE
            double, node identity through node pointers (robust; any context
            node / position / size).
  --shell   `xmllint --shell doc.xml`, one process per document, commands on
            stdin (`setns`, `xpath EXPR`), output parsed.  Only for corpora
            generated with `xgen ... --shell` (context = root, one-line
            expressions).  Node-sets are compared by `count()` and by a
            node dump signature.

usage: xcheck.py DIR [--jobs N] [--shell] [--out mismatches.jsonl] [--quiet]
"""
import ctypes
import glob
import json
import multiprocessing
import os
import re
import struct
import subprocess
import sys

LIBXML = os.environ.get("LIBXML2_SO", "/root/miniconda/lib/libxml2.so.2")
XMLLINT = os.environ.get("XMLLINT", "/root/miniconda/bin/xmllint")

# --------------------------------------------------------------------------
# ctypes back-end

_lib = None
_err_cb = None
_xml_free = None


class XmlNode(ctypes.Structure):
    # common head of xmlNode / xmlAttr / xmlDoc
    _fields_ = [
        ("_private", ctypes.c_void_p),
        ("type", ctypes.c_int),
        ("name", ctypes.c_char_p),
        ("children", ctypes.c_void_p),
        ("last", ctypes.c_void_p),
        ("parent", ctypes.c_void_p),
        ("next", ctypes.c_void_p),
        ("prev", ctypes.c_void_p),
        ("doc", ctypes.c_void_p),
        # xmlNode only:
        ("ns", ctypes.c_void_p),
        ("content", ctypes.c_char_p),
        ("properties", ctypes.c_void_p),
        ("nsDef", ctypes.c_void_p),
    ]


class XmlNs(ctypes.Structure):
    _fields_ = [
        ("next", ctypes.c_void_p),
        ("type", ctypes.c_int),
        ("href", ctypes.c_char_p),
        ("prefix", ctypes.c_char_p),
        ("_private", ctypes.c_void_p),
        ("context", ctypes.c_void_p),
    ]


class XmlNodeSet(ctypes.Structure):
    _fields_ = [
        ("nodeNr", ctypes.c_int),
        ("nodeMax", ctypes.c_int),
        ("nodeTab", ctypes.POINTER(ctypes.c_void_p)),
    ]


class XmlXPathObject(ctypes.Structure):
    _fields_ = [
        ("type", ctypes.c_int),
        ("nodesetval", ctypes.POINTER(XmlNodeSet)),
        ("boolval", ctypes.c_int),
        ("floatval", ctypes.c_double),
        ("stringval", ctypes.c_char_p),
    ]


class XmlXPathContextHead(ctypes.Structure):
    _fields_ = [
        ("doc", ctypes.c_void_p),
        ("node", ctypes.c_void_p),
        ("nb_variables_unused", ctypes.c_int),
        ("max_variables_unused", ctypes.c_int),
        ("varHash", ctypes.c_void_p),
        ("nb_types", ctypes.c_int),
        ("max_types", ctypes.c_int),
        ("types", ctypes.c_void_p),
        ("nb_funcs_unused", ctypes.c_int),
        ("max_funcs_unused", ctypes.c_int),
        ("funcHash", ctypes.c_void_p),
        ("nb_axis", ctypes.c_int),
        ("max_axis", ctypes.c_int),
        ("axis", ctypes.c_void_p),
        ("namespaces", ctypes.c_void_p),
        ("nsNr", ctypes.c_int),
        ("user", ctypes.c_void_p),
        ("contextSize", ctypes.c_int),
        ("proximityPosition", ctypes.c_int),
    ]


def lib():
    global _lib, _err_cb, _xml_free
    if _lib is not None:
        return _lib
    L = ctypes.CDLL(LIBXML)
    L.xmlReadMemory.restype = ctypes.c_void_p
    L.xmlReadMemory.argtypes = [ctypes.c_char_p, ctypes.c_int, ctypes.c_char_p, ctypes.c_char_p, ctypes.c_int]
    L.xmlFreeDoc.argtypes = [ctypes.c_void_p]
    L.xmlXPathNewContext.restype = ctypes.POINTER(XmlXPathContextHead)
    L.xmlXPathNewContext.argtypes = [ctypes.c_void_p]
    L.xmlXPathFreeContext.argtypes = [ctypes.POINTER(XmlXPathContextHead)]
    L.xmlXPathRegisterNs.argtypes = [ctypes.POINTER(XmlXPathContextHead), ctypes.c_char_p, ctypes.c_char_p]
    L.xmlXPathEvalExpression.restype = ctypes.POINTER(XmlXPathObject)
    L.xmlXPathEvalExpression.argtypes = [ctypes.c_char_p, ctypes.POINTER(XmlXPathContextHead)]
    L.xmlXPathFreeObject.argtypes = [ctypes.POINTER(XmlXPathObject)]
    L.xmlNodeGetContent.restype = ctypes.c_void_p
    L.xmlNodeGetContent.argtypes = [ctypes.c_void_p]
    L.xmlXPathCastNumberToString.restype = ctypes.c_void_p
    L.xmlXPathCastNumberToString.argtypes = [ctypes.c_double]
    L.xmlXPathCastStringToNumber.restype = ctypes.c_double
    L.xmlXPathCastStringToNumber.argtypes = [ctypes.c_char_p]
    cb_t = ctypes.CFUNCTYPE(None, ctypes.c_void_p, ctypes.c_void_p)
    _err_cb = cb_t(lambda ctx, err: None)
    L.xmlSetStructuredErrorFunc.argtypes = [ctypes.c_void_p, cb_t]
    L.xmlSetStructuredErrorFunc(None, _err_cb)
    free_t = ctypes.CFUNCTYPE(None, ctypes.c_void_p)
    _xml_free = free_t(ctypes.c_void_p.in_dll(L, "xmlFree").value)
    _lib = L
    return L


KIND = {9: "root", 1: "elem", 2: "attr", 3: "text", 8: "comment", 7: "pi", 4: "text"}


def node_at(ptr):
    return XmlNode.from_address(ptr)


def content_of(ptr):
    L = lib()
    p = L.xmlNodeGetContent(ptr)
    if not p:
        return ""
    s = ctypes.string_at(p).decode("utf-8")
    _xml_free(p)
    return s


def index_doc(docptr):
    """document-order numbering of all non-namespace nodes: ptr -> index, and a description list"""
    index = {}
    desc = []

    def qname(n):
        name = (n.name or b"").decode("utf-8")
        uri = ""
        if n.ns:
            ns = XmlNs.from_address(n.ns)
            uri = (ns.href or b"").decode("utf-8")
            if ns.prefix:
                name = ns.prefix.decode("utf-8") + ":" + name
        return name, uri

    def walk(ptr):
        n = node_at(ptr)
        index[ptr] = len(desc)
        k = KIND.get(n.type, "other%d" % n.type)
        if k == "root":
            desc.append([k, "", "", ""])
        elif k == "elem":
            nm, uri = qname(n)
            desc.append([k, nm, uri, ""])
            a = n.properties
            while a:
                an = node_at(a)
                index[a] = len(desc)
                # xmlAttr: the field after `doc` is `ns` as well
                nm, uri = qname(an)
                desc.append(["attr", nm, uri, content_of(a)])
                a = an.next
        elif k == "pi":
            desc.append([k, (n.name or b"").decode("utf-8"), "", (n.content or b"").decode("utf-8")])
        else:
            desc.append([k, "", "", (n.content or b"").decode("utf-8")])
        if k in ("root", "elem"):
            c = n.children
            while c:
                walk(c)
                c = node_at(c).next

    walk(docptr)
    return index, desc


def f64_bits(x):
    return struct.unpack(">Q", struct.pack(">d", x))[0]


def bits_f64(h):
    return struct.unpack(">d", struct.pack(">Q", int(h, 16)))[0]


def same_double(a, b):
    return f64_bits(a) == f64_bits(b) or (a != a and b != b)


_NUM_RE = re.compile(r"^[ \t\r\n]*(-?)([0-9]+(\.[0-9]*)?|\.[0-9]+)[ \t\r\n]*$")


def py_string_to_number(st):
    """number(string) per XPath 1.0 section 4.4, with Python's correctly rounded float()"""
    m = _NUM_RE.match(st)
    if not m:
        return float("nan")
    body = m.group(2)
    if body.startswith("."):
        body = "0" + body
    if body.endswith("."):
        body = body + "0"
    v = float(body)
    return -v if m.group(1) else v


def py_number_to_string(x):
    """string(number) per XPath 1.0 section 4.2, from Python's shortest round-trip repr"""
    import decimal

    if x != x:
        return "NaN"
    if x in (float("inf"), float("-inf")):
        return "Infinity" if x > 0 else "-Infinity"
    if x == 0:
        return "0"
    st = format(decimal.Decimal(repr(x)), "f")
    if "." in st:
        st = st.rstrip("0").rstrip(".")
    return st


def sanity(case):
    """independent re-computation (in Python) of the scalar conversions the
    reference performed; returns a category name if the reference is wrong"""
    for h, refstr in case.get("n2s", []):
        x = bits_f64(h)
        py = py_number_to_string(x)
        if py != refstr:
            # several shortest digit strings can identify the same double
            # (e.g. 2^50+0.25 -> ...624.2 / ...624.3); accept any of them
            if not (len(py) == len(refstr) and x == x and abs(x) != float("inf") and float(refstr) == x):
                return "REFERENCE-BUG number_to_string(%s) = %r" % (h, refstr)
    for st, h in case.get("s2n", []):
        if not same_double(py_string_to_number(st), bits_f64(h)):
            return "REFERENCE-BUG string_to_number(%r)" % st
    for tok, h in case.get("lit", []):
        if not same_double(py_string_to_number(tok), bits_f64(h)):
            return "REFERENCE-BUG literal %r" % tok
    for hi, ho in case.get("rnd", []):
        if f64_bits(py_round(bits_f64(hi))) != int(ho, 16) and bits_f64(hi) == bits_f64(hi):
            return "REFERENCE-BUG round(%s)" % hi
    return None


def py_round(x):
    """round() per XPath 1.0 section 4.4, computed exactly with fractions"""
    import fractions
    import math

    if x != x or x in (float("inf"), float("-inf")) or x == 0:
        return x
    f = fractions.Fraction(x)
    r = math.floor(f + fractions.Fraction(1, 2))  # nearest, ties towards +infinity
    if r == 0 and x < 0:
        return -0.0
    return float(r)


def explain(case, spec, ctx):
    """Which known libxml2 deviations are *demonstrably* involved in this case?
    Scalar deviations are verified on the exact values the reference
    evaluation converted (libxml2 is asked to convert the same value)."""
    L = lib()
    tags = []
    for h, refstr in case.get("n2s", []):
        p = L.xmlXPathCastNumberToString(bits_f64(h))
        got = ctypes.string_at(p).decode("utf-8") if p else None
        if p:
            _xml_free(p)
        if got != refstr:
            tags.append("number-format")
            break
    for st, h in case.get("s2n", []):
        if "\0" in st:
            continue
        got = L.xmlXPathCastStringToNumber(st.encode("utf-8"))
        ref = bits_f64(h)
        if not same_double(got, ref):
            tags.append("string-to-number(exponent)" if ref != ref else "string-to-number(precision)")
            break
    for tok, h in case.get("lit", []):
        obj = L.xmlXPathEvalExpression(tok.encode("utf-8"), ctx)
        if obj:
            got = obj.contents.floatval
            L.xmlXPathFreeObject(obj)
            if not same_double(got, bits_f64(h)):
                tags.append("number-literal(precision)")
                break
    import math

    for hi, ho in case.get("rnd", []):
        x = bits_f64(hi)
        if x == x and abs(x) < 2.0**52 and x != 0 and not same_double(float(math.floor(x + 0.5)), bits_f64(ho)):
            if not (math.floor(x + 0.5) == 0 and bits_f64(ho) == 0):
                tags.append("round-as-floor(x+0.5)")
                break
    flags = set(case.get("flags", []))
    df = set(spec.get("docflags", []))
    if "ns-order-dependent" in flags:
        tags.append("namespace-node-order(implementation-dependent)")
    if "ns-order-used" in flags:
        tags.append("namespace-nodes-document-order")
    if "nsaxis-prefixed-test" in flags:
        tags.append("namespace-axis-prefixed-test")
    if "nsaxis" in flags and "undeclared-default" in df:
        tags.append("namespace-axis-xmlns-empty")
    if "preceding" in flags and "misc-after-root" in df:
        tags.append("preceding-after-document-element")
    if "following-from-attr-or-ns" in flags:
        tags.append("following-from-attribute")
    if "lang-on-namespace-node" in flags:
        tags.append("lang-on-namespace-node")
    return tags


def compare_case(L, ctx, index, by_index, case):
    """evaluates one case with libxml2 (C API); returns (category or None, libxml2 value)"""
    ctx.contents.node = by_index[case["c"]]
    ctx.contents.contextSize = case["s"]
    ctx.contents.proximityPosition = case["p"]
    obj = L.xmlXPathEvalExpression(case["e"].encode("utf-8"), ctx)
    t, v = case["t"], case["v"]
    got_t, got_v = None, None
    if not obj:
        got_t = "err"
    else:
        o = obj.contents
        if o.type == 1:
            got_t = "ns"
            got_v = []
            if o.nodesetval:
                s = o.nodesetval.contents
                for i in range(s.nodeNr):
                    ptr = s.nodeTab[i]
                    if node_at(ptr).type == 18:
                        ns = XmlNs.from_address(ptr)
                        got_v.append([index.get(ns.next, -1), (ns.prefix or b"").decode("utf-8")])
                    else:
                        got_v.append(index.get(ptr, -1))
        elif o.type == 2:
            got_t, got_v = "bool", bool(o.boolval)
        elif o.type == 3:
            got_t, got_v = "num", o.floatval
        elif o.type == 4:
            got_t, got_v = "str", (o.stringval or b"").decode("utf-8", "replace")
        else:
            got_t = "type%d" % o.type
        L.xmlXPathFreeObject(obj)
    cat = None
    if t != got_t:
        if t == "err":
            cat = "ref-error(%s)-lx-%s" % (v, got_t)
        elif got_t == "err":
            cat = "lx-error-ref-%s" % t
        else:
            cat = "type-%s-vs-%s" % (t, got_t)
    elif t == "ns":
        key = lambda x: (x, "") if isinstance(x, int) else (x[0], "\0" + x[1])
        if sorted(map(key, v)) != sorted(map(key, got_v)):
            cat = "nodeset"
        elif list(map(key, v)) != list(map(key, got_v)):
            cat = "nodeset-order"
    elif t == "num":
        rb = int(v, 16)
        gb = f64_bits(got_v)
        ref = struct.unpack(">d", struct.pack(">Q", rb))[0]
        if rb != gb:
            if ref != ref and got_v != got_v:
                pass  # NaN payload / sign is not observable
            elif ref == 0.0 and got_v == 0.0:
                cat = "num-zero-sign"
            else:
                cat = "num"
        got_v = repr(got_v)
    elif t in ("str", "bool"):
        if v != got_v:
            cat = t
    if cat == "nodeset-order":
        # same set, different order of the returned array: not observable in
        # XPath itself (a node-set is unordered); libxml2 does not fully sort
        # sets that contain namespace nodes
        has_ns = any(not isinstance(x, int) for x in v)
        cat = "array-order-only(%s)" % ("with namespace nodes" if has_ns else "NO namespace nodes")
    return cat, got_v


def run_doc_ctypes(path):
    L = lib()
    base = path[:-5]
    with open(path, encoding="utf-8") as f:
        spec = json.load(f)
    with open(base + ".xml", "rb") as f:
        xml = f.read()
    doc = L.xmlReadMemory(xml, len(xml), b"doc.xml", None, 0)
    mism = []
    if not doc:
        return 0, [{"doc": base, "cat": "parse-failure"}]
    index, desc = index_doc(doc)
    if desc != spec["nodes"]:
        L.xmlFreeDoc(doc)
        return 0, [{"doc": base, "cat": "tree-differs", "ref": spec["nodes"], "lx": desc}]
    by_index = {v: k for k, v in index.items()}
    ctx = L.xmlXPathNewContext(doc)
    assert ctx.contents.contextSize == -1 and ctx.contents.proximityPosition == -1, "struct layout?"
    for p, u in spec["ns"]:
        L.xmlXPathRegisterNs(ctx, p.encode(), u.encode())
    n = 0
    for case in spec["cases"]:
        n += 1
        cat, got_v = compare_case(L, ctx, index, by_index, case)
        bug = sanity(case)
        if bug:
            mism.append({"doc": base, "cat": bug, "case": case, "lx": None})
        if cat:
            tags = explain(case, spec, ctx)
            if cat.startswith("ref-error(Type:filter)"):
                tags.append("predicate-on-non-node-set")
            elif cat.startswith("ref-error("):
                # libxml2 skipped the erroneous sub-expression (lazy evaluation); listed for review
                tags.append("error-laziness(review)")
            if tags:
                cat = "explained[%s]: %s" % (",".join(tags), cat)
        if cat:
            mism.append({"doc": base, "cat": cat, "case": case, "lx": got_v})
    L.xmlXPathFreeContext(ctx)
    L.xmlFreeDoc(doc)
    return n, mism


# --------------------------------------------------------------------------
# xmllint --shell back-end


def debug_dump_string(st):
    """what xmllint's shell prints for a string value (xmlDebugDumpString):
    at most 40 bytes, blanks as ' ', bytes >= 0x80 as #XX, then '...'"""
    b = st.encode("utf-8")
    out = []
    for i in range(40):
        if i >= len(b):
            return "".join(out)
        c = b[i]
        if c in (0x20, 0x9, 0xA, 0xD):
            out.append(" ")
        elif c >= 0x80:
            out.append("#%X" % c)
        else:
            out.append(chr(c))
    return "".join(out) + "..."


_dummy = None


def dummy_ctx():
    """an XPath context on an empty document (for evaluating number literals)"""
    global _dummy
    if _dummy is None:
        L = lib()
        xml = b"<x/>"
        doc = L.xmlReadMemory(xml, len(xml), b"x.xml", None, 0)
        _dummy = L.xmlXPathNewContext(doc)
    return _dummy


def run_doc_shell(path):
    base = path[:-5]
    with open(path, encoding="utf-8") as f:
        spec = json.load(f)
    cmds = []
    for p, u in spec["ns"]:
        if p != "xml":
            cmds.append("setns %s=%s" % (p, u))
    marker = "@@MARK-%d@@"
    for i, case in enumerate(spec["cases"]):
        e = case["e"]
        assert "\n" not in e and "\r" not in e
        cmds.append("xpath '%s'" % (marker % i) if False else 'xpath "%s"' % (marker % i))
        t = case["t"]
        if t == "ns":
            cmds.append("xpath count(%s)" % e)
        elif t == "num":
            cmds.append("xpath string(%s)" % e)
            cmds.append('xpath "%s"' % "@@SEP@@")
            cmds.append("xpath %s" % e)
        else:
            cmds.append("xpath %s" % e)
    cmds.append('xpath "%s"' % (marker % len(spec["cases"])))
    cmds.append("quit")
    proc = subprocess.run(
        [XMLLINT, "--shell", base + ".xml"],
        input=("\n".join(cmds) + "\n").encode("utf-8"),
        stdout=subprocess.PIPE,
        stderr=subprocess.PIPE,
    )
    out = proc.stdout.decode("utf-8", "replace")
    # drop prompts ("/ > ")
    out = re.sub(r"(?m)^/ > ", "", out)
    out = out.replace("/ > ", "")
    mism = []
    n = 0
    api = None
    for i, case in enumerate(spec["cases"]):
        a = out.find("Object is a string : " + (marker % i) + "\n")
        b = out.find("Object is a string : " + (marker % (i + 1)) + "\n")
        if a < 0 or b < 0:
            mism.append({"doc": base, "cat": "shell-output-lost", "case": case})
            continue
        n += 1
        chunk = out[a + len("Object is a string : " + (marker % i) + "\n") : b]
        t, v = case["t"], case["v"]
        cat = None
        got = chunk
        lx_error = chunk.strip() == "" or "Object is empty (NULL)" in chunk
        if t == "err":
            if not lx_error:
                cat = "ref-error(%s)-lx-ok" % v
        elif lx_error:
            cat = "lx-error-ref-%s" % t
            if re.search(r"position|last", case["e"]):
                # the xmllint shell evaluates with context position = size = -1
                cat = "explained[shell has no context position/size]: " + cat
        elif t == "ns":
            m = re.fullmatch(r"Object is a number : (\S+)\n", chunk)
            if not m or float(m.group(1)) != len(v):
                cat = "nodeset-count"
        elif t == "bool":
            if chunk != "Object is a Boolean : %s\n" % ("true" if v else "false"):
                cat = "bool"
        elif t == "str":
            if chunk != "Object is a string : %s\n" % debug_dump_string(v):
                cat = "str"
        elif t == "num":
            parts = chunk.split("Object is a string : @@SEP@@\n")
            ref = struct.unpack(">d", struct.pack(">Q", int(v, 16)))[0]
            m = re.fullmatch(r"Object is a string : (.*)\n", parts[0])
            if len(parts) != 2 or not m or not parts[1].startswith("Object is a number : "):
                cat = "num-type"
            else:
                s = m.group(1)
                if s == case["d"]:
                    pass
                else:
                    # libxml2 prints at most 15 significant digits and switches to
                    # exponent notation for large / small magnitudes
                    try:
                        gv = float(s.replace("Infinity", "inf"))
                    except ValueError:
                        gv = None
                    if gv is None:
                        cat = "num"
                    elif ref != ref or gv != gv:
                        cat = None if (ref != ref and gv != gv) else "num"
                    elif gv == ref or abs(gv - ref) <= 1e-14 * abs(ref):
                        cat = "num-format"
                    else:
                        cat = "num"
        if cat and not cat.startswith("explained["):
            tags = explain(case, spec, dummy_ctx())
            if cat.startswith("ref-error(Type:filter)"):
                tags.append("predicate-on-non-node-set")
            if cat == "num-format":
                tags.append("number-format")
            if tags:
                cat = "explained[%s]: %s" % (",".join(tags), cat)
            else:
                # does the C API of the same library agree with the shell?
                if api is None:
                    L = lib()
                    with open(base + ".xml", "rb") as f:
                        xml = f.read()
                    doc = L.xmlReadMemory(xml, len(xml), b"doc.xml", None, 0)
                    index, _ = index_doc(doc)
                    actx = L.xmlXPathNewContext(doc)
                    for p, u in spec["ns"]:
                        L.xmlXPathRegisterNs(actx, p.encode(), u.encode())
                    api = (L, actx, index, {v: k for k, v in index.items()})
                acat, _ = compare_case(api[0], api[1], api[2], api[3], case)
                if acat is None or acat.startswith("array-order-only"):
                    cat = "explained[xmllint-shell-only; the C API agrees with the reference]: " + cat
        if cat:
            mism.append({"doc": base, "cat": cat, "case": case, "lx": got})
    return n, mism


# --------------------------------------------------------------------------


def main():
    args = sys.argv[1:]
    if not args:
        print(__doc__)
        sys.exit(2)
    d = args[0]
    jobs = 16
    out = None
    shell = "--shell" in args
    quiet = "--quiet" in args
    if "--jobs" in args:
        jobs = int(args[args.index("--jobs") + 1])
    if "--out" in args:
        out = args[args.index("--out") + 1]
    files = sorted(glob.glob(os.path.join(d, "doc_*.json")))
    worker = run_doc_shell if shell else run_doc_ctypes
    total = 0
    cats = {}
    examples = {}
    outf = open(out, "w", encoding="utf-8") if out else None
    with multiprocessing.Pool(jobs) as pool:
        for n, mism in pool.imap_unordered(worker, files, chunksize=4):
            total += n
            for m in mism:
                cats[m["cat"]] = cats.get(m["cat"], 0) + 1
                examples.setdefault(m["cat"], [])
                if len(examples[m["cat"]]) < 3:
                    examples[m["cat"]].append(m)
                if outf:
                    outf.write(json.dumps(m, ensure_ascii=False) + "\n")
    if outf:
        outf.close()
    print("documents: %d   cases compared: %d   disagreements: %d" % (len(files), total, sum(cats.values())))
    for c in sorted(cats, key=lambda c: -cats[c]):
        print("  %-40s %d" % (c, cats[c]))
        if not quiet:
            for m in examples[c]:
                if "case" in m:
                    cs = m["case"]
                    print("      %s ctx=%d pos=%d/%d" % (os.path.basename(m["doc"]), cs["c"], cs["p"], cs["s"]))
                    print("        expr: %r" % cs["e"])
                    print("        ref : %s %r" % (cs["t"], cs.get("d", cs["v"])))
                    print("        lx  : %r" % (m.get("lx"),))
                else:
                    print("      %s" % json.dumps(m)[:600])


if __name__ == "__main__":
    main()
