//! spell / parse round trips over random ASTs and random spelling choices.

use vp_xref::gen::{expr_ns, gen_tree, ExprGen, Rng, Ty};
use vp_xref::*;

fn random_choices(rng: &mut Rng) -> Choices {
    let density = [0u32, 5, 20, 50, 100][rng.below(5)];
    let n = 400;
    let bytes: Vec<u8> = (0..n)
        .map(|_| if rng.pct(density) { (rng.next_u64() & 0xff) as u8 } else { 0 })
        .collect();
    Choices::new(bytes).with_position_rewrite(rng.pct(50)).with_newline(rng.pct(50))
}

#[test]
fn spell_parse_roundtrip() {
    let g = ExprGen { error_pct: 3, ..ExprGen::default() };
    let nsb = expr_ns();
    let mut rng = Rng::new(0xC0FFEE);
    let mut evaluated = 0usize;
    for case in 0..30000 {
        let depth = 1 + rng.below(5) as u32;
        let e = g.gen(&mut rng, Ty::Any, depth);
        // canonical spelling: exact round trip, idempotent
        let min = spell_min(&e).unwrap();
        let back = parse(&min).unwrap_or_else(|m| panic!("case {}: parse {:?}: {}", case, min, m));
        assert_eq!(back, e, "case {}: {:?}", case, min);
        assert_eq!(spell_min(&back).unwrap(), min);
        // full spelling
        let full = spell_full(&e).unwrap();
        let back = parse(&full).unwrap_or_else(|m| panic!("case {}: parse {:?}: {}", case, full, m));
        assert_eq!(normalize(&back), normalize(&e), "case {}: {:?}", case, full);
        assert!(full.len() >= min.len());
        // random spellings
        for _ in 0..3 {
            let mut ch = random_choices(&mut rng);
            let rewrite = ch.allow_position_rewrite;
            let s = spell(&e, &mut ch).unwrap();
            let back = parse(&s).unwrap_or_else(|m| panic!("case {}: parse {:?}: {}", case, s, m));
            if rewrite {
                assert_eq!(normalize(&back), normalize(&e), "case {}: {:?} vs {:?}", case, s, min);
            } else {
                assert_eq!(back, e, "case {}: {:?} vs {:?}", case, s, min);
            }
            // the normal form is semantically transparent
            if case % 10 == 0 {
                let t = gen_tree(&mut rng);
                let env = Env::new(&t, &nsb);
                let ctx = rng.below(t.len());
                let r1 = eval(&e, &env, ctx, 1, 1);
                let r2 = eval(&normalize(&back), &env, ctx, 1, 1);
                match (&r1, &r2) {
                    (Ok(a), Ok(b)) => assert!(a.same(b), "case {}: {:?}", case, s),
                    (Err(_), Err(_)) => {}
                    _ => panic!("case {}: {:?}: {:?} vs {:?}", case, s, r1, r2),
                }
                evaluated += 1;
            }
        }
    }
    assert!(evaluated > 1000);
}

#[test]
fn canonical_spelling_examples() {
    let cases = [
        // (input, canonical)
        ("child::a/child::b", "a/b"),
        ("attribute::a", "@a"),
        ("self::node()", "."),
        ("parent::node()/child::a", "../a"),
        ("/descendant-or-self::node()/child::a", "//a"),
        ("child::a/descendant-or-self::node()/child::b", "a//b"),
        ("descendant-or-self::node()/child::a", "descendant-or-self::node()/a"),
        ("child::a/descendant-or-self::node()", "a/descendant-or-self::node()"),
        ("self::node()[1]", "self::node()[1]"),
        ("( 1 + 2 ) * 3", "(1+2)*3"),
        ("1 + ( 2 * 3 )", "1+2*3"),
        ("1 - ( 2 - 3 )", "1-(2-3)"),
        ("( 1 - 2 ) - 3", "1-2-3"),
        ("a - b", "a -b"),
        ("a - - b", "a --b"),
        ("- ( a | b )", "-a|b"),
        ("( - a ) | b", "(-a)|b"),
        ("-(1 + 2)", "-(1+2)"),
        ("- - 1", "--1"),
        ("(a or b) and c", "(a or b)and c"),
        ("a or b and c", "a or b and c"),
        ("a = b = c", "a=b=c"),
        ("a = (b = c)", "a=(b=c)"),
        ("a = (b < c)", "a=b<c"),
        ("(a = b) < c", "(a=b)<c"),
        ("6 div 3 mod 2", "6 div 3 mod 2"),
        ("6 div (3 mod 2)", "6 div(3 mod 2)"),
        ("(a | b)/c", "(a|b)/c"),
        ("(a)[1]", "(a)[1]"),
        ("(//a)[1]/b", "(//a)[1]/b"),
        ("(/) * 2", "(/)*2"),
        ("(/) div 2", "(/)div 2"),
        ("2 * /", "2*/"),
        ("/ = 2", "/=2"),
        ("/ | a", "/|a"),
        ("(/) and a", "(/)and a"),
        ("count(/) * 2", "count(/)*2"),
        ("* * *", "***"),
        ("a * b", "a*b"),
        ("div div div", "div div div"),
        ("'a' = \"b\"", "\"a\"=\"b\""),
        ("\"it's\"", "\"it's\""),
        ("'say \"x\"'", "'say \"x\"'"),
        ("01.50", "1.5"),
        (".5", "0.5"),
        ("5.", "5"),
        ("1000000000000000000000.0", "1000000000000000000000"),
        ("concat( 'a' , 1 , b )", "concat(\"a\",1,b)"),
        ("processing-instruction( 'x' )", "processing-instruction(\"x\")"),
        ("$v + 1", "$v+1"),
        ("$v - 1", "$v -1"),
        ("1 - $v", "1-$v"),
        ("p:* | @p:* | p:a", "p:*|@p:*|p:a"),
        ("f()/a", "f()/a"),
        ("f()[1]//a", "f()[1]//a"),
        ("'a'[1]", "\"a\"[1]"),
        ("ancestor-or-self::*[position() = last()]", "ancestor-or-self::*[position()=last()]"),
        (". div 2", ". div 2"),
        ("1 div .", "1 div ."),
        ("a div -1", "a div -1"),
    ];
    for (input, canon) in cases {
        let e = parse(input).unwrap_or_else(|m| panic!("parse {:?}: {}", input, m));
        assert_eq!(spell_min(&e).unwrap(), canon, "input {:?}", input);
        assert_eq!(parse(canon).unwrap(), e, "canonical {:?}", canon);
    }
    // unspellable
    assert!(spell_min(&Expr::lit("a'b\"c")).is_err());
    assert!(spell_min(&Expr::num(-1.0)).is_err());
    assert!(spell_min(&Expr::num(f64::NAN)).is_err());
    assert!(spell_min(&Expr::rel(vec![])).is_err());
    // spell_full
    assert_eq!(
        spell_full(&parse("a//@b[1] + 2 * -3").unwrap()).unwrap(),
        "(child::a/descendant-or-self::node()/attribute::b[1])+((2)*(-(3)))"
    );
    // position rewrite only when allowed
    let e = parse("a[2]").unwrap();
    assert_eq!(spell(&e, &mut Choices::new(vec![1; 50])).unwrap().replace(char::is_whitespace, ""), "(child::a[(2.0)])");
    let s = spell(&e, &mut Choices::new(vec![0, 0, 1]).with_position_rewrite(true)).unwrap();
    assert_eq!(s, "a[position()=2]");
}
