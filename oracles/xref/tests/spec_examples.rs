//! Worked examples from the XPath 1.0 recommendation and section-by-section checks.

use vp_xref::scalar::*;
use vp_xref::tree::from_xml;
use vp_xref::*;

fn ns() -> Vec<(String, String)> {
    vec![
        ("p".to_string(), "urn:x".to_string()),
        ("q".to_string(), "urn:y".to_string()),
        ("xml".to_string(), XML_NS.to_string()),
    ]
}

fn ev_at(t: &XTree, ctx: usize, src: &str) -> Result<Value, EvalError> {
    let e = parse(src).unwrap_or_else(|m| panic!("parse {:?}: {}", src, m));
    let nsb = ns();
    let env = Env::new(t, &nsb);
    eval(&e, &env, ctx, 1, 1)
}

fn ev(t: &XTree, src: &str) -> Value {
    ev_at(t, 0, src).unwrap_or_else(|e| panic!("eval {:?}: {:?}", src, e))
}

fn s(t: &XTree, src: &str) -> String {
    match ev(t, src) {
        Value::Str(s) => s,
        v => panic!("{:?}: expected string, got {:?}", src, v),
    }
}

fn n(t: &XTree, src: &str) -> f64 {
    match ev(t, src) {
        Value::Num(s) => s,
        v => panic!("{:?}: expected number, got {:?}", src, v),
    }
}

fn b(t: &XTree, src: &str) -> bool {
    match ev(t, src) {
        Value::Bool(s) => s,
        v => panic!("{:?}: expected boolean, got {:?}", src, v),
    }
}

/// the result as a list of `id` attribute values (or kind markers)
fn ids_at(t: &XTree, ctx: usize, src: &str) -> Vec<String> {
    match ev_at(t, ctx, src).unwrap_or_else(|e| panic!("eval {:?}: {:?}", src, e)) {
        Value::NodeSet(v) => v
            .iter()
            .map(|&i| {
                let node = &t.nodes[i];
                match node.kind {
                    Kind::Element => node
                        .attrs
                        .iter()
                        .find(|&&a| t.nodes[a].local == "id")
                        .map(|&a| t.nodes[a].value.clone())
                        .unwrap_or_else(|| format!("<{}>", t.name(i))),
                    Kind::Root => "/".to_string(),
                    Kind::Attribute => format!("@{}={}", t.name(i), node.value),
                    Kind::Namespace => format!("ns:{}={}", node.local, node.value),
                    Kind::Text => format!("text:{}", node.value),
                    Kind::Comment => format!("comment:{}", node.value),
                    Kind::PI => format!("pi:{}", node.local),
                }
            })
            .collect(),
        v => panic!("{:?}: expected node-set, got {:?}", src, v),
    }
}

fn ids(t: &XTree, src: &str) -> Vec<String> {
    ids_at(t, 0, src)
}

fn empty_doc() -> XTree {
    from_xml("<r/>").unwrap()
}

fn find_id(t: &XTree, id: &str) -> usize {
    (0..t.len())
        .find(|&i| {
            t.nodes[i].kind == Kind::Element
                && t.nodes[i].attrs.iter().any(|&a| t.nodes[a].local == "id" && t.nodes[a].value == id)
        })
        .unwrap()
}

const DOC: &str = r#"<doc id="doc"><chapter id="c1"><title id="t1">Introduction</title><para id="p1" type="warning">one</para><para id="p2">two</para><para id="p3" type="warning">three</para><para id="p4" type="warning">four</para><para id="p5" type="warning">five</para><para id="p6" type="warning">six</para><para id="p7">seven</para></chapter><chapter id="c2"><title id="t2">Second</title><section id="s1"><para id="p8">eight</para><olist id="o1"><item id="i1">a</item><item id="i2">b</item></olist></section><para id="p9" type="warning">nine</para></chapter><appendix id="a1"><para id="p10">ten</para></appendix><chapter id="c3"/><chapter id="c4"/><chapter id="c5"><title id="t5">Fifth</title><div id="d1"><para id="p11">eleven</para></div></chapter></doc>"#;

#[test]
fn section_2_location_path_examples() {
    let t = from_xml(DOC).unwrap();
    t.check_invariants().unwrap();
    let c1 = find_id(&t, "c1");
    let doc = find_id(&t, "doc");
    // child::para selects the para element children of the context node
    assert_eq!(ids_at(&t, c1, "child::para"), ["p1", "p2", "p3", "p4", "p5", "p6", "p7"]);
    assert_eq!(ids_at(&t, c1, "child::*").len(), 8);
    assert_eq!(ids_at(&t, find_id(&t, "p1"), "child::text()"), ["text:one"]);
    assert_eq!(ids_at(&t, c1, "child::node()").len(), 8);
    assert_eq!(ids_at(&t, find_id(&t, "p1"), "attribute::type"), ["@type=warning"]);
    assert_eq!(ids_at(&t, find_id(&t, "p1"), "attribute::*"), ["@id=p1", "@type=warning"]);
    assert_eq!(
        ids_at(&t, doc, "descendant::para"),
        ["p1", "p2", "p3", "p4", "p5", "p6", "p7", "p8", "p9", "p10", "p11"]
    );
    assert_eq!(ids_at(&t, find_id(&t, "i1"), "ancestor::section"), ["s1"]);
    assert_eq!(ids_at(&t, find_id(&t, "s1"), "ancestor-or-self::section"), ["s1"]);
    assert_eq!(ids_at(&t, find_id(&t, "p8"), "descendant-or-self::para"), ["p8"]);
    assert_eq!(ids_at(&t, find_id(&t, "p8"), "self::para"), ["p8"]);
    assert!(ids_at(&t, find_id(&t, "s1"), "self::para").is_empty());
    assert_eq!(ids_at(&t, doc, "child::chapter/descendant::para").len(), 10);
    assert_eq!(ids_at(&t, doc, "child::*/child::para").len(), 9);
    assert_eq!(ids(&t, "/"), ["/"]);
    assert_eq!(ids_at(&t, c1, "/descendant::para").len(), 11);
    assert_eq!(ids(&t, "/descendant::olist/child::item"), ["i1", "i2"]);
    assert_eq!(ids_at(&t, c1, "child::para[position()=1]"), ["p1"]);
    assert_eq!(ids_at(&t, c1, "child::para[position()=last()]"), ["p7"]);
    assert_eq!(ids_at(&t, c1, "child::para[position()=last()-1]"), ["p6"]);
    assert_eq!(ids_at(&t, c1, "child::para[position()>1]"), ["p2", "p3", "p4", "p5", "p6", "p7"]);
    assert_eq!(ids_at(&t, c1, "following-sibling::chapter[position()=1]"), ["c2"]);
    assert_eq!(ids_at(&t, find_id(&t, "c3"), "preceding-sibling::chapter[position()=1]"), ["c2"]);
    assert_eq!(ids(&t, "/descendant::para[position()=4]"), ["p4"]);
    assert!(ids(&t, "/descendant::figure[position()=42]").is_empty());
    assert_eq!(ids(&t, "/child::doc/child::chapter[position()=5]/child::div[position()=1]"), ["d1"]);
    assert_eq!(ids_at(&t, c1, r#"child::para[attribute::type="warning"]"#), ["p1", "p3", "p4", "p5", "p6"]);
    assert_eq!(ids_at(&t, c1, r#"child::para[attribute::type='warning'][position()=5]"#), ["p6"]);
    assert_eq!(ids_at(&t, c1, r#"child::para[position()=5][attribute::type="warning"]"#), ["p5"]);
    assert_eq!(ids_at(&t, doc, r#"child::chapter[child::title='Introduction']"#), ["c1"]);
    assert_eq!(ids_at(&t, doc, "child::chapter[child::title]"), ["c1", "c2", "c5"]);
    assert_eq!(ids_at(&t, doc, "child::*[self::chapter or self::appendix]").len(), 6);
    assert_eq!(
        ids_at(&t, doc, "child::*[self::chapter or self::appendix][position()=last()]"),
        ["c5"]
    );
    // abbreviated syntax (2.5)
    assert_eq!(ids_at(&t, c1, "para[1]"), ["p1"]);
    assert_eq!(ids_at(&t, c1, "para[last()]"), ["p7"]);
    assert_eq!(ids_at(&t, doc, "*/para").len(), 9);
    assert_eq!(ids(&t, "/doc/chapter[5]/div[1]"), ["d1"]);
    assert_eq!(ids_at(&t, doc, "chapter//para").len(), 10);
    assert_eq!(ids_at(&t, c1, "//para").len(), 11);
    assert_eq!(ids(&t, "//olist/item"), ["i1", "i2"]);
    assert_eq!(ids_at(&t, c1, "."), ["c1"]);
    assert_eq!(ids_at(&t, c1, ".//para").len(), 7);
    assert_eq!(ids_at(&t, c1, ".."), ["doc"]);
    assert_eq!(ids_at(&t, find_id(&t, "t1"), "../@id"), ["@id=c1"]);
    assert_eq!(ids_at(&t, c1, r#"para[@type="warning"]"#).len(), 5);
    assert_eq!(ids_at(&t, c1, r#"para[@type="warning"][5]"#), ["p6"]);
    assert_eq!(ids_at(&t, c1, r#"para[5][@type="warning"]"#), ["p5"]);
    assert_eq!(ids_at(&t, doc, r#"chapter[title="Introduction"]"#), ["c1"]);
    assert_eq!(ids_at(&t, doc, "chapter[title]"), ["c1", "c2", "c5"]);
    // //para[1] is not (//para)[1]
    assert_eq!(ids(&t, "//para[1]"), ["p1", "p8", "p9", "p10", "p11"]);
    assert_eq!(ids(&t, "(//para)[1]"), ["p1"]);
    assert_eq!(ids(&t, "/descendant::para[1]"), ["p1"]);
    // reverse axes: proximity positions in reverse document order (2.4)
    assert_eq!(ids_at(&t, find_id(&t, "i2"), "ancestor::*[1]"), ["o1"]);
    assert_eq!(ids_at(&t, find_id(&t, "i2"), "ancestor::*[last()]"), ["doc"]);
    assert_eq!(ids_at(&t, find_id(&t, "i2"), "ancestor-or-self::*[2]"), ["o1"]);
    assert_eq!(ids_at(&t, find_id(&t, "p4"), "preceding-sibling::*[1]"), ["p3"]);
    assert_eq!(ids_at(&t, find_id(&t, "p4"), "preceding-sibling::para[last()]"), ["p1"]);
    assert_eq!(ids_at(&t, find_id(&t, "p8"), "preceding::*[1]"), ["t2"]);
    assert_eq!(ids_at(&t, find_id(&t, "p8"), "preceding::para[2]"), ["p6"]);
    // ... but a filter expression counts in document order (3.3)
    assert_eq!(ids_at(&t, find_id(&t, "p4"), "(preceding-sibling::*)[1]"), ["t1"]);
    assert_eq!(ids_at(&t, find_id(&t, "i2"), "(ancestor::*)[1]"), ["doc"]);
    // following / preceding exclude descendants / ancestors
    assert_eq!(ids_at(&t, find_id(&t, "s1"), "following::*"), ["p9", "a1", "p10", "c3", "c4", "c5", "t5", "d1", "p11"]);
    assert_eq!(ids_at(&t, find_id(&t, "s1"), "preceding::*").len(), 10);
    // from an attribute node: the element's content follows the attribute
    assert_eq!(ids_at(&t, find_id(&t, "o1"), "@id/following::*[1]"), ["i1"]);
    assert_eq!(ids_at(&t, find_id(&t, "o1"), "@id/preceding::*[1]"), ["p8"]);
    assert!(ids_at(&t, find_id(&t, "o1"), "@id/following-sibling::node()").is_empty());
    assert_eq!(ids_at(&t, find_id(&t, "o1"), "@id/.."), ["o1"]);
    assert_eq!(ids_at(&t, find_id(&t, "o1"), "@id/ancestor::*[1]"), ["o1"]);
}

#[test]
fn section_3_expressions() {
    let t = from_xml(DOC).unwrap();
    // booleans 3.4
    assert!(b(&t, "1 = 1"));
    assert!(b(&t, "'a' = 'a'"));
    assert!(b(&t, "true() = 1"));
    assert!(b(&t, "true() = 'x'"));
    assert!(b(&t, "false() = ''"));
    assert!(b(&t, "1 = '1.0'"));
    assert!(!b(&t, "'1' = '1.0'"));
    assert!(b(&t, "'a' < 'b' = false()")); // NaN < NaN is false; (false) = false()
    assert!(b(&t, "3 > 2 > 1 = false()")); // (3>2)>1 -> 1>1 false; = is lower priority: 3 > 2 > 1 = false() parses as (3>2>1) = false()
    assert!(b(&t, "//para = 'one'"));
    assert!(b(&t, "//para != 'one'"));
    assert!(!b(&t, "//figure = //figure"));
    assert!(!b(&t, "//figure != 'x'"));
    assert!(b(&t, "not(//figure = 'x')"));
    assert!(b(&t, "//figure = false()"));
    assert!(b(&t, "//para = true()"));
    assert!(b(&t, "//para/@id = //item/../@id or true()"));
    assert!(b(&t, "0 div 0 != 0 div 0"));
    assert!(!b(&t, "0 div 0 = 0 div 0"));
    // numbers 3.5
    assert_eq!(n(&t, "5 mod 2"), 1.0);
    assert_eq!(n(&t, "5 mod -2"), 1.0);
    assert_eq!(n(&t, "-5 mod 2"), -1.0);
    assert_eq!(n(&t, "-5 mod -2"), -1.0);
    assert_eq!(n(&t, "5.5 mod 2"), 1.5);
    assert!(n(&t, "5 mod 0").is_nan());
    assert_eq!(n(&t, "1 div 0"), f64::INFINITY);
    assert_eq!(n(&t, "-1 div 0"), f64::NEG_INFINITY);
    assert_eq!(n(&t, "1 div -0"), f64::NEG_INFINITY);
    assert_eq!(n(&t, "7 - 2 - 1"), 4.0);
    assert_eq!(n(&t, "2 + 3 * 4"), 14.0);
    assert_eq!(n(&t, "8 div 2 div 2"), 2.0);
    assert_eq!(n(&t, "- - 3"), 3.0);
    assert_eq!(n(&t, "-'3'"), -3.0);
    assert!(n(&t, "'a' + 1").is_nan());
    // lexical structure 3.7
    let t2 = from_xml(r#"<div id="r"><div id="d">4</div><mod id="m">2</mod><and id="a"/><or id="o"/></div>"#).unwrap();
    let r = find_id(&t2, "r");
    let nv = |src: &str| match ev_at(&t2, r, src).unwrap() {
        Value::Num(x) => x,
        v => panic!("{:?}", v),
    };
    assert_eq!(nv("div div mod"), 2.0);
    assert_eq!(nv("div mod mod"), 0.0);
    assert_eq!(nv("div*mod"), 8.0);
    assert_eq!(nv("count(*)*2"), 8.0);
    assert_eq!(nv("count(* [2])*2"), 2.0);
    assert_eq!(ids_at(&t2, r, "and | or"), ["a", "o"]);
    assert_eq!(ev_at(&t2, r, "and and or").unwrap(), Value::Bool(true));
    assert_eq!(ev_at(&t2, r, "and or or").unwrap(), Value::Bool(true));
    assert_eq!(ev_at(&t2, r, "* and *").unwrap(), Value::Bool(true));
    assert_eq!(nv("div -1"), 3.0);
    // "div-1" is a name
    assert_eq!(ids_at(&t2, r, "div-1"), Vec::<String>::new());
    assert!(parse("a b").is_err());
    assert!(parse("/ * 2").is_err());
    assert!(parse("(/) * 2").is_ok());
    assert!(parse("1 +").is_err());
    assert!(parse("a[").is_err());
    assert!(parse("a/").is_err());
    assert!(parse("//").is_err());
    assert!(parse("a//").is_err());
    assert!(parse(".[1]").is_err());
    assert!(parse("'abc").is_err());
    assert!(parse("foo::a").is_err());
    assert!(parse("1e3").is_err());
    assert!(parse("$x").is_ok());
    assert!(parse("$ x").is_err());
    assert!(parse("p :a").is_err());
    assert!(parse("processing-instruction('x')").is_ok());
    assert!(parse("text('x')").is_err());
    assert!(parse("node ( )").is_ok());
    assert!(parse("child :: a").is_ok());
    assert!(parse("count (a)").is_ok());
    // errors
    assert!(matches!(ev_at(&t, 0, "$x"), Err(EvalError::Variable(_))));
    assert!(matches!(ev_at(&t, 0, "foo()"), Err(EvalError::UnknownFunction(_))));
    assert!(matches!(ev_at(&t, 0, "count()"), Err(EvalError::Arity(_))));
    assert!(matches!(ev_at(&t, 0, "count(1)"), Err(EvalError::Type(_))));
    assert!(matches!(ev_at(&t, 0, "1 | 2"), Err(EvalError::Type(_))));
    assert!(matches!(ev_at(&t, 0, "(1)[1]"), Err(EvalError::Type(_))));
    assert!(matches!(ev_at(&t, 0, "'a'/b"), Err(EvalError::Type(_))));
    assert!(matches!(ev_at(&t, 0, "/doc/zz:a"), Err(EvalError::UnboundPrefix(_))));
    assert!(matches!(ev_at(&t, 0, "id('x')"), Err(EvalError::Unsupported(_))));
    assert!(matches!(ev_at(&t, 0, "concat('a')"), Err(EvalError::Arity(_))));
    // short circuit
    assert_eq!(ev_at(&t, 0, "true() or foo()").unwrap(), Value::Bool(true));
    assert_eq!(ev_at(&t, 0, "false() and $x").unwrap(), Value::Bool(false));
    assert!(ev_at(&t, 0, "false() or foo()").is_err());
    assert!(static_check(&parse("true() or foo()").unwrap(), &ns()).is_err());
    // empty node-set: predicate never evaluated
    assert_eq!(ev_at(&t, 0, "count(//figure[foo()])").unwrap(), Value::Num(0.0));
}

#[test]
fn section_4_function_examples() {
    let t = empty_doc();
    assert_eq!(s(&t, r#"substring("12345", 1.5, 2.6)"#), "234");
    assert_eq!(s(&t, r#"substring("12345", 0, 3)"#), "12");
    assert_eq!(s(&t, r#"substring("12345", 0 div 0, 3)"#), "");
    assert_eq!(s(&t, r#"substring("12345", 1, 0 div 0)"#), "");
    assert_eq!(s(&t, r#"substring("12345", -42, 1 div 0)"#), "12345");
    assert_eq!(s(&t, r#"substring("12345", -1 div 0, 1 div 0)"#), "");
    assert_eq!(s(&t, r#"substring("12345", 2, 3)"#), "234");
    assert_eq!(s(&t, r#"substring("12345", 2)"#), "2345");
    assert_eq!(s(&t, r#"substring("12345", 1 div 0)"#), "");
    assert_eq!(s(&t, r#"substring("12345", -1 div 0)"#), "12345");
    assert_eq!(s(&t, r#"substring("12345", 0.5)"#), "12345");
    assert_eq!(s(&t, r#"substring("12345", 1.5)"#), "2345");
    assert_eq!(s(&t, r#"substring("12345", 2, -1)"#), "");
    assert_eq!(s(&t, "substring('a\u{e9}\u{1F600}z', 2, 2)"), "\u{e9}\u{1F600}");
    assert_eq!(s(&t, r#"translate("bar","abc","ABC")"#), "BAr");
    assert_eq!(s(&t, r#"translate("--aaa--","abc-","ABC")"#), "AAA");
    assert_eq!(s(&t, r#"translate("aba","aa","xy")"#), "xbx");
    assert_eq!(s(&t, r#"substring-before("1999/04/01","/")"#), "1999");
    assert_eq!(s(&t, r#"substring-after("1999/04/01","/")"#), "04/01");
    assert_eq!(s(&t, r#"substring-after("1999/04/01","19")"#), "99/04/01");
    assert_eq!(s(&t, r#"substring-before("abc","")"#), "");
    assert_eq!(s(&t, r#"substring-after("abc","")"#), "abc");
    assert_eq!(s(&t, r#"substring-after("abc","x")"#), "");
    assert!(b(&t, r#"starts-with("abc","")"#));
    assert!(b(&t, r#"contains("abc","")"#));
    assert!(b(&t, r#"contains("abc","bc")"#));
    assert!(!b(&t, r#"starts-with("abc","bc")"#));
    assert_eq!(s(&t, "concat('a', 1, true())"), "a1true");
    assert_eq!(n(&t, "string-length('a\u{1F600}')"), 2.0);
    assert_eq!(s(&t, "normalize-space('  a \t\n b  ')"), "a b");
    assert_eq!(s(&t, "normalize-space('\u{a0}a\u{a0}')"), "\u{a0}a\u{a0}");
    // boolean()
    assert!(b(&t, "boolean(1)"));
    assert!(!b(&t, "boolean(0)"));
    assert!(!b(&t, "boolean(-0)"));
    assert!(!b(&t, "boolean(0 div 0)"));
    assert!(b(&t, "boolean(1 div 0)"));
    assert!(b(&t, "boolean('false')"));
    assert!(!b(&t, "boolean('')"));
    assert!(b(&t, "boolean(/)"));
    assert!(!b(&t, "boolean(/x)"));
    // string(number)
    assert_eq!(s(&t, "string(0 div 0)"), "NaN");
    assert_eq!(s(&t, "string(1 div 0)"), "Infinity");
    assert_eq!(s(&t, "string(-1 div 0)"), "-Infinity");
    assert_eq!(s(&t, "string(-0)"), "0");
    assert_eq!(s(&t, "string(0)"), "0");
    assert_eq!(s(&t, "string(12)"), "12");
    assert_eq!(s(&t, "string(-12.50)"), "-12.5");
    assert_eq!(s(&t, "string(0.5)"), "0.5");
    assert_eq!(s(&t, "string(1 div 3)"), "0.3333333333333333");
    assert_eq!(s(&t, "string(1000000000000000000000)"), "1000000000000000000000");
    assert_eq!(s(&t, "string(0.0000001)"), "0.0000001");
    assert_eq!(s(&t, "string(1 div 3000000000)"), "0.0000000003333333333333333");
    assert_eq!(s(&t, "string(true())"), "true");
    // number()
    assert_eq!(n(&t, "number(' 12.5 ')"), 12.5);
    assert_eq!(n(&t, "number('-.5')"), -0.5);
    assert_eq!(n(&t, "number('5.')"), 5.0);
    assert!(n(&t, "number('+1')").is_nan());
    assert!(n(&t, "number('1e3')").is_nan());
    assert!(n(&t, "number('Infinity')").is_nan());
    assert!(n(&t, "number('')").is_nan());
    assert!(n(&t, "number('.')").is_nan());
    assert!(n(&t, "number('- 1')").is_nan());
    assert!(n(&t, "number('1 2')").is_nan());
    assert!(n(&t, "number('\u{a0}1')").is_nan());
    assert!(n(&t, "number('0x10')").is_nan());
    assert_eq!(n(&t, "number(true())"), 1.0);
    assert!(n(&t, "number(/x)").is_nan());
    assert!((1.0 / n(&t, "number('-0')")).is_sign_negative());
    // floor, ceiling, round
    assert_eq!(n(&t, "floor(2.6)"), 2.0);
    assert_eq!(n(&t, "floor(-2.5)"), -3.0);
    assert_eq!(n(&t, "ceiling(2.1)"), 3.0);
    assert_eq!(n(&t, "ceiling(-2.5)"), -2.0);
    assert_eq!(n(&t, "round(2.5)"), 3.0);
    assert_eq!(n(&t, "round(2.4)"), 2.0);
    assert_eq!(n(&t, "round(-2.5)"), -2.0);
    assert_eq!(n(&t, "round(-2.6)"), -3.0);
    assert_eq!(n(&t, "round(-1.5)"), -1.0);
    assert_eq!(n(&t, "round(0.5)"), 1.0);
    let r = n(&t, "round(-0.5)");
    assert!(r == 0.0 && r.is_sign_negative());
    let r = n(&t, "round(-0.2)");
    assert!(r == 0.0 && r.is_sign_negative());
    let r = n(&t, "round(-0)");
    assert!(r == 0.0 && r.is_sign_negative());
    let r = n(&t, "round(0)");
    assert!(r == 0.0 && r.is_sign_positive());
    assert!(n(&t, "round(0 div 0)").is_nan());
    assert_eq!(n(&t, "round(1 div 0)"), f64::INFINITY);
    assert_eq!(n(&t, "round(-1 div 0)"), f64::NEG_INFINITY);
    assert_eq!(xpath_round(0.49999999999999994), 0.0);
    assert_eq!(xpath_round(4503599627370497.0), 4503599627370497.0);
    assert_eq!(xpath_round(-4503599627370497.0), -4503599627370497.0);
    assert_eq!(xpath_round(2.5000000000000004), 3.0);
    // sum, count
    let t = from_xml("<r><a>1</a><a>2.5</a><a> 3 </a><b>x</b></r>").unwrap();
    assert_eq!(n(&t, "sum(//a)"), 6.5);
    assert!(n(&t, "sum(//*[not(*)])").is_nan());
    assert_eq!(n(&t, "sum(//zz)"), 0.0);
    assert_eq!(n(&t, "count(//a)"), 3.0);
    assert_eq!(n(&t, "count(//a | //b | /)"), 5.0);
    assert!(b(&t, "//a = 2.5"));
    assert!(b(&t, "//a > 2.9"));
    assert!(!b(&t, "//a > 3"));
    assert!(b(&t, "3 <= //a"));
    assert!(b(&t, "//a < //a"));
    assert!(b(&t, "//a != //a"));
    assert!(!b(&t, "//b < //b"));
    assert!(!b(&t, "//b >= //b")); // NaN
    assert!(b(&t, "//b = //b"));
    assert!(b(&t, "//a <= ' 3 '"));
    assert!(b(&t, "//a = ' 3 '"));
    assert!(!b(&t, "//a = '3'"));
    assert!(b(&t, "//a > false()")); // boolean(//a)=true -> 1 > 0
    assert!(!b(&t, "//zz >= false() and false()"));
    assert!(b(&t, "//zz >= false()")); // 0 >= 0
    assert!(b(&t, "true() > //zz"));
    assert_eq!(s(&t, "string(//a)"), "1");
    assert_eq!(s(&t, "string(/)"), "12.5 3 x");
    assert_eq!(n(&t, "number(//a[2])"), 2.5);
    assert_eq!(n(&t, "string-length()"), 8.0);
    assert_eq!(s(&t, "normalize-space()"), "12.5 3 x");
}

#[test]
fn names_and_namespaces() {
    let src = r#"<?top data?><!--c0--><r xmlns="urn:d" xmlns:p="urn:x" id="r" p:k="v"><p:a id="a"/><b xmlns="" id="b"><c xmlns:p="urn:y" id="c"><p:a id="a2" p:k="w"/></c></b><?pi some data?><!--com--></r><!--after-->"#;
    let t = from_xml(src).unwrap();
    t.check_invariants().unwrap();
    assert_eq!(to_xml(&t), src);
    let nsb = vec![
        ("p".to_string(), "urn:x".to_string()),
        ("q".to_string(), "urn:y".to_string()),
        ("d".to_string(), "urn:d".to_string()),
    ];
    let env = Env::new(&t, &nsb);
    let e = |src: &str| eval_root(&parse(src).unwrap(), &env).unwrap();
    let st = |src: &str| match e(src) {
        Value::Str(s) => s,
        v => panic!("{:?}", v),
    };
    let cnt = |src: &str| match e(src) {
        Value::NodeSet(v) => v.len(),
        v => panic!("{:?}", v),
    };
    // no default namespace for name tests
    assert_eq!(cnt("/r"), 0);
    assert_eq!(cnt("/d:r"), 1);
    assert_eq!(cnt("/d:r/p:a"), 1);
    assert_eq!(cnt("/d:r/q:a"), 0);
    assert_eq!(cnt("//q:a"), 1);
    assert_eq!(cnt("//p:*"), 1);
    assert_eq!(cnt("//q:*"), 1);
    assert_eq!(cnt("//d:*"), 1);
    assert_eq!(cnt("//b"), 1);
    assert_eq!(cnt("//b/c"), 1);
    assert_eq!(cnt("//*"), 5);
    assert_eq!(cnt("//@*"), 7);
    assert_eq!(cnt("//@id"), 5);
    assert_eq!(cnt("//@p:k"), 1);
    assert_eq!(cnt("//@q:k"), 1);
    assert_eq!(cnt("//@p:*"), 1);
    assert_eq!(cnt("//@k"), 0);
    assert_eq!(cnt("/node()"), 4);
    assert_eq!(cnt("/comment()"), 2);
    assert_eq!(cnt("/processing-instruction()"), 1);
    assert_eq!(cnt("//processing-instruction('pi')"), 1);
    assert_eq!(cnt("//processing-instruction('top')"), 1);
    assert_eq!(cnt("//processing-instruction('nope')"), 0);
    assert_eq!(cnt("//comment()"), 3);
    assert_eq!(cnt("//text()"), 0);
    // name functions
    assert_eq!(st("name(/*)"), "r");
    assert_eq!(st("local-name(/*)"), "r");
    assert_eq!(st("namespace-uri(/*)"), "urn:d");
    assert_eq!(st("name(//q:a)"), "p:a");
    assert_eq!(st("namespace-uri(//q:a)"), "urn:y");
    assert_eq!(st("name(//q:a/@q:k)"), "p:k");
    assert_eq!(st("local-name(//q:a/@q:k)"), "k");
    assert_eq!(st("namespace-uri(//q:a/@q:k)"), "urn:y");
    assert_eq!(st("namespace-uri(//q:a/@id)"), "");
    assert_eq!(st("name(//b)"), "b");
    assert_eq!(st("namespace-uri(//b)"), "");
    assert_eq!(st("name(/processing-instruction())"), "top");
    assert_eq!(st("local-name(//processing-instruction('pi'))"), "pi");
    assert_eq!(st("namespace-uri(//processing-instruction('pi'))"), "");
    assert_eq!(st("string(//processing-instruction('pi'))"), "some data");
    assert_eq!(st("name(/comment())"), "");
    assert_eq!(st("name(/)"), "");
    assert_eq!(st("name(/zz)"), "");
    assert_eq!(st("name()"), "");
    assert_eq!(st("string(/comment()[2])"), "after");
    // namespace axis
    assert_eq!(cnt("/d:r/namespace::*"), 3); // xml, default, p
    assert_eq!(cnt("//b/namespace::*"), 2); // xml, p   (default undeclared)
    assert_eq!(cnt("//b/c/namespace::*"), 2);
    assert_eq!(st("string(//b/c/namespace::p)"), "urn:y");
    assert_eq!(st("string(/d:r/namespace::p)"), "urn:x");
    assert_eq!(st("name(/d:r/namespace::p)"), "p");
    assert_eq!(st("local-name(/d:r/namespace::p)"), "p");
    assert_eq!(st("namespace-uri(/d:r/namespace::p)"), "");
    assert_eq!(st("string(/d:r/namespace::xml)"), XML_NS);
    assert_eq!(st("name(/d:r/namespace::*[. = 'urn:d'])"), "");
    assert_eq!(cnt("/d:r/namespace::p:*"), 0);
    assert_eq!(cnt("/d:r/namespace::d:p"), 0);
    assert_eq!(cnt("/d:r/namespace::node()"), 3);
    assert_eq!(cnt("/d:r/namespace::text()"), 0);
    assert_eq!(cnt("/d:r/namespace::*/.."), 1);
    assert_eq!(cnt("/d:r/namespace::*/parent::d:r"), 1);
    assert_eq!(cnt("//namespace::*"), 12); // 3 + 3 + 2 + 2 + 2
    assert_eq!(cnt("/d:r/namespace::*/following-sibling::node()"), 0);
    assert_eq!(cnt("/d:r/namespace::*/self::node()"), 3);
    assert_eq!(cnt("/d:r/namespace::*/self::*"), 0); // principal node type of self is element
    assert_eq!(cnt("/d:r/@*/self::*"), 0);
    assert_eq!(cnt("/d:r/@*/self::node()"), 2);
    // namespace nodes precede attributes precede children
    assert_eq!(cnt("/d:r/namespace::*/following::*"), 4);
    assert_eq!(cnt("(/d:r/namespace::* | /d:r/@*)[last()]/self::node()[name() = 'p:k']"), 1);
    assert_eq!(cnt("/d:r/@id/preceding::node()"), 2);
    // union keeps document order
    match e("//q:a | /comment() | /d:r/@id | /") {
        Value::NodeSet(v) => {
            assert_eq!(v.len(), 5);
            assert!(v.windows(2).all(|w| w[0] < w[1]));
            assert_eq!(v[0], 0);
        }
        v => panic!("{:?}", v),
    }
}

#[test]
fn lang_function() {
    let t = from_xml(
        r#"<r id="r"><para id="a" xml:lang="en"/><div id="b" xml:lang="en"><para id="b1"/></div><para id="c" xml:lang="EN"/><para id="d" xml:lang="en-us">txt</para><e id="e" xml:lang="fr"><f id="f" xml:lang=""><g id="g"/></f></e><h id="h" lang="en"/><i id="i" xml:lang="english"/></r>"#,
    )
    .unwrap();
    let l = |id: &str, arg: &str| match ev_at(&t, find_id(&t, id), &format!("lang('{}')", arg)).unwrap() {
        Value::Bool(b) => b,
        v => panic!("{:?}", v),
    };
    // the four examples of section 4.3
    assert!(l("a", "en"));
    assert!(l("b1", "en"));
    assert!(l("c", "en"));
    assert!(l("d", "en"));
    assert!(l("d", "EN-US"));
    assert!(!l("d", "en-u"));
    assert!(!l("d", "us"));
    assert!(!l("r", "en"));
    assert!(l("e", "fr"));
    assert!(!l("g", "fr"));
    assert!(!l("h", "en"));
    assert!(!l("i", "en"));
    // text and attribute nodes inherit from the element
    assert_eq!(ev_at(&t, find_id(&t, "d"), "count(text()[lang('en')])").unwrap(), Value::Num(1.0));
    assert_eq!(ev_at(&t, find_id(&t, "d"), "count(@id[lang('en')])").unwrap(), Value::Num(1.0));
}

#[test]
fn builder_merges_text_and_orders_nodes() {
    let mut b = TreeBuilder::new();
    b.comment("pre");
    b.text("ignored at top level");
    let r = b.start_element(
        None,
        "r",
        &[(None, "urn:d".to_string()), (Some("p".to_string()), "urn:x".to_string())],
        &[(None, "a".to_string(), "1".to_string()), (Some("p".to_string()), "a".to_string(), "2".to_string())],
    );
    b.text("");
    b.text("ab");
    b.text("");
    b.text("cd");
    b.comment("x");
    b.text("ef");
    let c = b.start_element(Some("p"), "c", &[(None, String::new())], &[]);
    b.end_element();
    b.end_element();
    b.pi("post", "");
    let t = b.finish();
    t.check_invariants().unwrap();
    assert_eq!(t.nodes[r].nss.len(), 3);
    assert_eq!(t.nodes[c].nss.len(), 2);
    assert_eq!(t.nodes[r].uri.as_deref(), Some("urn:d"));
    assert_eq!(t.nodes[t.nodes[r].attrs[0]].uri, None);
    assert_eq!(t.nodes[t.nodes[r].attrs[1]].uri.as_deref(), Some("urn:x"));
    assert_eq!(t.nodes[c].uri.as_deref(), Some("urn:x"));
    assert_eq!(t.nodes[r].children.len(), 4);
    assert_eq!(t.string_value(r), "abcdef");
    assert_eq!(t.string_value(0), "abcdef");
    assert_eq!(t.name(c), "p:c");
    assert_eq!(t.expanded_name(c), Some((Some("urn:x"), "c")));
    assert_eq!(
        to_xml(&t),
        r#"<!--pre--><r xmlns="urn:d" xmlns:p="urn:x" a="1" p:a="2">abcd<!--x-->ef<p:c xmlns=""/></r><?post?>"#
    );
    let mut b = TreeBuilder::new();
    assert!(b.try_start_element(Some("zz"), "r", &[], &[]).is_err());
    assert!(b
        .try_start_element(None, "r", &[], &[(Some("zz".to_string()), "a".to_string(), String::new())])
        .is_err());
    assert!(b.try_start_element(None, "r", &[(Some("p".to_string()), String::new())], &[]).is_err());
    // xml prefix is always available
    assert!(b
        .try_start_element(None, "r", &[], &[(Some("xml".to_string()), "lang".to_string(), "en".to_string())])
        .is_ok());
}

#[test]
fn scalar_helpers() {
    assert_eq!(number_to_string(1e21), "1000000000000000000000");
    assert_eq!(number_to_string(1e-7), "0.0000001");
    assert_eq!(number_to_string(-0.0), "0");
    assert_eq!(number_to_string(123456789012345680000.0), "123456789012345680000");
    assert_eq!(number_to_string(0.1 + 0.2), "0.30000000000000004");
    assert_eq!(number_to_string(f64::MAX).len(), 309);
    assert_eq!(number_to_string(5e-324).len(), 326);
    assert_eq!(string_to_number(&number_to_string(f64::MAX)), f64::MAX);
    assert_eq!(string_to_number(&number_to_string(5e-324)), 5e-324);
    assert_eq!(string_to_number("\t\r\n 1 \n"), 1.0);
    assert!(string_to_number("1\u{2003}").is_nan());
    assert!(string_to_number("--1").is_nan());
    assert!(string_to_number("1.2.3").is_nan());
    assert!(string_to_number("\u{0661}").is_nan());
    assert_eq!(string_to_number("00012.500"), 12.5);
    assert_eq!(string_to_number("9007199254740993"), 9007199254740992.0);
    assert_eq!(substring("12345", 1.5, Some(2.6)), "234");
    assert_eq!(translate("abc", "abc", ""), "");
    assert_eq!(normalize_space("\u{2003}a"), "\u{2003}a");
    assert!(lang_matches("en-US", "en"));
    assert!(lang_matches("", ""));
    assert!(!lang_matches("en", "en-US"));
}

#[test]
fn trace_records_conversions() {
    let t = from_xml(r#"<r k="v"><a>1e2</a></r>"#).unwrap();
    let nsb = ns();
    let env = Env::new(&t, &nsb);
    vp_xref::trace::start();
    let v = eval_root(&parse("concat(number(//a), 1 div 3, round(2.5), count(//@k/following::*))").unwrap(), &env).unwrap();
    let tr = vp_xref::trace::take();
    assert_eq!(v, Value::Str("NaN0.333333333333333331".to_string()));
    assert_eq!(tr.str_to_num, ["1e2"]);
    assert_eq!(tr.num_to_str.len(), 4);
    assert_eq!(tr.rounded, [2.5]);
    assert_eq!(tr.events, ["following-from-attr-or-ns"]);
    // off again
    let _ = eval_root(&parse("string(1.5)").unwrap(), &env).unwrap();
    assert!(vp_xref::trace::take().num_to_str.is_empty());
    assert_eq!(vp_xref::parse::number_tokens("1.50 + .5 * a1 - '7'").unwrap(), ["1.50", ".5"]);
}

#[test]
fn unbound_prefix_is_an_error_of_the_step() {
    let t = empty_doc();
    // no candidate node at all, still an error once the step is evaluated
    assert!(matches!(ev_at(&t, 0, "/r/zz:a"), Err(EvalError::UnboundPrefix(_))));
    assert!(matches!(ev_at(&t, 0, "/nope/zz:a"), Err(EvalError::UnboundPrefix(_))));
    assert!(matches!(ev_at(&t, 0, "/r/@zz:*"), Err(EvalError::UnboundPrefix(_))));
    // ... but not when the sub-expression is never evaluated
    assert_eq!(ev_at(&t, 0, "true() or zz:a").unwrap(), Value::Bool(true));
    assert_eq!(ev_at(&t, 0, "count(/nope[zz:a])").unwrap(), Value::Num(0.0));
}
