//! Optional thread-local trace of what an evaluation did.  Off by default
//! (one thread-local check per traced operation).  The libxml2 cross-check
//! uses it to find out whether a result depended on an operation that libxml2
//! is known to perform differently; it is also handy for callers who want to
//! know whether an evaluation depended on number formatting / parsing.

use std::cell::RefCell;

#[derive(Clone, Debug, Default)]
pub struct Trace {
    /// arguments of `scalar::number_to_string`
    pub num_to_str: Vec<f64>,
    /// arguments of `scalar::string_to_number`
    pub str_to_num: Vec<String>,
    /// arguments of `scalar::xpath_round` (round(), substring())
    pub rounded: Vec<f64>,
    /// "following-from-attr-or-ns", "preceding-from-attr-or-ns": a step on
    /// that axis was evaluated with an attribute or namespace node as context;
    /// "lang-on-namespace-node": lang() was called with a namespace node as
    /// context node;
    /// "ns-order-used": the document order of a node-set with two or more
    /// nodes including a namespace node was used (first node / positional
    /// filter of a filter expression)
    pub events: Vec<&'static str>,
}

thread_local! {
    static TRACE: RefCell<Option<Trace>> = const { RefCell::new(None) };
}

/// Starts (or restarts) tracing on this thread.
pub fn start() {
    TRACE.with(|t| *t.borrow_mut() = Some(Trace::default()));
}

/// Stops tracing and returns what was recorded since `start`.
pub fn take() -> Trace {
    TRACE.with(|t| t.borrow_mut().take()).unwrap_or_default()
}

/// Is tracing active on this thread?
pub fn is_on() -> bool {
    TRACE.with(|t| t.borrow().is_some())
}

/// Records "ns-order-used" when the *order* of `set` is about to be used
/// (first node, positional filter) and it has at least two nodes, at least
/// one of them a namespace node.
pub(crate) fn note_order_use(tree: &crate::tree::XTree, set: &[usize]) {
    if set.len() < 2 || !is_on() {
        return;
    }
    if set.iter().any(|&n| tree.nodes[n].kind == crate::tree::Kind::Namespace) {
        note_event("ns-order-used");
    }
}

pub(crate) fn note_num(v: f64) {
    TRACE.with(|t| {
        if let Some(tr) = t.borrow_mut().as_mut() {
            tr.num_to_str.push(v);
        }
    });
}

pub(crate) fn note_round(v: f64) {
    TRACE.with(|t| {
        if let Some(tr) = t.borrow_mut().as_mut() {
            tr.rounded.push(v);
        }
    });
}

pub(crate) fn note_str(s: &str) {
    TRACE.with(|t| {
        if let Some(tr) = t.borrow_mut().as_mut() {
            tr.str_to_num.push(s.to_string());
        }
    });
}

pub(crate) fn note_event(e: &'static str) {
    TRACE.with(|t| {
        if let Some(tr) = t.borrow_mut().as_mut() {
            if !tr.events.contains(&e) {
                tr.events.push(e);
            }
        }
    });
}
