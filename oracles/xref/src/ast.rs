//! Plain AST for the complete XPath 1.0 expression language.

#[derive(Clone, Copy, Debug, PartialEq, Eq, Hash)]
pub enum BinOp {
    Or,
    And,
    Eq,
    Ne,
    Lt,
    Le,
    Gt,
    Ge,
    Add,
    Sub,
    Mul,
    Div,
    Mod,
    Union,
}

impl BinOp {
    /// Binding strength: or=1 < and=2 < equality=3 < relational=4 <
    /// additive=5 < multiplicative=6 < (unary=7) < union=8 < (path=9).
    pub fn level(self) -> u8 {
        match self {
            BinOp::Or => 1,
            BinOp::And => 2,
            BinOp::Eq | BinOp::Ne => 3,
            BinOp::Lt | BinOp::Le | BinOp::Gt | BinOp::Ge => 4,
            BinOp::Add | BinOp::Sub => 5,
            BinOp::Mul | BinOp::Div | BinOp::Mod => 6,
            BinOp::Union => 8,
        }
    }

    pub fn symbol(self) -> &'static str {
        match self {
            BinOp::Or => "or",
            BinOp::And => "and",
            BinOp::Eq => "=",
            BinOp::Ne => "!=",
            BinOp::Lt => "<",
            BinOp::Le => "<=",
            BinOp::Gt => ">",
            BinOp::Ge => ">=",
            BinOp::Add => "+",
            BinOp::Sub => "-",
            BinOp::Mul => "*",
            BinOp::Div => "div",
            BinOp::Mod => "mod",
            BinOp::Union => "|",
        }
    }

    pub const ALL: [BinOp; 14] = [
        BinOp::Or,
        BinOp::And,
        BinOp::Eq,
        BinOp::Ne,
        BinOp::Lt,
        BinOp::Le,
        BinOp::Gt,
        BinOp::Ge,
        BinOp::Add,
        BinOp::Sub,
        BinOp::Mul,
        BinOp::Div,
        BinOp::Mod,
        BinOp::Union,
    ];
}

#[derive(Clone, Debug, PartialEq)]
pub enum Expr {
    /// All binary operators, including `|`.  All are left-associative.
    Bin(BinOp, Box<Expr>, Box<Expr>),
    /// Unary minus.
    Neg(Box<Expr>),
    Literal(String),
    /// As written: non-negative and finite.
    Number(f64),
    /// `$name` (QName as written).  Evaluating it is an error.
    Var(String),
    /// Function call; the name is the QName as written (core functions have no prefix).
    Call(String, Vec<Expr>),
    Path(PathExpr),
}

#[derive(Clone, Debug, PartialEq)]
pub struct PathExpr {
    pub start: PathStart,
    pub steps: Vec<Step>,
}

#[derive(Clone, Debug, PartialEq)]
pub enum PathStart {
    /// absolute location path: `/`
    Root,
    /// relative location path
    Context,
    /// FilterExpr: a primary expression followed by predicates (document
    /// order positions), optionally followed by `/steps`.
    Filter(Box<Expr>, Vec<Expr>),
}

#[derive(Clone, Debug, PartialEq)]
pub struct Step {
    pub axis: Axis,
    pub test: NodeTest,
    pub preds: Vec<Expr>,
}

#[derive(Clone, Copy, Debug, PartialEq, Eq, Hash)]
pub enum Axis {
    Ancestor,
    AncestorOrSelf,
    Attribute,
    Child,
    Descendant,
    DescendantOrSelf,
    Following,
    FollowingSibling,
    Namespace,
    Parent,
    Preceding,
    PrecedingSibling,
    SelfAxis,
}

impl Axis {
    pub const ALL: [Axis; 13] = [
        Axis::Ancestor,
        Axis::AncestorOrSelf,
        Axis::Attribute,
        Axis::Child,
        Axis::Descendant,
        Axis::DescendantOrSelf,
        Axis::Following,
        Axis::FollowingSibling,
        Axis::Namespace,
        Axis::Parent,
        Axis::Preceding,
        Axis::PrecedingSibling,
        Axis::SelfAxis,
    ];

    pub fn name(self) -> &'static str {
        match self {
            Axis::Ancestor => "ancestor",
            Axis::AncestorOrSelf => "ancestor-or-self",
            Axis::Attribute => "attribute",
            Axis::Child => "child",
            Axis::Descendant => "descendant",
            Axis::DescendantOrSelf => "descendant-or-self",
            Axis::Following => "following",
            Axis::FollowingSibling => "following-sibling",
            Axis::Namespace => "namespace",
            Axis::Parent => "parent",
            Axis::Preceding => "preceding",
            Axis::PrecedingSibling => "preceding-sibling",
            Axis::SelfAxis => "self",
        }
    }

    pub fn from_name(s: &str) -> Option<Axis> {
        Axis::ALL.iter().copied().find(|a| a.name() == s)
    }

    /// Reverse axes: proximity positions count in reverse document order.
    pub fn is_reverse(self) -> bool {
        matches!(
            self,
            Axis::Ancestor | Axis::AncestorOrSelf | Axis::Preceding | Axis::PrecedingSibling
        )
    }
}

#[derive(Clone, Debug, PartialEq)]
pub enum NodeTest {
    /// `*`
    AnyName,
    /// `prefix:*`
    NsAny(String),
    /// `prefix:local` / `local`
    Name(Option<String>, String),
    /// `node()`
    Node,
    /// `text()`
    Text,
    /// `comment()`
    Comment,
    /// `processing-instruction()` / `processing-instruction('target')`
    PI(Option<String>),
}

// ---------------------------------------------------------------------------
// convenience constructors

impl Expr {
    pub fn bin(op: BinOp, l: Expr, r: Expr) -> Expr {
        Expr::Bin(op, Box::new(l), Box::new(r))
    }
    pub fn neg(e: Expr) -> Expr {
        Expr::Neg(Box::new(e))
    }
    pub fn lit(s: &str) -> Expr {
        Expr::Literal(s.to_string())
    }
    pub fn num(v: f64) -> Expr {
        Expr::Number(v)
    }
    pub fn call(name: &str, args: Vec<Expr>) -> Expr {
        Expr::Call(name.to_string(), args)
    }
    /// relative location path
    pub fn rel(steps: Vec<Step>) -> Expr {
        Expr::Path(PathExpr { start: PathStart::Context, steps })
    }
    /// absolute location path
    pub fn abs(steps: Vec<Step>) -> Expr {
        Expr::Path(PathExpr { start: PathStart::Root, steps })
    }
    /// `primary[preds]/steps`
    pub fn filter(primary: Expr, preds: Vec<Expr>, steps: Vec<Step>) -> Expr {
        Expr::Path(PathExpr { start: PathStart::Filter(Box::new(primary), preds), steps })
    }
}

impl Step {
    pub fn new(axis: Axis, test: NodeTest) -> Step {
        Step { axis, test, preds: Vec::new() }
    }
    pub fn with_preds(axis: Axis, test: NodeTest, preds: Vec<Expr>) -> Step {
        Step { axis, test, preds }
    }
    /// `child::local`
    pub fn child(local: &str) -> Step {
        Step::new(Axis::Child, NodeTest::Name(None, local.to_string()))
    }
    /// `attribute::local`
    pub fn attr(local: &str) -> Step {
        Step::new(Axis::Attribute, NodeTest::Name(None, local.to_string()))
    }
    /// `self::node()`  (`.`)
    pub fn dot() -> Step {
        Step::new(Axis::SelfAxis, NodeTest::Node)
    }
    /// `parent::node()`  (`..`)
    pub fn dotdot() -> Step {
        Step::new(Axis::Parent, NodeTest::Node)
    }
    /// `descendant-or-self::node()`  (the step hidden in `//`)
    pub fn dslash() -> Step {
        Step::new(Axis::DescendantOrSelf, NodeTest::Node)
    }
    pub fn pred(mut self, e: Expr) -> Step {
        self.preds.push(e);
        self
    }
    pub fn is_dot(&self) -> bool {
        self.axis == Axis::SelfAxis && self.test == NodeTest::Node && self.preds.is_empty()
    }
    pub fn is_dotdot(&self) -> bool {
        self.axis == Axis::Parent && self.test == NodeTest::Node && self.preds.is_empty()
    }
    pub fn is_dslash(&self) -> bool {
        self.axis == Axis::DescendantOrSelf && self.test == NodeTest::Node && self.preds.is_empty()
    }
}

/// Normal form used for AST equality in round-trip tests
/// (`normalize(parse(spell(e, choices))) == normalize(e)`):
///
/// 1. `Path{ start: Filter(e, []), steps: [] }` (a parenthesised expression
///    without predicates or steps) is replaced by `e`;
/// 2. a predicate that is a bare `Number(k)` is replaced by
///    `position() = k` (the meaning the recommendation gives it);
///
/// applied bottom-up everywhere.  Nothing else is rewritten: in particular
/// `(a/b)/c` stays a filter path and is *not* flattened into `a/b/c`.
pub fn normalize(e: &Expr) -> Expr {
    match e {
        Expr::Bin(op, l, r) => Expr::Bin(*op, Box::new(normalize(l)), Box::new(normalize(r))),
        Expr::Neg(x) => Expr::Neg(Box::new(normalize(x))),
        Expr::Literal(_) | Expr::Number(_) | Expr::Var(_) => e.clone(),
        Expr::Call(n, args) => Expr::Call(n.clone(), args.iter().map(normalize).collect()),
        Expr::Path(p) => {
            let steps: Vec<Step> = p
                .steps
                .iter()
                .map(|s| Step {
                    axis: s.axis,
                    test: s.test.clone(),
                    preds: s.preds.iter().map(norm_pred).collect(),
                })
                .collect();
            match &p.start {
                PathStart::Filter(inner, preds) => {
                    let inner = normalize(inner);
                    if preds.is_empty() && steps.is_empty() {
                        inner
                    } else {
                        Expr::Path(PathExpr {
                            start: PathStart::Filter(
                                Box::new(inner),
                                preds.iter().map(norm_pred).collect(),
                            ),
                            steps,
                        })
                    }
                }
                s => Expr::Path(PathExpr { start: s.clone(), steps }),
            }
        }
    }
}

fn norm_pred(p: &Expr) -> Expr {
    match normalize(p) {
        Expr::Number(k) => Expr::bin(BinOp::Eq, Expr::call("position", vec![]), Expr::Number(k)),
        other => other,
    }
}
