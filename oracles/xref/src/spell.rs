//! Spelling of ASTs as XPath 1.0 expression strings.
//!
//! `spell(e, &mut Choices::zero())` is the canonical minimal spelling.
//! Non-zero choice bytes switch, independently at each opportunity, to an
//! alternative but equivalent spelling.  Choice bytes are consumed in two
//! phases: first the *structural* choices during a pre-order left-to-right
//! walk of the AST (redundant parentheses, abbreviations, quote style,
//! number format, `[k]` -> `[position()=k]`), then one byte per gap between
//! two adjacent tokens for optional white space.

use crate::ast::*;
use crate::parse::is_ncname_char;
use crate::scalar::number_to_string;

pub use crate::parse::parse;

/// A stream of choice bytes, consumed left to right; yields 0 when exhausted.
#[derive(Clone, Debug)]
pub struct Choices {
    pub bytes: Vec<u8>,
    pub pos: usize,
    /// allow rewriting an integer-literal predicate `[k]` as `[position()=k]`
    /// (changes the AST obtained by re-parsing; see `ast::normalize`)
    pub allow_position_rewrite: bool,
    /// allow #xA / #xD as optional white space (otherwise only space and tab)
    pub allow_newline: bool,
}

impl Choices {
    pub fn new(bytes: Vec<u8>) -> Choices {
        Choices { bytes, pos: 0, allow_position_rewrite: false, allow_newline: true }
    }
    /// All choices 0: canonical spelling.
    pub fn zero() -> Choices {
        Choices::new(Vec::new())
    }
    pub fn with_position_rewrite(mut self, on: bool) -> Choices {
        self.allow_position_rewrite = on;
        self
    }
    pub fn with_newline(mut self, on: bool) -> Choices {
        self.allow_newline = on;
        self
    }
    pub fn next(&mut self) -> u8 {
        let b = self.bytes.get(self.pos).copied().unwrap_or(0);
        self.pos += 1;
        b
    }
    /// Number of choice bytes asked for so far.
    pub fn consumed(&self) -> usize {
        self.pos
    }
}

#[derive(Clone, Copy, Debug, PartialEq)]
enum TK {
    /// NCName-like token: name test, function name, node type, axis name, `$var`
    Name,
    /// `and` `or` `div` `mod`
    OpName,
    /// the multiply operator `*`
    Multiply,
    Number,
    /// `.` or `..`
    Dots,
    /// a complete absolute path consisting of `/` only
    RootBare,
    Other,
}

#[derive(Clone, Debug)]
struct Tok {
    text: String,
    kind: TK,
}

struct Speller<'c> {
    toks: Vec<Tok>,
    ch: &'c mut Choices,
    full: bool,
}

fn level(e: &Expr) -> u8 {
    match e {
        Expr::Bin(op, _, _) => op.level(),
        Expr::Neg(_) => 7,
        Expr::Literal(_) | Expr::Number(_) | Expr::Var(_) | Expr::Call(_, _) => 10,
        Expr::Path(p) => match &p.start {
            // `(e)` alone spells as e itself
            PathStart::Filter(inner, preds) if preds.is_empty() && p.steps.is_empty() => level(inner),
            _ => 9,
        },
    }
}

impl<'c> Speller<'c> {
    fn push(&mut self, text: &str, kind: TK) {
        self.toks.push(Tok { text: text.to_string(), kind });
    }
    fn other(&mut self, text: &str) {
        self.push(text, TK::Other);
    }
    /// binary structural choice; false = canonical
    fn alt(&mut self) -> bool {
        if self.full {
            return true;
        }
        self.ch.next() & 1 == 1
    }

    /// Emits `e` at a position that requires binding strength `min`;
    /// adds the necessary parentheses plus optional redundant ones.
    fn sub(&mut self, e: &Expr, min: u8) -> Result<(), String> {
        let needed = level(e) < min;
        let extra = if self.full {
            0
        } else {
            match self.ch.next() {
                255 => 2,
                c if c & 1 == 1 => 1,
                _ => 0,
            }
        };
        let layers = extra + usize::from(needed);
        for _ in 0..layers {
            self.other("(");
        }
        self.expr(e)?;
        for _ in 0..layers {
            self.other(")");
        }
        Ok(())
    }

    /// operand of an operator: in `full` mode always parenthesised
    fn operand(&mut self, e: &Expr, min: u8) -> Result<(), String> {
        if self.full {
            self.other("(");
            self.expr(e)?;
            self.other(")");
            Ok(())
        } else {
            self.sub(e, min)
        }
    }

    fn expr(&mut self, e: &Expr) -> Result<(), String> {
        match e {
            Expr::Bin(op, l, r) => {
                let lv = op.level();
                self.operand(l, lv)?;
                match op {
                    BinOp::Or | BinOp::And | BinOp::Div | BinOp::Mod => self.push(op.symbol(), TK::OpName),
                    BinOp::Mul => self.push("*", TK::Multiply),
                    _ => self.other(op.symbol()),
                }
                self.operand(r, lv + 1)
            }
            Expr::Neg(x) => {
                self.other("-");
                self.operand(x, 7)
            }
            Expr::Literal(s) => {
                let has_d = s.contains('"');
                let has_s = s.contains('\'');
                if has_d && has_s {
                    return Err(format!("literal {:?} contains both kinds of quote", s));
                }
                let prefer_single = !self.full && self.alt();
                let q = if has_d {
                    '\''
                } else if has_s {
                    '"'
                } else if prefer_single {
                    '\''
                } else {
                    '"'
                };
                self.other(&format!("{}{}{}", q, s, q));
                Ok(())
            }
            Expr::Number(v) => {
                if !(v.is_finite() && *v >= 0.0) || (*v == 0.0 && v.is_sign_negative()) {
                    return Err(format!("number {:?} cannot be written as an XPath Number", v));
                }
                let s = number_to_string(*v);
                let variant = if self.full { 0 } else { self.ch.next() % 4 };
                let is_int = !s.contains('.');
                let text = match variant {
                    0 => s,
                    1 => {
                        if is_int {
                            format!("{}.0", s)
                        } else {
                            format!("{}0", s)
                        }
                    }
                    2 => format!("0{}", s),
                    _ => {
                        if is_int {
                            format!("{}.", s)
                        } else if let Some(r) = s.strip_prefix("0.") {
                            format!(".{}", r)
                        } else {
                            s
                        }
                    }
                };
                self.push(&text, TK::Number);
                Ok(())
            }
            Expr::Var(n) => {
                self.push(&format!("${}", n), TK::Name);
                Ok(())
            }
            Expr::Call(name, args) => {
                self.push(name, TK::Name);
                self.other("(");
                for (i, a) in args.iter().enumerate() {
                    if i > 0 {
                        self.other(",");
                    }
                    self.sub(a, 0)?;
                }
                self.other(")");
                Ok(())
            }
            Expr::Path(p) => self.path(p),
        }
    }

    fn preds(&mut self, preds: &[Expr]) -> Result<(), String> {
        for p in preds {
            self.other("[");
            let mut done = false;
            if let Expr::Number(k) = p {
                if !self.full && self.ch.allow_position_rewrite && k.fract() == 0.0 && k.is_finite() {
                    if self.alt() {
                        let rewritten = Expr::bin(BinOp::Eq, Expr::call("position", vec![]), Expr::Number(*k));
                        self.sub(&rewritten, 0)?;
                        done = true;
                    }
                }
            }
            if !done {
                self.sub(p, 0)?;
            }
            self.other("]");
        }
        Ok(())
    }

    fn path(&mut self, p: &PathExpr) -> Result<(), String> {
        let steps = &p.steps;
        let mut need_sep = true;
        match &p.start {
            PathStart::Root => {
                if steps.is_empty() {
                    self.push("/", TK::RootBare);
                    return Ok(());
                }
            }
            PathStart::Context => {
                if steps.is_empty() {
                    return Err("relative location path without steps".into());
                }
                need_sep = false;
            }
            PathStart::Filter(prim, preds) => {
                if preds.is_empty() && steps.is_empty() {
                    // `(e)`: identical to e
                    return self.expr(prim);
                }
                // PrimaryExpr: literal, number, variable, call; anything else in parentheses
                self.sub(prim, 10)?;
                self.preds(preds)?;
            }
        }
        let n = steps.len();
        let mut i = 0;
        while i < n {
            if need_sep {
                if steps[i].is_dslash() && i + 1 < n && !self.alt() {
                    self.other("//");
                    i += 1;
                } else {
                    self.other("/");
                }
            }
            self.step(&steps[i])?;
            i += 1;
            need_sep = true;
        }
        Ok(())
    }

    fn step(&mut self, s: &Step) -> Result<(), String> {
        if s.is_dot() {
            if !self.alt() {
                self.push(".", TK::Dots);
                return Ok(());
            }
        } else if s.is_dotdot() {
            if !self.alt() {
                self.push("..", TK::Dots);
                return Ok(());
            }
        }
        match s.axis {
            Axis::Child => {
                if self.alt() {
                    self.push("child", TK::Name);
                    self.other("::");
                }
            }
            Axis::Attribute => {
                if self.alt() {
                    self.push("attribute", TK::Name);
                    self.other("::");
                } else {
                    self.other("@");
                }
            }
            a => {
                self.push(a.name(), TK::Name);
                self.other("::");
            }
        }
        match &s.test {
            NodeTest::AnyName => self.other("*"),
            NodeTest::NsAny(p) => self.other(&format!("{}:*", p)),
            NodeTest::Name(Some(p), l) => self.push(&format!("{}:{}", p, l), TK::Name),
            NodeTest::Name(None, l) => self.push(l, TK::Name),
            NodeTest::Node => {
                self.push("node", TK::Name);
                self.other("(");
                self.other(")");
            }
            NodeTest::Text => {
                self.push("text", TK::Name);
                self.other("(");
                self.other(")");
            }
            NodeTest::Comment => {
                self.push("comment", TK::Name);
                self.other("(");
                self.other(")");
            }
            NodeTest::PI(lit) => {
                self.push("processing-instruction", TK::Name);
                self.other("(");
                if let Some(l) = lit {
                    self.expr(&Expr::Literal(l.clone()))?;
                }
                self.other(")");
            }
        }
        self.preds(&s.preds)
    }

    /// `/` alone directly followed by `*`, `and`, `or`, `div`, `mod` would
    /// make those a name test (section 3.7): write `(/)` there.
    fn fix_bare_root(&mut self) {
        let mut out: Vec<Tok> = Vec::with_capacity(self.toks.len());
        let toks = std::mem::take(&mut self.toks);
        let n = toks.len();
        for (i, t) in toks.iter().enumerate() {
            if t.kind == TK::RootBare
                && i + 1 < n
                && matches!(toks[i + 1].kind, TK::OpName | TK::Multiply)
            {
                out.push(Tok { text: "(".into(), kind: TK::Other });
                out.push(Tok { text: "/".into(), kind: TK::Other });
                out.push(Tok { text: ")".into(), kind: TK::Other });
            } else {
                out.push(t.clone());
            }
        }
        self.toks = out;
    }

    fn render(&mut self) -> String {
        let mut s = String::new();
        for i in 0..self.toks.len() {
            if i > 0 {
                let c = if self.full { 0 } else { self.ch.next() };
                let mut ws = String::new();
                for d in [c % 4, (c / 4) % 4] {
                    match d {
                        1 => ws.push(' '),
                        2 => ws.push('\t'),
                        3 => ws.push(if self.ch.allow_newline { '\n' } else { ' ' }),
                        _ => {}
                    }
                }
                if ws.is_empty() && needs_space(&self.toks[i - 1], &self.toks[i]) {
                    ws.push(' ');
                }
                s.push_str(&ws);
            }
            s.push_str(&self.toks[i].text);
        }
        s
    }
}

/// Must white space separate these two adjacent tokens?
fn needs_space(l: &Tok, r: &Tok) -> bool {
    let first = r.text.chars().next().unwrap_or(' ');
    let r_namey = is_ncname_char(first);
    match l.kind {
        // a name directly followed by a name character (another name, an
        // operator name, a number, '-' or '.') would lex as one longer name
        TK::Name | TK::OpName => r_namey,
        // `1 div 2`, `. div 2`: keep operator names apart from numbers and dots;
        // `. .5`-like sequences cannot occur in a well-formed expression
        TK::Number | TK::Dots => r.kind == TK::OpName || first.is_ascii_digit() || first == '.',
        _ => false,
    }
}

fn run(e: &Expr, ch: &mut Choices, full: bool) -> Result<String, String> {
    let mut sp = Speller { toks: Vec::new(), ch, full };
    if full {
        sp.expr(e)?;
    } else {
        sp.sub(e, 0)?;
    }
    sp.fix_bare_root();
    Ok(sp.render())
}

/// Spells `expr`; with all choices 0 the canonical minimal spelling.
/// `Err` if the AST cannot be written (a literal containing both `"` and
/// `'`, a negative / non-finite number, a relative path without steps).
pub fn spell(expr: &Expr, choices: &mut Choices) -> Result<String, String> {
    run(expr, choices, false)
}

/// Canonical minimal spelling (all choices 0).
pub fn spell_min(expr: &Expr) -> Result<String, String> {
    spell(expr, &mut Choices::zero())
}

/// Fully parenthesised (every operand of every operator) and fully
/// unabbreviated spelling.
pub fn spell_full(expr: &Expr) -> Result<String, String> {
    let mut ch = Choices::zero();
    run(expr, &mut ch, true)
}
