//! Scalar semantics of XPath 1.0: conversions (section 4), string and number
//! functions, comparisons (section 3.4) and arithmetic (section 3.5).

use crate::eval::Value;
use crate::trace;
use crate::tree::XTree;

#[derive(Clone, Copy, Debug, PartialEq, Eq, Hash)]
pub enum CmpOp {
    Eq,
    Ne,
    Lt,
    Le,
    Gt,
    Ge,
}

#[derive(Clone, Copy, Debug, PartialEq, Eq, Hash)]
pub enum ArithOp {
    Add,
    Sub,
    Mul,
    Div,
    Mod,
}

/// XPath / XML white space: #x20 | #x9 | #xD | #xA
pub fn is_xpath_space(c: char) -> bool {
    matches!(c, ' ' | '\t' | '\r' | '\n')
}

// ---------------------------------------------------------------------------
// number <-> string

/// `string(number)` (section 4.2).  Never uses exponent notation.
pub fn number_to_string(v: f64) -> String {
    trace::note_num(v);
    if v.is_nan() {
        return "NaN".to_string();
    }
    if v.is_infinite() {
        return if v > 0.0 { "Infinity".to_string() } else { "-Infinity".to_string() };
    }
    if v == 0.0 {
        // both positive and negative zero
        return "0".to_string();
    }
    // Rust's `Display` for f64 prints the shortest decimal digit string that
    // round-trips, in positional notation (never an exponent), without a
    // decimal point for integers and with a leading "0." for |v| < 1 --
    // exactly the format section 4.2 asks for.
    let s = format!("{}", v);
    debug_assert!(!s.contains('e') && !s.contains('E'));
    s
}

/// `number(string)` (section 4.4): optional white space, optional `-`, a
/// `Number` (`Digits ('.' Digits?)? | '.' Digits`), optional white space;
/// anything else is NaN.  The result is the nearest double (round-to-even).
pub fn string_to_number(s: &str) -> f64 {
    trace::note_str(s);
    let t = s.trim_matches(is_xpath_space);
    let (neg, body) = match t.strip_prefix('-') {
        Some(r) => (true, r),
        None => (false, t),
    };
    if !is_number_token(body) {
        return f64::NAN;
    }
    let v = parse_number_token(body);
    if neg {
        -v
    } else {
        v
    }
}

/// Does `s` match `Digits ('.' Digits?)? | '.' Digits` (ASCII digits only)?
pub fn is_number_token(s: &str) -> bool {
    let b = s.as_bytes();
    let mut i = 0;
    let mut int_digits = 0;
    while i < b.len() && b[i].is_ascii_digit() {
        i += 1;
        int_digits += 1;
    }
    let mut frac_digits = 0;
    if i < b.len() && b[i] == b'.' {
        i += 1;
        while i < b.len() && b[i].is_ascii_digit() {
            i += 1;
            frac_digits += 1;
        }
        if int_digits == 0 && frac_digits == 0 {
            return false;
        }
    } else if int_digits == 0 {
        return false;
    }
    i == b.len()
}

/// Value of a string matching [`is_number_token`].
pub fn parse_number_token(s: &str) -> f64 {
    debug_assert!(is_number_token(s));
    let mut t = String::with_capacity(s.len() + 2);
    if s.starts_with('.') {
        t.push('0');
    }
    t.push_str(s);
    if s.ends_with('.') {
        t.push('0');
    }
    // correctly rounded decimal -> binary conversion
    t.parse::<f64>().unwrap_or(f64::NAN)
}

// ---------------------------------------------------------------------------
// number functions

/// `round()` (section 4.4): nearest integer, ties toward positive infinity;
/// NaN, infinities and zeros are returned unchanged; `[-0.5, 0)` gives `-0`.
pub fn xpath_round(v: f64) -> f64 {
    trace::note_round(v);
    if v.is_nan() || v.is_infinite() || v == 0.0 {
        return v;
    }
    if v < 0.0 && v >= -0.5 {
        return -0.0;
    }
    let f = v.floor();
    // exact: for |v| < 2^52 the difference is representable, above that v is integral
    let d = v - f;
    if d >= 0.5 {
        f + 1.0
    } else {
        f
    }
}

pub fn xpath_floor(v: f64) -> f64 {
    v.floor()
}

pub fn xpath_ceiling(v: f64) -> f64 {
    v.ceil()
}

/// IEEE 754 arithmetic; `mod` is the truncating remainder (sign of the dividend).
pub fn arith(op: ArithOp, a: f64, b: f64) -> f64 {
    match op {
        ArithOp::Add => a + b,
        ArithOp::Sub => a - b,
        ArithOp::Mul => a * b,
        ArithOp::Div => a / b,
        ArithOp::Mod => a % b,
    }
}

// ---------------------------------------------------------------------------
// string functions (all positions and lengths in characters)

pub fn string_length(s: &str) -> f64 {
    s.chars().count() as f64
}

pub fn starts_with(a: &str, b: &str) -> bool {
    a.starts_with(b)
}

pub fn contains(a: &str, b: &str) -> bool {
    a.contains(b)
}

pub fn substring_before(a: &str, b: &str) -> String {
    match a.find(b) {
        Some(i) => a[..i].to_string(),
        None => String::new(),
    }
}

pub fn substring_after(a: &str, b: &str) -> String {
    match a.find(b) {
        Some(i) => a[i + b.len()..].to_string(),
        None => String::new(),
    }
}

/// `substring(s, start, len?)`: the characters at positions `p` (1-based)
/// with `p >= round(start)` and, if `len` is given, `p < round(start) + round(len)`.
pub fn substring(s: &str, start: f64, len: Option<f64>) -> String {
    let rs = xpath_round(start);
    let end = len.map(|l| rs + xpath_round(l));
    let mut out = String::new();
    for (i, c) in s.chars().enumerate() {
        let p = (i + 1) as f64;
        if p >= rs && end.map_or(true, |e| p < e) {
            out.push(c);
        }
    }
    out
}

/// Strips leading/trailing XPath white space and collapses internal runs to one #x20.
pub fn normalize_space(s: &str) -> String {
    let mut out = String::with_capacity(s.len());
    for w in s.split(is_xpath_space).filter(|w| !w.is_empty()) {
        if !out.is_empty() {
            out.push(' ');
        }
        out.push_str(w);
    }
    out
}

/// `translate(s, from, to)`: the first occurrence of a character in `from` decides.
pub fn translate(s: &str, from: &str, to: &str) -> String {
    let from: Vec<char> = from.chars().collect();
    let to: Vec<char> = to.chars().collect();
    let mut out = String::with_capacity(s.len());
    for c in s.chars() {
        match from.iter().position(|&f| f == c) {
            Some(i) => {
                if let Some(&r) = to.get(i) {
                    out.push(r);
                }
            }
            None => out.push(c),
        }
    }
    out
}

pub fn concat(parts: &[&str]) -> String {
    parts.concat()
}

/// Language matching of `lang()` (section 4.3): `attr` is the value of the
/// nearest `xml:lang`; true if equal to `arg` ignoring (ASCII) case, or if
/// `attr` is `arg` followed by a suffix starting with `-`.
pub fn lang_matches(attr: &str, arg: &str) -> bool {
    let a = attr.to_ascii_lowercase();
    let b = arg.to_ascii_lowercase();
    if a == b {
        return true;
    }
    a.len() > b.len() && a.starts_with(&b) && a.as_bytes()[b.len()] == b'-'
}

// ---------------------------------------------------------------------------
// conversions of values

pub fn to_boolean(v: &Value) -> bool {
    match v {
        Value::NodeSet(ns) => !ns.is_empty(),
        Value::Bool(b) => *b,
        Value::Num(n) => !(*n == 0.0 || n.is_nan()),
        Value::Str(s) => !s.is_empty(),
    }
}

pub fn to_string(v: &Value, tree: &XTree) -> String {
    match v {
        Value::NodeSet(ns) => {
            trace::note_order_use(tree, ns);
            match ns.first() {
                Some(&n) => tree.string_value(n),
                None => String::new(),
            }
        }
        Value::Bool(b) => (if *b { "true" } else { "false" }).to_string(),
        Value::Num(n) => number_to_string(*n),
        Value::Str(s) => s.clone(),
    }
}

pub fn to_number(v: &Value, tree: &XTree) -> f64 {
    match v {
        Value::NodeSet(_) => string_to_number(&to_string(v, tree)),
        Value::Bool(b) => {
            if *b {
                1.0
            } else {
                0.0
            }
        }
        Value::Num(n) => *n,
        Value::Str(s) => string_to_number(s),
    }
}

// ---------------------------------------------------------------------------
// comparisons

pub fn cmp_num(op: CmpOp, a: f64, b: f64) -> bool {
    match op {
        CmpOp::Eq => a == b,
        CmpOp::Ne => a != b,
        CmpOp::Lt => a < b,
        CmpOp::Le => a <= b,
        CmpOp::Gt => a > b,
        CmpOp::Ge => a >= b,
    }
}

fn cmp_str(op: CmpOp, a: &str, b: &str) -> bool {
    match op {
        CmpOp::Eq => a == b,
        CmpOp::Ne => a != b,
        // relational operators always compare numbers
        _ => cmp_num(op, string_to_number(a), string_to_number(b)),
    }
}

fn is_relational(op: CmpOp) -> bool {
    !matches!(op, CmpOp::Eq | CmpOp::Ne)
}

/// `a op b` per section 3.4.
pub fn compare(op: CmpOp, a: &Value, b: &Value, tree: &XTree) -> bool {
    match (a, b) {
        (Value::NodeSet(x), Value::NodeSet(y)) => {
            // exists n1 in x, n2 in y: string-value(n1) op string-value(n2)
            // (relational: after converting both to numbers)
            if x.is_empty() || y.is_empty() {
                return false;
            }
            let ys: Vec<String> = y.iter().map(|&n| tree.string_value(n)).collect();
            if is_relational(op) {
                let yn: Vec<f64> = ys.iter().map(|s| string_to_number(s)).collect();
                x.iter().any(|&n| {
                    let xv = string_to_number(&tree.string_value(n));
                    yn.iter().any(|&yv| cmp_num(op, xv, yv))
                })
            } else {
                x.iter().any(|&n| {
                    let xs = tree.string_value(n);
                    ys.iter().any(|s| cmp_str(op, &xs, s))
                })
            }
        }
        (Value::NodeSet(x), other) => match other {
            Value::Bool(bv) => compare_scalars(op, &Value::Bool(!x.is_empty()), &Value::Bool(*bv), tree),
            Value::Num(nv) => x
                .iter()
                .any(|&n| cmp_num(op, string_to_number(&tree.string_value(n)), *nv)),
            Value::Str(sv) => x.iter().any(|&n| cmp_str(op, &tree.string_value(n), sv)),
            Value::NodeSet(_) => unreachable!(),
        },
        (other, Value::NodeSet(y)) => match other {
            Value::Bool(bv) => compare_scalars(op, &Value::Bool(*bv), &Value::Bool(!y.is_empty()), tree),
            Value::Num(nv) => y
                .iter()
                .any(|&n| cmp_num(op, *nv, string_to_number(&tree.string_value(n)))),
            Value::Str(sv) => y.iter().any(|&n| cmp_str(op, sv, &tree.string_value(n))),
            Value::NodeSet(_) => unreachable!(),
        },
        _ => compare_scalars(op, a, b, tree),
    }
}

/// Comparison when neither operand is a node-set.
fn compare_scalars(op: CmpOp, a: &Value, b: &Value, tree: &XTree) -> bool {
    if is_relational(op) {
        return cmp_num(op, to_number(a, tree), to_number(b, tree));
    }
    let eq = if matches!(a, Value::Bool(_)) || matches!(b, Value::Bool(_)) {
        to_boolean(a) == to_boolean(b)
    } else if matches!(a, Value::Num(_)) || matches!(b, Value::Num(_)) {
        // IEEE: NaN = NaN is false, NaN != NaN is true
        let (x, y) = (to_number(a, tree), to_number(b, tree));
        return if op == CmpOp::Eq { x == y } else { x != y };
    } else {
        to_string(a, tree) == to_string(b, tree)
    };
    if op == CmpOp::Eq {
        eq
    } else {
        !eq
    }
}
