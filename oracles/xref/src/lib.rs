//! vp-xref: an independent reference implementation of XPath 1.0 evaluation,
//! written from the W3C recommendation (REC-xpath-19991116).  std only.
//!
//! * [`tree`]   - the XPath data model as an arena in document order, a builder, a serialiser
//! * [`ast`]    - expression AST
//! * [`eval`]   - evaluator
//! * [`scalar`] - conversions, string/number functions, comparisons
//! * [`spell`]  - AST -> expression string with spelling choices
//! * [`parse`]  - expression string -> AST
//! * [`gen`]    - random trees / typed expressions (tests, cross-check corpus)
//! * [`trace`]  - optional trace of conversions performed by an evaluation

pub mod ast;
pub mod eval;
pub mod gen;
pub mod parse;
pub mod scalar;
pub mod spell;
pub mod trace;
pub mod tree;

pub use ast::{normalize, Axis, BinOp, Expr, NodeTest, PathExpr, PathStart, Step};
pub use eval::{eval, eval_root, static_check, Env, EvalError, Value};
pub use parse::parse;
pub use spell::{spell, spell_full, spell_min, Choices};
pub use tree::{to_xml, to_xml_edited, Edit, Kind, TreeBuilder, XNode, XTree, XML_NS};
