//! XPath 1.0 evaluator over [`XTree`].
//!
//! All errors are *dynamic*: they are raised when the offending
//! sub-expression is actually evaluated (so `true() or foo()` is `true`).
//! [`static_check`] finds the errors that a static analysis would report
//! (unknown function, wrong arity, unbound prefix, variable reference).

use crate::ast::*;
use crate::scalar::{self, ArithOp, CmpOp};
use crate::tree::{Kind, XTree, XML_NS};

#[derive(Clone, Debug, PartialEq)]
pub enum Value {
    /// sorted (document order), duplicate-free arena indices
    NodeSet(Vec<usize>),
    Bool(bool),
    Num(f64),
    Str(String),
}

impl Value {
    pub fn type_name(&self) -> &'static str {
        match self {
            Value::NodeSet(_) => "node-set",
            Value::Bool(_) => "boolean",
            Value::Num(_) => "number",
            Value::Str(_) => "string",
        }
    }

    /// Equality that treats NaN as equal to NaN and distinguishes -0 from +0
    /// (bitwise on numbers); for comparing oracle results.
    pub fn same(&self, other: &Value) -> bool {
        match (self, other) {
            (Value::Num(a), Value::Num(b)) => a.to_bits() == b.to_bits() || (a.is_nan() && b.is_nan()),
            _ => self == other,
        }
    }
}

#[derive(Clone, Debug, PartialEq)]
pub enum EvalError {
    /// a QName prefix in the expression has no binding in `Env::ns`
    UnboundPrefix(String),
    UnknownFunction(String),
    /// wrong number of arguments (payload: function name)
    Arity(String),
    /// an operand / argument that must be a node-set is not one
    Type(String),
    /// variable reference (payload: name)
    Variable(String),
    /// `id()` (needs DTD information the data model here does not carry)
    Unsupported(String),
}

pub struct Env<'a> {
    pub tree: &'a XTree,
    /// the caller's prefix bindings for QNames in the expression: (prefix, uri)
    pub ns: &'a [(String, String)],
}

impl<'a> Env<'a> {
    pub fn new(tree: &'a XTree, ns: &'a [(String, String)]) -> Env<'a> {
        Env { tree, ns }
    }

    fn resolve(&self, prefix: &str) -> Result<&'a str, EvalError> {
        self.ns
            .iter()
            .find(|(p, _)| p == prefix)
            .map(|(_, u)| u.as_str())
            .ok_or_else(|| EvalError::UnboundPrefix(prefix.to_string()))
    }
}

#[derive(Clone, Copy)]
struct Ctx {
    node: usize,
    pos: usize,
    size: usize,
}

pub fn eval(
    expr: &Expr,
    env: &Env,
    ctx_node: usize,
    ctx_pos: usize,
    ctx_size: usize,
) -> Result<Value, EvalError> {
    ev(expr, env, Ctx { node: ctx_node, pos: ctx_pos, size: ctx_size })
}

/// Context = root node, position 1, size 1.
pub fn eval_root(expr: &Expr, env: &Env) -> Result<Value, EvalError> {
    eval(expr, env, 0, 1, 1)
}

fn ev(expr: &Expr, env: &Env, c: Ctx) -> Result<Value, EvalError> {
    let t = env.tree;
    match expr {
        Expr::Literal(s) => Ok(Value::Str(s.clone())),
        Expr::Number(n) => Ok(Value::Num(*n)),
        Expr::Var(n) => Err(EvalError::Variable(n.clone())),
        Expr::Neg(x) => {
            let v = ev(x, env, c)?;
            Ok(Value::Num(-scalar::to_number(&v, t)))
        }
        Expr::Bin(op, l, r) => match op {
            BinOp::Or => {
                if scalar::to_boolean(&ev(l, env, c)?) {
                    Ok(Value::Bool(true))
                } else {
                    Ok(Value::Bool(scalar::to_boolean(&ev(r, env, c)?)))
                }
            }
            BinOp::And => {
                if !scalar::to_boolean(&ev(l, env, c)?) {
                    Ok(Value::Bool(false))
                } else {
                    Ok(Value::Bool(scalar::to_boolean(&ev(r, env, c)?)))
                }
            }
            BinOp::Eq | BinOp::Ne | BinOp::Lt | BinOp::Le | BinOp::Gt | BinOp::Ge => {
                let a = ev(l, env, c)?;
                let b = ev(r, env, c)?;
                let cop = match op {
                    BinOp::Eq => CmpOp::Eq,
                    BinOp::Ne => CmpOp::Ne,
                    BinOp::Lt => CmpOp::Lt,
                    BinOp::Le => CmpOp::Le,
                    BinOp::Gt => CmpOp::Gt,
                    _ => CmpOp::Ge,
                };
                Ok(Value::Bool(scalar::compare(cop, &a, &b, t)))
            }
            BinOp::Add | BinOp::Sub | BinOp::Mul | BinOp::Div | BinOp::Mod => {
                let a = scalar::to_number(&ev(l, env, c)?, t);
                let b = scalar::to_number(&ev(r, env, c)?, t);
                let aop = match op {
                    BinOp::Add => ArithOp::Add,
                    BinOp::Sub => ArithOp::Sub,
                    BinOp::Mul => ArithOp::Mul,
                    BinOp::Div => ArithOp::Div,
                    _ => ArithOp::Mod,
                };
                Ok(Value::Num(scalar::arith(aop, a, b)))
            }
            BinOp::Union => {
                let a = ev(l, env, c)?;
                let b = ev(r, env, c)?;
                match (a, b) {
                    (Value::NodeSet(mut x), Value::NodeSet(y)) => {
                        x.extend(y);
                        x.sort_unstable();
                        x.dedup();
                        Ok(Value::NodeSet(x))
                    }
                    (a, b) => Err(EvalError::Type(format!(
                        "operands of | must be node-sets, got {} and {}",
                        a.type_name(),
                        b.type_name()
                    ))),
                }
            }
        },
        Expr::Call(name, args) => call(name, args, env, c),
        Expr::Path(p) => path(p, env, c),
    }
}

// ---------------------------------------------------------------------------
// paths

fn path(p: &PathExpr, env: &Env, c: Ctx) -> Result<Value, EvalError> {
    let mut cur: Vec<usize> = match &p.start {
        PathStart::Root => vec![0],
        PathStart::Context => vec![c.node],
        PathStart::Filter(prim, preds) => {
            let v = ev(prim, env, c)?;
            if preds.is_empty() && p.steps.is_empty() {
                return Ok(v);
            }
            let mut ns = match v {
                Value::NodeSet(ns) => ns,
                other => {
                    return Err(EvalError::Type(format!(
                        "a {} cannot be filtered by predicates or continued by a path",
                        other.type_name()
                    )))
                }
            };
            // predicates of a filter expression: child axis semantics = document order
            for pr in preds {
                crate::trace::note_order_use(env.tree, &ns);
                ns = filter(&ns, pr, env)?;
            }
            ns
        }
    };
    for step in &p.steps {
        // The QName of the node test is expanded when the step is evaluated,
        // even if there is no node to test: an unbound prefix is an error of
        // the step, not of a particular candidate node.
        let test = ResolvedTest::new(env, &step.test)?;
        let mut next: Vec<usize> = Vec::new();
        for &n in &cur {
            let mut cand = axis_nodes(env.tree, step.axis, n);
            // node test
            let mut kept = Vec::with_capacity(cand.len());
            for x in cand.drain(..) {
                if test.matches(env.tree, step.axis, x) {
                    kept.push(x);
                }
            }
            // `kept` is in axis order (reverse document order for reverse axes)
            for pr in &step.preds {
                kept = filter(&kept, pr, env)?;
            }
            next.extend(kept);
        }
        next.sort_unstable();
        next.dedup();
        cur = next;
    }
    Ok(Value::NodeSet(cur))
}

/// Keeps the nodes of `list` (taken in the given order: position i+1) for
/// which the predicate holds.
fn filter(list: &[usize], pred: &Expr, env: &Env) -> Result<Vec<usize>, EvalError> {
    let size = list.len();
    let mut out = Vec::new();
    for (i, &n) in list.iter().enumerate() {
        let v = ev(pred, env, Ctx { node: n, pos: i + 1, size })?;
        let keep = match v {
            Value::Num(x) => x == (i + 1) as f64,
            other => scalar::to_boolean(&other),
        };
        if keep {
            out.push(n);
        }
    }
    Ok(out)
}

/// Nodes on `axis` from `n`, in axis order (document order for forward axes,
/// reverse document order for reverse axes).
pub fn axis_nodes(t: &XTree, axis: Axis, n: usize) -> Vec<usize> {
    let node = &t.nodes[n];
    let is_attr_or_ns = matches!(node.kind, Kind::Attribute | Kind::Namespace);
    match axis {
        Axis::SelfAxis => vec![n],
        Axis::Child => node.children.clone(),
        Axis::Attribute => node.attrs.clone(),
        Axis::Namespace => node.nss.clone(),
        Axis::Parent => node.parent.into_iter().collect(),
        Axis::Ancestor | Axis::AncestorOrSelf => {
            let mut v = Vec::new();
            if axis == Axis::AncestorOrSelf {
                v.push(n);
            }
            let mut cur = node.parent;
            while let Some(p) = cur {
                v.push(p);
                cur = t.nodes[p].parent;
            }
            v
        }
        Axis::Descendant | Axis::DescendantOrSelf => {
            let mut v = Vec::new();
            if axis == Axis::DescendantOrSelf {
                v.push(n);
            }
            let end = t.subtree_end(n);
            for j in n + 1..=end {
                if !matches!(t.nodes[j].kind, Kind::Attribute | Kind::Namespace) {
                    v.push(j);
                }
            }
            v
        }
        Axis::FollowingSibling => {
            if is_attr_or_ns {
                return Vec::new();
            }
            match node.parent {
                Some(p) => {
                    let ch = &t.nodes[p].children;
                    let i = ch.iter().position(|&x| x == n).expect("child of its parent");
                    ch[i + 1..].to_vec()
                }
                None => Vec::new(),
            }
        }
        Axis::PrecedingSibling => {
            if is_attr_or_ns {
                return Vec::new();
            }
            match node.parent {
                Some(p) => {
                    let ch = &t.nodes[p].children;
                    let i = ch.iter().position(|&x| x == n).expect("child of its parent");
                    ch[..i].iter().rev().copied().collect()
                }
                None => Vec::new(),
            }
        }
        Axis::Following => {
            if is_attr_or_ns {
                crate::trace::note_event("following-from-attr-or-ns");
            }
            // after the context node in document order, excluding descendants,
            // attribute nodes and namespace nodes.  An attribute/namespace
            // node has no descendants, so the content of its parent element
            // follows it.
            let end = if is_attr_or_ns { n } else { t.subtree_end(n) };
            (end + 1..t.nodes.len())
                .filter(|&j| !matches!(t.nodes[j].kind, Kind::Attribute | Kind::Namespace))
                .collect()
        }
        Axis::Preceding => {
            if is_attr_or_ns {
                crate::trace::note_event("preceding-from-attr-or-ns");
            }
            // before the context node in document order, excluding ancestors,
            // attribute nodes and namespace nodes
            let mut anc = Vec::new();
            let mut cur = node.parent;
            while let Some(p) = cur {
                anc.push(p);
                cur = t.nodes[p].parent;
            }
            (0..n)
                .rev()
                .filter(|j| {
                    !matches!(t.nodes[*j].kind, Kind::Attribute | Kind::Namespace) && !anc.contains(j)
                })
                .collect()
        }
    }
}

fn principal_kind(axis: Axis) -> Kind {
    match axis {
        Axis::Attribute => Kind::Attribute,
        Axis::Namespace => Kind::Namespace,
        _ => Kind::Element,
    }
}

/// A node test with its QName expanded against the expression context.
enum ResolvedTest<'a> {
    Node,
    Text,
    Comment,
    PI(Option<&'a str>),
    AnyName,
    /// `prefix:*` -> namespace URI
    NsAny(&'a str),
    /// expanded name: (namespace URI or None, local part)
    Name(Option<&'a str>, &'a str),
}

impl<'a> ResolvedTest<'a> {
    fn new(env: &Env<'a>, test: &'a NodeTest) -> Result<ResolvedTest<'a>, EvalError> {
        Ok(match test {
            NodeTest::Node => ResolvedTest::Node,
            NodeTest::Text => ResolvedTest::Text,
            NodeTest::Comment => ResolvedTest::Comment,
            NodeTest::PI(t) => ResolvedTest::PI(t.as_deref()),
            NodeTest::AnyName => ResolvedTest::AnyName,
            NodeTest::NsAny(p) => ResolvedTest::NsAny(env.resolve(p)?),
            NodeTest::Name(p, l) => ResolvedTest::Name(
                match p {
                    Some(p) => Some(env.resolve(p)?),
                    None => None,
                },
                l.as_str(),
            ),
        })
    }

    fn matches(&self, t: &XTree, axis: Axis, n: usize) -> bool {
        let node = &t.nodes[n];
        match self {
            ResolvedTest::Node => true,
            ResolvedTest::Text => node.kind == Kind::Text,
            ResolvedTest::Comment => node.kind == Kind::Comment,
            ResolvedTest::PI(None) => node.kind == Kind::PI,
            ResolvedTest::PI(Some(target)) => node.kind == Kind::PI && node.local == *target,
            ResolvedTest::AnyName => node.kind == principal_kind(axis),
            ResolvedTest::NsAny(uri) => {
                // the expanded-name of a namespace node has a null namespace URI
                node.kind == principal_kind(axis)
                    && node.kind != Kind::Namespace
                    && node.uri.as_deref() == Some(*uri)
            }
            ResolvedTest::Name(uri, local) => {
                if node.kind != principal_kind(axis) {
                    false
                } else if node.kind == Kind::Namespace {
                    // expanded-name of a namespace node: (null, prefix)
                    uri.is_none() && node.local == *local
                } else {
                    node.local == *local && node.uri.as_deref() == *uri
                }
            }
        }
    }
}

// ---------------------------------------------------------------------------
// core function library

/// (name, min args, max args); `usize::MAX` = unbounded
pub const CORE_FUNCTIONS: &[(&str, usize, usize)] = &[
    ("last", 0, 0),
    ("position", 0, 0),
    ("count", 1, 1),
    ("id", 1, 1),
    ("local-name", 0, 1),
    ("namespace-uri", 0, 1),
    ("name", 0, 1),
    ("string", 0, 1),
    ("concat", 2, usize::MAX),
    ("starts-with", 2, 2),
    ("contains", 2, 2),
    ("substring-before", 2, 2),
    ("substring-after", 2, 2),
    ("substring", 2, 3),
    ("string-length", 0, 1),
    ("normalize-space", 0, 1),
    ("translate", 3, 3),
    ("boolean", 1, 1),
    ("not", 1, 1),
    ("true", 0, 0),
    ("false", 0, 0),
    ("lang", 1, 1),
    ("number", 0, 1),
    ("sum", 1, 1),
    ("floor", 1, 1),
    ("ceiling", 1, 1),
    ("round", 1, 1),
];

pub fn core_function_arity(name: &str) -> Option<(usize, usize)> {
    CORE_FUNCTIONS.iter().find(|f| f.0 == name).map(|f| (f.1, f.2))
}

fn call(name: &str, args: &[Expr], env: &Env, c: Ctx) -> Result<Value, EvalError> {
    let t = env.tree;
    let (min, max) = core_function_arity(name).ok_or_else(|| EvalError::UnknownFunction(name.to_string()))?;
    if args.len() < min || args.len() > max {
        return Err(EvalError::Arity(name.to_string()));
    }
    // evaluate arguments left to right
    let mut vals = Vec::with_capacity(args.len());
    for a in args {
        vals.push(ev(a, env, c)?);
    }
    let str_arg = |i: usize| -> String { scalar::to_string(&vals[i], t) };
    let num_arg = |i: usize| -> f64 { scalar::to_number(&vals[i], t) };
    let nodeset_arg = |i: usize| -> Result<&Vec<usize>, EvalError> {
        match &vals[i] {
            Value::NodeSet(ns) => Ok(ns),
            other => Err(EvalError::Type(format!(
                "argument {} of {}() must be a node-set, got {}",
                i + 1,
                name,
                other.type_name()
            ))),
        }
    };
    // optional node-set argument defaulting to the context node: first node in document order
    let opt_node = || -> Result<Option<usize>, EvalError> {
        if vals.is_empty() {
            Ok(Some(c.node))
        } else {
            let ns = nodeset_arg(0)?;
            crate::trace::note_order_use(t, ns);
            Ok(ns.first().copied())
        }
    };
    // optional string argument defaulting to the string-value of the context node
    let opt_str = || -> String {
        if vals.is_empty() {
            t.string_value(c.node)
        } else {
            str_arg(0)
        }
    };
    Ok(match name {
        "last" => Value::Num(c.size as f64),
        "position" => Value::Num(c.pos as f64),
        "count" => Value::Num(nodeset_arg(0)?.len() as f64),
        "id" => return Err(EvalError::Unsupported("id".to_string())),
        "local-name" => Value::Str(match opt_node()? {
            Some(n) => t.expanded_name(n).map(|(_, l)| l.to_string()).unwrap_or_default(),
            None => String::new(),
        }),
        "namespace-uri" => Value::Str(match opt_node()? {
            Some(n) => t
                .expanded_name(n)
                .and_then(|(u, _)| u.map(|u| u.to_string()))
                .unwrap_or_default(),
            None => String::new(),
        }),
        "name" => Value::Str(match opt_node()? {
            Some(n) => t.name(n),
            None => String::new(),
        }),
        "string" => Value::Str(opt_str()),
        "concat" => {
            let mut s = String::new();
            for i in 0..vals.len() {
                s.push_str(&str_arg(i));
            }
            Value::Str(s)
        }
        "starts-with" => Value::Bool(scalar::starts_with(&str_arg(0), &str_arg(1))),
        "contains" => Value::Bool(scalar::contains(&str_arg(0), &str_arg(1))),
        "substring-before" => Value::Str(scalar::substring_before(&str_arg(0), &str_arg(1))),
        "substring-after" => Value::Str(scalar::substring_after(&str_arg(0), &str_arg(1))),
        "substring" => {
            let len = if vals.len() == 3 { Some(num_arg(2)) } else { None };
            Value::Str(scalar::substring(&str_arg(0), num_arg(1), len))
        }
        "string-length" => Value::Num(scalar::string_length(&opt_str())),
        "normalize-space" => Value::Str(scalar::normalize_space(&opt_str())),
        "translate" => Value::Str(scalar::translate(&str_arg(0), &str_arg(1), &str_arg(2))),
        "boolean" => Value::Bool(scalar::to_boolean(&vals[0])),
        "not" => Value::Bool(!scalar::to_boolean(&vals[0])),
        "true" => Value::Bool(true),
        "false" => Value::Bool(false),
        "lang" => Value::Bool(lang(t, c.node, &str_arg(0))),
        "number" => Value::Num(if vals.is_empty() {
            scalar::string_to_number(&t.string_value(c.node))
        } else {
            num_arg(0)
        }),
        "sum" => {
            let mut s = 0.0f64;
            for &n in nodeset_arg(0)? {
                s += scalar::string_to_number(&t.string_value(n));
            }
            Value::Num(s)
        }
        "floor" => Value::Num(scalar::xpath_floor(num_arg(0))),
        "ceiling" => Value::Num(scalar::xpath_ceiling(num_arg(0))),
        "round" => Value::Num(scalar::xpath_round(num_arg(0))),
        _ => unreachable!("function table and dispatch out of sync: {}", name),
    })
}

/// The language of `node`: value of the nearest `xml:lang` attribute on
/// ancestor-or-self (None if there is none).
pub fn language_of(t: &XTree, node: usize) -> Option<&str> {
    let mut cur = Some(node);
    while let Some(n) = cur {
        for &a in &t.nodes[n].attrs {
            let an = &t.nodes[a];
            if an.local == "lang" && an.uri.as_deref() == Some(XML_NS) {
                return Some(an.value.as_str());
            }
        }
        cur = t.nodes[n].parent;
    }
    None
}

fn lang(t: &XTree, node: usize, arg: &str) -> bool {
    if t.nodes[node].kind == Kind::Namespace {
        crate::trace::note_event("lang-on-namespace-node");
    }
    match language_of(t, node) {
        Some(v) => scalar::lang_matches(v, arg),
        None => false,
    }
}

// ---------------------------------------------------------------------------
// static checks

/// Reports the first (pre-order, left to right) statically detectable error
/// anywhere in the expression, evaluated or not: variable references, unknown
/// functions, wrong arity, unbound prefixes in name tests.
pub fn static_check(expr: &Expr, ns: &[(String, String)]) -> Result<(), EvalError> {
    let chk_prefix = |p: &str| -> Result<(), EvalError> {
        if ns.iter().any(|(q, _)| q == p) {
            Ok(())
        } else {
            Err(EvalError::UnboundPrefix(p.to_string()))
        }
    };
    match expr {
        Expr::Literal(_) | Expr::Number(_) => Ok(()),
        Expr::Var(n) => Err(EvalError::Variable(n.clone())),
        Expr::Neg(x) => static_check(x, ns),
        Expr::Bin(_, l, r) => {
            static_check(l, ns)?;
            static_check(r, ns)
        }
        Expr::Call(name, args) => {
            let (min, max) =
                core_function_arity(name).ok_or_else(|| EvalError::UnknownFunction(name.clone()))?;
            if args.len() < min || args.len() > max {
                return Err(EvalError::Arity(name.clone()));
            }
            for a in args {
                static_check(a, ns)?;
            }
            Ok(())
        }
        Expr::Path(p) => {
            if let PathStart::Filter(prim, preds) = &p.start {
                static_check(prim, ns)?;
                for pr in preds {
                    static_check(pr, ns)?;
                }
            }
            for s in &p.steps {
                match &s.test {
                    NodeTest::NsAny(p) | NodeTest::Name(Some(p), _) => chk_prefix(p)?,
                    _ => {}
                }
                for pr in &s.preds {
                    static_check(pr, ns)?;
                }
            }
            Ok(())
        }
    }
}
