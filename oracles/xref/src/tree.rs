//! XPath 1.0 data model (REC-xpath-19991116 section 5) as an arena tree.
//!
//! Nodes are stored in *document order*: the root node, then for every
//! element: the element, its namespace nodes, its attribute nodes, then its
//! children (recursively).  A node-set is therefore a sorted, duplicate-free
//! `Vec<usize>` of arena indices.

pub const XML_NS: &str = "http://www.w3.org/XML/1998/namespace";
pub const XMLNS_NS: &str = "http://www.w3.org/2000/xmlns/";

#[derive(Clone, Copy, Debug, PartialEq, Eq, Hash)]
pub enum Kind {
    Root,
    Element,
    Attribute,
    Namespace,
    Text,
    Comment,
    PI,
}

#[derive(Clone, Debug)]
pub struct XNode {
    pub kind: Kind,
    /// element/attribute: prefix as written; everything else: None
    pub prefix: Option<String>,
    /// element/attribute local part; PI target; namespace node: the prefix it
    /// binds ("" for the default namespace); otherwise ""
    pub local: String,
    /// namespace URI of the expanded name (element/attribute); None = no namespace
    pub uri: Option<String>,
    /// attribute value / text / comment / PI data / namespace URI; "" for root & element
    pub value: String,
    pub parent: Option<usize>,
    /// element/root: child nodes (elements, text, comments, PIs)
    pub children: Vec<usize>,
    /// element only
    pub attrs: Vec<usize>,
    /// element only: in-scope namespace nodes (incl. the implicit xml binding)
    pub nss: Vec<usize>,
}

#[derive(Clone, Debug)]
pub struct XTree {
    /// nodes[0] is the root node
    pub nodes: Vec<XNode>,
}

impl XTree {
    pub fn len(&self) -> usize {
        self.nodes.len()
    }

    pub fn is_empty(&self) -> bool {
        self.nodes.is_empty()
    }

    pub fn node(&self, i: usize) -> &XNode {
        &self.nodes[i]
    }

    /// Index of the document element, if any.
    pub fn document_element(&self) -> Option<usize> {
        self.nodes[0]
            .children
            .iter()
            .copied()
            .find(|&c| self.nodes[c].kind == Kind::Element)
    }

    /// String-value (section 5.1 - 5.7).
    pub fn string_value(&self, i: usize) -> String {
        let n = &self.nodes[i];
        match n.kind {
            Kind::Root | Kind::Element => {
                let mut s = String::new();
                // descendants occupy the contiguous index range (i, subtree_end]
                let end = self.subtree_end(i);
                for j in i + 1..=end {
                    if self.nodes[j].kind == Kind::Text {
                        s.push_str(&self.nodes[j].value);
                    }
                }
                s
            }
            _ => n.value.clone(),
        }
    }

    /// Expanded-name: `Some((namespace uri or None, local part))` for
    /// element, attribute, PI (uri None, local = target) and namespace nodes
    /// (uri None, local = prefix); `None` for root, text and comment nodes.
    pub fn expanded_name(&self, i: usize) -> Option<(Option<&str>, &str)> {
        let n = &self.nodes[i];
        match n.kind {
            Kind::Element | Kind::Attribute => Some((n.uri.as_deref(), n.local.as_str())),
            Kind::PI | Kind::Namespace => Some((None, n.local.as_str())),
            _ => None,
        }
    }

    /// The QName as written for element/attribute, the target for a PI, the
    /// prefix for a namespace node, "" otherwise.
    pub fn name(&self, i: usize) -> String {
        let n = &self.nodes[i];
        match n.kind {
            Kind::Element | Kind::Attribute => match &n.prefix {
                Some(p) => format!("{}:{}", p, n.local),
                None => n.local.clone(),
            },
            Kind::PI | Kind::Namespace => n.local.clone(),
            _ => String::new(),
        }
    }

    /// Arena index of the last node (in document order) of the subtree rooted
    /// at `i`, including namespace and attribute nodes of elements.
    pub fn subtree_end(&self, i: usize) -> usize {
        let mut cur = i;
        loop {
            let n = &self.nodes[cur];
            if let Some(&c) = n.children.last() {
                cur = c;
            } else if let Some(&a) = n.attrs.last() {
                return a;
            } else if let Some(&x) = n.nss.last() {
                return x;
            } else {
                return cur;
            }
        }
    }

    /// Checks the structural invariants of the data model; used by tests.
    pub fn check_invariants(&self) -> Result<(), String> {
        if self.nodes.is_empty() || self.nodes[0].kind != Kind::Root {
            return Err("nodes[0] must be the root".into());
        }
        let mut expect = 0usize;
        self.check_rec(0, &mut expect)?;
        if expect != self.nodes.len() {
            return Err(format!("{} nodes reachable, {} stored", expect, self.nodes.len()));
        }
        Ok(())
    }

    fn check_rec(&self, i: usize, expect: &mut usize) -> Result<(), String> {
        if i != *expect {
            return Err(format!("node {} out of document order (expected {})", i, *expect));
        }
        *expect += 1;
        let n = &self.nodes[i];
        for &x in n.nss.iter().chain(n.attrs.iter()) {
            if x != *expect {
                return Err(format!("ns/attr node {} out of order", x));
            }
            if self.nodes[x].parent != Some(i) {
                return Err(format!("bad parent of {}", x));
            }
            *expect += 1;
        }
        let mut prev_text = false;
        for &c in &n.children {
            if self.nodes[c].parent != Some(i) {
                return Err(format!("bad parent of {}", c));
            }
            let is_text = self.nodes[c].kind == Kind::Text;
            if is_text && prev_text {
                return Err(format!("adjacent text nodes at {}", c));
            }
            if is_text && self.nodes[c].value.is_empty() {
                return Err(format!("empty text node at {}", c));
            }
            prev_text = is_text;
            self.check_rec(c, expect)?;
        }
        Ok(())
    }
}

/// Streaming builder producing nodes in document order.
pub struct TreeBuilder {
    nodes: Vec<XNode>,
    /// open elements (arena indices); the root node is the bottom entry
    stack: Vec<usize>,
    /// in-scope bindings per open element: (prefix or "" for default, uri)
    scopes: Vec<Vec<(String, String)>>,
}

impl Default for TreeBuilder {
    fn default() -> Self {
        Self::new()
    }
}

fn blank(kind: Kind, parent: Option<usize>) -> XNode {
    XNode {
        kind,
        prefix: None,
        local: String::new(),
        uri: None,
        value: String::new(),
        parent,
        children: Vec::new(),
        attrs: Vec::new(),
        nss: Vec::new(),
    }
}

impl TreeBuilder {
    pub fn new() -> Self {
        TreeBuilder {
            nodes: vec![blank(Kind::Root, None)],
            stack: vec![0],
            scopes: vec![vec![("xml".to_string(), XML_NS.to_string())]],
        }
    }

    /// Opens an element.  `ns_decls`: `(prefix, uri)`, prefix `None` = default
    /// namespace, uri "" undeclares the default namespace.  `attrs`:
    /// `(prefix, local, value)`.  Returns the arena index of the element.
    /// Panics on an unbound prefix or an illegal declaration (use
    /// [`TreeBuilder::try_start_element`] for a `Result`).
    pub fn start_element(
        &mut self,
        prefix: Option<&str>,
        local: &str,
        ns_decls: &[(Option<String>, String)],
        attrs: &[(Option<String>, String, String)],
    ) -> usize {
        self.try_start_element(prefix, local, ns_decls, attrs)
            .unwrap_or_else(|e| panic!("TreeBuilder::start_element: {}", e))
    }

    pub fn try_start_element(
        &mut self,
        prefix: Option<&str>,
        local: &str,
        ns_decls: &[(Option<String>, String)],
        attrs: &[(Option<String>, String, String)],
    ) -> Result<usize, String> {
        // 1. compute the scope
        let mut scope = self.scopes.last().unwrap().clone();
        for (k, (p, u)) in ns_decls.iter().enumerate() {
            let key = p.clone().unwrap_or_default();
            if ns_decls[..k].iter().any(|(p2, _)| p2 == p) {
                return Err(format!("duplicate namespace declaration for {:?}", key));
            }
            match p.as_deref() {
                Some("xmlns") => return Err("the prefix xmlns cannot be declared".into()),
                Some("xml") if u != XML_NS => return Err("xml prefix bound to a wrong URI".into()),
                Some("") => return Err("empty prefix (use None for the default namespace)".into()),
                Some(_) if u.is_empty() => {
                    return Err(format!("xmlns:{}=\"\" is not allowed in Namespaces 1.0", key))
                }
                _ => {}
            }
            if p.as_deref() != Some("xml") && (u == XML_NS || u == XMLNS_NS) {
                return Err(format!("reserved namespace URI bound to {:?}", key));
            }
            let pos = scope.iter().position(|(sp, _)| *sp == key);
            if u.is_empty() {
                // xmlns="" : undeclare the default namespace
                if let Some(pos) = pos {
                    scope.remove(pos);
                }
            } else if let Some(pos) = pos {
                scope[pos].1 = u.clone();
            } else {
                scope.push((key, u.clone()));
            }
        }
        let lookup = |p: &str| -> Option<String> {
            scope.iter().find(|(sp, _)| sp == p).map(|(_, u)| u.clone())
        };
        // 2. element name
        let el_uri = match prefix {
            Some(p) => Some(lookup(p).ok_or_else(|| format!("unbound element prefix {:?}", p))?),
            None => lookup(""),
        };
        // 3. attributes
        let mut resolved = Vec::with_capacity(attrs.len());
        for (p, l, v) in attrs {
            let uri = match p.as_deref() {
                Some("xmlns") => return Err("xmlns declarations are not attributes".into()),
                Some(p) => Some(lookup(p).ok_or_else(|| format!("unbound attribute prefix {:?}", p))?),
                None => {
                    if l == "xmlns" {
                        return Err("xmlns declarations are not attributes".into());
                    }
                    None
                }
            };
            if resolved
                .iter()
                .any(|(_, l2, u2, _): &(Option<String>, String, Option<String>, String)| l2 == l && *u2 == uri)
            {
                return Err(format!("duplicate attribute {:?}", l));
            }
            resolved.push((p.clone(), l.clone(), uri, v.clone()));
        }
        // 4. create nodes in document order
        let parent = *self.stack.last().unwrap();
        let idx = self.nodes.len();
        let mut el = blank(Kind::Element, Some(parent));
        el.prefix = prefix.map(|s| s.to_string());
        el.local = local.to_string();
        el.uri = el_uri;
        self.nodes.push(el);
        self.nodes[parent].children.push(idx);
        for (p, u) in &scope {
            let ni = self.nodes.len();
            let mut n = blank(Kind::Namespace, Some(idx));
            n.local = p.clone();
            n.value = u.clone();
            self.nodes.push(n);
            self.nodes[idx].nss.push(ni);
        }
        for (p, l, u, v) in resolved {
            let ai = self.nodes.len();
            let mut n = blank(Kind::Attribute, Some(idx));
            n.prefix = p;
            n.local = l;
            n.uri = u;
            n.value = v;
            self.nodes.push(n);
            self.nodes[idx].attrs.push(ai);
        }
        self.stack.push(idx);
        self.scopes.push(scope);
        Ok(idx)
    }

    pub fn end_element(&mut self) {
        assert!(self.stack.len() > 1, "end_element without open element");
        self.stack.pop();
        self.scopes.pop();
    }

    /// Adds character data.  Merges with an immediately preceding text node
    /// and drops empty text.  Text outside the document element is ignored
    /// (the root node has no text children in the data model).
    pub fn text(&mut self, s: &str) {
        if s.is_empty() || self.stack.len() == 1 {
            return;
        }
        let parent = *self.stack.last().unwrap();
        if let Some(&last) = self.nodes[parent].children.last() {
            if self.nodes[last].kind == Kind::Text {
                // a text node is a leaf, so `last` is also the last arena node
                self.nodes[last].value.push_str(s);
                return;
            }
        }
        let idx = self.nodes.len();
        let mut n = blank(Kind::Text, Some(parent));
        n.value = s.to_string();
        self.nodes.push(n);
        self.nodes[parent].children.push(idx);
    }

    pub fn comment(&mut self, s: &str) -> usize {
        let parent = *self.stack.last().unwrap();
        let idx = self.nodes.len();
        let mut n = blank(Kind::Comment, Some(parent));
        n.value = s.to_string();
        self.nodes.push(n);
        self.nodes[parent].children.push(idx);
        idx
    }

    pub fn pi(&mut self, target: &str, data: &str) -> usize {
        let parent = *self.stack.last().unwrap();
        let idx = self.nodes.len();
        let mut n = blank(Kind::PI, Some(parent));
        n.local = target.to_string();
        n.value = data.to_string();
        self.nodes.push(n);
        self.nodes[parent].children.push(idx);
        idx
    }

    /// Number of currently open elements.
    pub fn depth(&self) -> usize {
        self.stack.len() - 1
    }

    /// The URI currently bound to `prefix` ("" = default namespace).
    pub fn lookup(&self, prefix: &str) -> Option<&str> {
        self.scopes
            .last()
            .unwrap()
            .iter()
            .find(|(p, _)| p == prefix)
            .map(|(_, u)| u.as_str())
    }

    pub fn finish(mut self) -> XTree {
        while self.stack.len() > 1 {
            self.end_element();
        }
        XTree { nodes: self.nodes }
    }
}

fn esc_text(s: &str, out: &mut String) {
    for c in s.chars() {
        match c {
            '&' => out.push_str("&amp;"),
            '<' => out.push_str("&lt;"),
            '>' => out.push_str("&gt;"),
            '\r' => out.push_str("&#13;"),
            _ => out.push(c),
        }
    }
}

fn esc_attr(s: &str, out: &mut String) {
    for c in s.chars() {
        match c {
            '&' => out.push_str("&amp;"),
            '<' => out.push_str("&lt;"),
            '>' => out.push_str("&gt;"),
            '"' => out.push_str("&quot;"),
            '\r' => out.push_str("&#13;"),
            '\n' => out.push_str("&#10;"),
            '\t' => out.push_str("&#9;"),
            _ => out.push(c),
        }
    }
}

/// Serialises the tree.  Namespace declarations are derived from the
/// namespace nodes (difference to the parent element's in-scope set).
/// Comments containing "--" / ending in "-" and PI data containing "?>"
/// cannot be represented in XML; the producer must avoid them.
pub fn to_xml(t: &XTree) -> String {
    let mut out = String::new();
    for &c in &t.nodes[0].children {
        write_node(t, c, &mut out);
    }
    out
}

/// Model of an in-place edit for [`to_xml_edited`]: the children of every
/// selected element are replaced by the raw fragment text, the value of every
/// selected attribute by `attr_value`; a selected root node makes the whole
/// output the fragment.
pub struct Edit<'a> {
    pub selected: &'a [usize],
    pub fragment: &'a str,
    pub attr_value: &'a str,
}

/// Serialises the tree with the edit applied (see [`Edit`]).
pub fn to_xml_edited(t: &XTree, ed: &Edit) -> String {
    if ed.selected.contains(&0) {
        return ed.fragment.to_string();
    }
    let mut out = String::new();
    for &c in &t.nodes[0].children {
        write_node_ed(t, c, &mut out, Some(ed));
    }
    out
}

fn write_node(t: &XTree, i: usize, out: &mut String) {
    write_node_ed(t, i, out, None)
}

fn write_node_ed(t: &XTree, i: usize, out: &mut String, ed: Option<&Edit>) {
    let n = &t.nodes[i];
    match n.kind {
        Kind::Element => {
            out.push('<');
            let qn = t.name(i);
            out.push_str(&qn);
            // namespace declarations: in-scope set minus the parent's set
            let parent_scope: Vec<(&str, &str)> = match n.parent {
                Some(p) if t.nodes[p].kind == Kind::Element => t.nodes[p]
                    .nss
                    .iter()
                    .map(|&x| (t.nodes[x].local.as_str(), t.nodes[x].value.as_str()))
                    .collect(),
                _ => vec![("xml", XML_NS)],
            };
            for &x in &n.nss {
                let (p, u) = (t.nodes[x].local.as_str(), t.nodes[x].value.as_str());
                if parent_scope.iter().any(|&(pp, pu)| pp == p && pu == u) {
                    continue;
                }
                if p.is_empty() {
                    out.push_str(" xmlns=\"");
                } else {
                    out.push_str(" xmlns:");
                    out.push_str(p);
                    out.push_str("=\"");
                }
                esc_attr(u, out);
                out.push('"');
            }
            // default namespace undeclared here?
            if parent_scope.iter().any(|&(pp, _)| pp.is_empty())
                && !n.nss.iter().any(|&x| t.nodes[x].local.is_empty())
            {
                out.push_str(" xmlns=\"\"");
            }
            for &a in &n.attrs {
                out.push(' ');
                out.push_str(&t.name(a));
                out.push_str("=\"");
                match ed {
                    Some(e) if e.selected.contains(&a) => esc_attr(e.attr_value, out),
                    _ => esc_attr(&t.nodes[a].value, out),
                }
                out.push('"');
            }
            if let Some(e) = ed.filter(|e| e.selected.contains(&i)) {
                out.push('>');
                out.push_str(e.fragment);
                out.push_str("</");
                out.push_str(&qn);
                out.push('>');
            } else if n.children.is_empty() {
                out.push_str("/>");
            } else {
                out.push('>');
                for &c in &n.children {
                    write_node_ed(t, c, out, ed);
                }
                out.push_str("</");
                out.push_str(&qn);
                out.push('>');
            }
        }
        Kind::Text => esc_text(&n.value, out),
        Kind::Comment => {
            out.push_str("<!--");
            out.push_str(&n.value);
            out.push_str("-->");
        }
        Kind::PI => {
            out.push_str("<?");
            out.push_str(&n.local);
            if !n.value.is_empty() {
                out.push(' ');
                out.push_str(&n.value);
            }
            out.push_str("?>");
        }
        Kind::Root | Kind::Attribute | Kind::Namespace => {}
    }
}

// ---------------------------------------------------------------------------
// minimal XML reader (tests / replaying cases)

/// Minimal non-validating reader for the XML subset that [`to_xml`] emits
/// (plus CDATA sections, `'`-quoted attributes, decimal/hex character
/// references, the five predefined entities and an XML declaration).  No
/// DOCTYPE.  Line ends and attribute values are normalised as XML 1.0
/// requires (literal CR LF / CR -> LF; literal tab/LF in attribute values ->
/// space).  Intended for tests and for replaying generated documents, not as
/// an oracle for XML parsing.
pub fn from_xml(src: &str) -> Result<XTree, String> {
    let normalized = src.replace("\r\n", "\n").replace('\r', "\n");
    let cs: Vec<char> = normalized.chars().collect();
    let mut b = TreeBuilder::new();
    let mut open: Vec<String> = Vec::new();
    let mut i = 0usize;
    let n = cs.len();
    let starts = |i: usize, pat: &str| -> bool {
        let p: Vec<char> = pat.chars().collect();
        i + p.len() <= n && cs[i..i + p.len()] == p[..]
    };
    let find = |from: usize, pat: &str| -> Option<usize> {
        let p: Vec<char> = pat.chars().collect();
        (from..=n.saturating_sub(p.len())).find(|&j| cs[j..j + p.len()] == p[..])
    };
    fn split_qname(q: &str) -> (Option<String>, String) {
        match q.split_once(':') {
            Some((p, l)) => (Some(p.to_string()), l.to_string()),
            None => (None, q.to_string()),
        }
    }
    fn unescape(s: &str, attr: bool) -> Result<String, String> {
        let mut out = String::new();
        let mut rest = s;
        while let Some(pos) = rest.find('&') {
            let head = &rest[..pos];
            push_norm(&mut out, head, attr);
            let semi = rest[pos..].find(';').ok_or("unterminated reference")? + pos;
            let name = &rest[pos + 1..semi];
            match name {
                "amp" => out.push('&'),
                "lt" => out.push('<'),
                "gt" => out.push('>'),
                "quot" => out.push('"'),
                "apos" => out.push('\''),
                _ => {
                    let code = if let Some(h) = name.strip_prefix("#x") {
                        u32::from_str_radix(h, 16).map_err(|e| e.to_string())?
                    } else if let Some(d) = name.strip_prefix('#') {
                        d.parse::<u32>().map_err(|e| e.to_string())?
                    } else {
                        return Err(format!("unknown entity &{};", name));
                    };
                    out.push(char::from_u32(code).ok_or("bad character reference")?);
                }
            }
            rest = &rest[semi + 1..];
        }
        push_norm(&mut out, rest, attr);
        Ok(out)
    }
    fn push_norm(out: &mut String, s: &str, attr: bool) {
        if attr {
            for c in s.chars() {
                out.push(if c == '\n' || c == '\t' { ' ' } else { c });
            }
        } else {
            out.push_str(s);
        }
    }
    let is_name_char = |c: char| !(c.is_whitespace() || matches!(c, '=' | '/' | '>' | '<' | '"' | '\'' | '?'));
    while i < n {
        if starts(i, "<!--") {
            let e = find(i + 4, "-->").ok_or("unterminated comment")?;
            let s: String = cs[i + 4..e].iter().collect();
            b.comment(&s);
            i = e + 3;
        } else if starts(i, "<![CDATA[") {
            let e = find(i + 9, "]]>").ok_or("unterminated CDATA")?;
            let s: String = cs[i + 9..e].iter().collect();
            b.text(&s);
            i = e + 3;
        } else if starts(i, "<?") {
            let e = find(i + 2, "?>").ok_or("unterminated PI")?;
            let s: String = cs[i + 2..e].iter().collect();
            let (target, data) = match s.find(|c: char| c.is_whitespace()) {
                Some(p) => (&s[..p], s[p..].trim_start()),
                None => (s.as_str(), ""),
            };
            if target != "xml" {
                b.pi(target, data);
            }
            i = e + 2;
        } else if starts(i, "<!") {
            return Err("DOCTYPE / markup declarations are not supported".into());
        } else if starts(i, "</") {
            let e = find(i, ">").ok_or("unterminated end tag")?;
            let name: String = cs[i + 2..e].iter().collect();
            let name = name.trim().to_string();
            match open.pop() {
                Some(o) if o == name => {}
                o => return Err(format!("end tag {:?} does not match {:?}", name, o)),
            }
            b.end_element();
            i = e + 1;
        } else if cs[i] == '<' {
            let mut j = i + 1;
            let s0 = j;
            while j < n && is_name_char(cs[j]) {
                j += 1;
            }
            let qname: String = cs[s0..j].iter().collect();
            if qname.is_empty() {
                return Err(format!("bad start tag at {}", i));
            }
            let mut decls: Vec<(Option<String>, String)> = Vec::new();
            let mut attrs: Vec<(Option<String>, String, String)> = Vec::new();
            let empty;
            loop {
                while j < n && cs[j].is_whitespace() {
                    j += 1;
                }
                if j >= n {
                    return Err("unterminated start tag".into());
                }
                if cs[j] == '>' {
                    empty = false;
                    j += 1;
                    break;
                }
                if cs[j] == '/' && j + 1 < n && cs[j + 1] == '>' {
                    empty = true;
                    j += 2;
                    break;
                }
                let a0 = j;
                while j < n && is_name_char(cs[j]) {
                    j += 1;
                }
                let an: String = cs[a0..j].iter().collect();
                while j < n && cs[j].is_whitespace() {
                    j += 1;
                }
                if j >= n || cs[j] != '=' || an.is_empty() {
                    return Err(format!("bad attribute at {}", a0));
                }
                j += 1;
                while j < n && cs[j].is_whitespace() {
                    j += 1;
                }
                if j >= n || (cs[j] != '"' && cs[j] != '\'') {
                    return Err(format!("attribute value expected at {}", j));
                }
                let q = cs[j];
                let v0 = j + 1;
                j = v0;
                while j < n && cs[j] != q {
                    j += 1;
                }
                if j >= n {
                    return Err("unterminated attribute value".into());
                }
                let raw: String = cs[v0..j].iter().collect();
                j += 1;
                let val = unescape(&raw, true)?;
                if an == "xmlns" {
                    decls.push((None, val));
                } else if let Some(p) = an.strip_prefix("xmlns:") {
                    decls.push((Some(p.to_string()), val));
                } else {
                    let (p, l) = split_qname(&an);
                    attrs.push((p, l, val));
                }
            }
            let (p, l) = split_qname(&qname);
            b.try_start_element(p.as_deref(), &l, &decls, &attrs)?;
            if empty {
                b.end_element();
            } else {
                open.push(qname);
            }
            i = j;
        } else {
            let e = find(i, "<").unwrap_or(n);
            let raw: String = cs[i..e].iter().collect();
            b.text(&unescape(&raw, false)?);
            i = e;
        }
    }
    if !open.is_empty() {
        return Err(format!("unclosed element {:?}", open.last().unwrap()));
    }
    Ok(b.finish())
}
