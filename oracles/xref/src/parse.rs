//! Hand-written XPath 1.0 parser following the grammar of the recommendation
//! and the lexical disambiguation rules of section 3.7.

use crate::ast::*;
use crate::scalar::parse_number_token;

/// NameStartChar of XML 1.0 (5th edition) without ':'.
pub fn is_ncname_start(c: char) -> bool {
    matches!(c,
        'A'..='Z' | '_' | 'a'..='z'
        | '\u{C0}'..='\u{D6}' | '\u{D8}'..='\u{F6}' | '\u{F8}'..='\u{2FF}'
        | '\u{370}'..='\u{37D}' | '\u{37F}'..='\u{1FFF}' | '\u{200C}'..='\u{200D}'
        | '\u{2070}'..='\u{218F}' | '\u{2C00}'..='\u{2FEF}' | '\u{3001}'..='\u{D7FF}'
        | '\u{F900}'..='\u{FDCF}' | '\u{FDF0}'..='\u{FFFD}' | '\u{10000}'..='\u{EFFFF}')
}

/// NameChar of XML 1.0 (5th edition) without ':'.
pub fn is_ncname_char(c: char) -> bool {
    is_ncname_start(c)
        || matches!(c, '-' | '.' | '0'..='9' | '\u{B7}' | '\u{300}'..='\u{36F}' | '\u{203F}'..='\u{2040}')
}

pub fn is_ncname(s: &str) -> bool {
    let mut it = s.chars();
    match it.next() {
        Some(c) if is_ncname_start(c) => it.all(is_ncname_char),
        _ => false,
    }
}

#[derive(Clone, Debug, PartialEq)]
enum Tok {
    LParen,
    RParen,
    LBrack,
    RBrack,
    Dot,
    DotDot,
    At,
    Comma,
    ColonColon,
    Literal(String),
    Number(f64),
    /// operators
    Slash,
    DSlash,
    Pipe,
    Plus,
    Minus,
    Eq,
    Ne,
    Lt,
    Le,
    Gt,
    Ge,
    And,
    Or,
    Mod,
    Div,
    Multiply,
    /// name tests
    Star,
    NsStar(String),
    QName(Option<String>, String),
    NodeType(String),
    FunctionName(String),
    AxisName(Axis),
    VarRef(String),
}

impl Tok {
    fn is_operator(&self) -> bool {
        matches!(
            self,
            Tok::Slash
                | Tok::DSlash
                | Tok::Pipe
                | Tok::Plus
                | Tok::Minus
                | Tok::Eq
                | Tok::Ne
                | Tok::Lt
                | Tok::Le
                | Tok::Gt
                | Tok::Ge
                | Tok::And
                | Tok::Or
                | Tok::Mod
                | Tok::Div
                | Tok::Multiply
        )
    }
}

fn is_ws(c: char) -> bool {
    matches!(c, ' ' | '\t' | '\r' | '\n')
}

/// The raw text of every Number token of `src`, in order (for diagnostics:
/// engines differ in how precisely they convert long literals).
pub fn number_tokens(src: &str) -> Result<Vec<String>, String> {
    let mut raw = Vec::new();
    lex_with(src, &mut raw)?;
    Ok(raw)
}

fn lex(src: &str) -> Result<Vec<Tok>, String> {
    lex_with(src, &mut Vec::new())
}

fn lex_with(src: &str, raw_numbers: &mut Vec<String>) -> Result<Vec<Tok>, String> {
    let cs: Vec<char> = src.chars().collect();
    let mut toks: Vec<Tok> = Vec::new();
    let mut i = 0usize;
    let n = cs.len();
    let skip_ws = |mut j: usize| -> usize {
        while j < n && is_ws(cs[j]) {
            j += 1;
        }
        j
    };
    let read_ncname = |j: usize| -> Option<usize> {
        if j < n && is_ncname_start(cs[j]) {
            let mut k = j + 1;
            while k < n && is_ncname_char(cs[k]) {
                k += 1;
            }
            Some(k)
        } else {
            None
        }
    };
    loop {
        i = skip_ws(i);
        if i >= n {
            break;
        }
        let c = cs[i];
        // rule 1 of section 3.7: is an operator expected here?
        let operator_position = match toks.last() {
            None => false,
            Some(t) => !(matches!(t, Tok::At | Tok::ColonColon | Tok::LParen | Tok::LBrack | Tok::Comma)
                || t.is_operator()),
        };
        match c {
            '(' => {
                toks.push(Tok::LParen);
                i += 1;
            }
            ')' => {
                toks.push(Tok::RParen);
                i += 1;
            }
            '[' => {
                toks.push(Tok::LBrack);
                i += 1;
            }
            ']' => {
                toks.push(Tok::RBrack);
                i += 1;
            }
            '@' => {
                toks.push(Tok::At);
                i += 1;
            }
            ',' => {
                toks.push(Tok::Comma);
                i += 1;
            }
            '|' => {
                toks.push(Tok::Pipe);
                i += 1;
            }
            '+' => {
                toks.push(Tok::Plus);
                i += 1;
            }
            '-' => {
                toks.push(Tok::Minus);
                i += 1;
            }
            '=' => {
                toks.push(Tok::Eq);
                i += 1;
            }
            '!' => {
                if i + 1 < n && cs[i + 1] == '=' {
                    toks.push(Tok::Ne);
                    i += 2;
                } else {
                    return Err(format!("'!' without '=' at {}", i));
                }
            }
            '<' => {
                if i + 1 < n && cs[i + 1] == '=' {
                    toks.push(Tok::Le);
                    i += 2;
                } else {
                    toks.push(Tok::Lt);
                    i += 1;
                }
            }
            '>' => {
                if i + 1 < n && cs[i + 1] == '=' {
                    toks.push(Tok::Ge);
                    i += 2;
                } else {
                    toks.push(Tok::Gt);
                    i += 1;
                }
            }
            '/' => {
                if i + 1 < n && cs[i + 1] == '/' {
                    toks.push(Tok::DSlash);
                    i += 2;
                } else {
                    toks.push(Tok::Slash);
                    i += 1;
                }
            }
            ':' => {
                if i + 1 < n && cs[i + 1] == ':' {
                    toks.push(Tok::ColonColon);
                    i += 2;
                } else {
                    return Err(format!("stray ':' at {}", i));
                }
            }
            '*' => {
                toks.push(if operator_position { Tok::Multiply } else { Tok::Star });
                i += 1;
            }
            '"' | '\'' => {
                let mut j = i + 1;
                while j < n && cs[j] != c {
                    j += 1;
                }
                if j >= n {
                    return Err(format!("unterminated literal starting at {}", i));
                }
                toks.push(Tok::Literal(cs[i + 1..j].iter().collect()));
                i = j + 1;
            }
            '$' => {
                let e1 = read_ncname(i + 1).ok_or_else(|| format!("'$' without a name at {}", i))?;
                let mut end = e1;
                if end + 1 < n && cs[end] == ':' {
                    if let Some(e2) = read_ncname(end + 1) {
                        end = e2;
                    }
                }
                toks.push(Tok::VarRef(cs[i + 1..end].iter().collect()));
                i = end;
            }
            '.' if i + 1 < n && cs[i + 1].is_ascii_digit() => {
                let mut j = i + 1;
                while j < n && cs[j].is_ascii_digit() {
                    j += 1;
                }
                let s: String = cs[i..j].iter().collect();
                toks.push(Tok::Number(parse_number_token(&s)));
                raw_numbers.push(s);
                i = j;
            }
            '.' => {
                if i + 1 < n && cs[i + 1] == '.' {
                    toks.push(Tok::DotDot);
                    i += 2;
                } else {
                    toks.push(Tok::Dot);
                    i += 1;
                }
            }
            '0'..='9' => {
                let mut j = i;
                while j < n && cs[j].is_ascii_digit() {
                    j += 1;
                }
                if j < n && cs[j] == '.' {
                    j += 1;
                    while j < n && cs[j].is_ascii_digit() {
                        j += 1;
                    }
                }
                let s: String = cs[i..j].iter().collect();
                toks.push(Tok::Number(parse_number_token(&s)));
                raw_numbers.push(s);
                i = j;
            }
            c if is_ncname_start(c) => {
                let e1 = read_ncname(i).unwrap();
                let first: String = cs[i..e1].iter().collect();
                // QName or prefix:* ?  (a following "::" is the axis separator)
                let mut prefix: Option<String> = None;
                let mut local = first;
                let mut end = e1;
                let mut ns_star = false;
                if end < n && cs[end] == ':' && !(end + 1 < n && cs[end + 1] == ':') {
                    if end + 1 < n && cs[end + 1] == '*' {
                        ns_star = true;
                        end += 2;
                    } else if let Some(e2) = read_ncname(end + 1) {
                        prefix = Some(local);
                        local = cs[end + 1..e2].iter().collect();
                        end = e2;
                    } else {
                        return Err(format!("bad QName at {}", i));
                    }
                }
                i = end;
                if ns_star {
                    if operator_position {
                        return Err(format!("operator expected before {}:*", local));
                    }
                    toks.push(Tok::NsStar(local));
                    continue;
                }
                let after = skip_ws(i);
                let next_is_paren = after < n && cs[after] == '(';
                let next_is_axis = after + 1 < n && cs[after] == ':' && cs[after + 1] == ':';
                if operator_position {
                    // must be an OperatorName
                    let t = match (prefix.is_none(), local.as_str()) {
                        (true, "and") => Tok::And,
                        (true, "or") => Tok::Or,
                        (true, "mod") => Tok::Mod,
                        (true, "div") => Tok::Div,
                        _ => return Err(format!("operator expected, found name {:?}", local)),
                    };
                    toks.push(t);
                } else if next_is_paren {
                    if prefix.is_none()
                        && matches!(local.as_str(), "comment" | "text" | "processing-instruction" | "node")
                    {
                        toks.push(Tok::NodeType(local));
                    } else {
                        toks.push(Tok::FunctionName(match prefix {
                            Some(p) => format!("{}:{}", p, local),
                            None => local,
                        }));
                    }
                } else if next_is_axis && prefix.is_none() {
                    let a = Axis::from_name(&local).ok_or_else(|| format!("unknown axis {:?}", local))?;
                    toks.push(Tok::AxisName(a));
                } else {
                    toks.push(Tok::QName(prefix, local));
                }
            }
            other => return Err(format!("unexpected character {:?} at {}", other, i)),
        }
    }
    Ok(toks)
}

struct Parser {
    toks: Vec<Tok>,
    pos: usize,
    depth: usize,
}

const MAX_DEPTH: usize = 400;

impl Parser {
    fn peek(&self) -> Option<&Tok> {
        self.toks.get(self.pos)
    }
    fn next(&mut self) -> Option<Tok> {
        let t = self.toks.get(self.pos).cloned();
        if t.is_some() {
            self.pos += 1;
        }
        t
    }
    fn eat(&mut self, t: &Tok) -> bool {
        if self.peek() == Some(t) {
            self.pos += 1;
            true
        } else {
            false
        }
    }
    fn expect(&mut self, t: Tok) -> Result<(), String> {
        if self.eat(&t) {
            Ok(())
        } else {
            Err(format!("expected {:?}, found {:?} (token {})", t, self.peek(), self.pos))
        }
    }

    fn expr(&mut self) -> Result<Expr, String> {
        self.depth += 1;
        if self.depth > MAX_DEPTH {
            return Err("expression nested too deeply".into());
        }
        let r = self.binary(1);
        self.depth -= 1;
        r
    }

    fn bin_op_at(&self, level: u8) -> Option<BinOp> {
        let op = match self.peek()? {
            Tok::Or => BinOp::Or,
            Tok::And => BinOp::And,
            Tok::Eq => BinOp::Eq,
            Tok::Ne => BinOp::Ne,
            Tok::Lt => BinOp::Lt,
            Tok::Le => BinOp::Le,
            Tok::Gt => BinOp::Gt,
            Tok::Ge => BinOp::Ge,
            Tok::Plus => BinOp::Add,
            Tok::Minus => BinOp::Sub,
            Tok::Multiply => BinOp::Mul,
            Tok::Div => BinOp::Div,
            Tok::Mod => BinOp::Mod,
            _ => return None,
        };
        if op.level() == level {
            Some(op)
        } else {
            None
        }
    }

    /// levels 1..=6: left-associative binary operators
    fn binary(&mut self, level: u8) -> Result<Expr, String> {
        if level > 6 {
            return self.unary();
        }
        let mut left = self.binary(level + 1)?;
        while let Some(op) = self.bin_op_at(level) {
            self.pos += 1;
            let right = self.binary(level + 1)?;
            left = Expr::bin(op, left, right);
        }
        Ok(left)
    }

    fn unary(&mut self) -> Result<Expr, String> {
        let mut negs = 0usize;
        while self.eat(&Tok::Minus) {
            negs += 1;
        }
        let mut e = self.union()?;
        for _ in 0..negs {
            e = Expr::neg(e);
        }
        Ok(e)
    }

    fn union(&mut self) -> Result<Expr, String> {
        let mut left = self.path_expr()?;
        while self.eat(&Tok::Pipe) {
            let right = self.path_expr()?;
            left = Expr::bin(BinOp::Union, left, right);
        }
        Ok(left)
    }

    fn at_step_start(&self) -> bool {
        matches!(
            self.peek(),
            Some(
                Tok::Dot
                    | Tok::DotDot
                    | Tok::At
                    | Tok::AxisName(_)
                    | Tok::Star
                    | Tok::NsStar(_)
                    | Tok::QName(_, _)
                    | Tok::NodeType(_)
            )
        )
    }

    fn path_expr(&mut self) -> Result<Expr, String> {
        match self.peek() {
            Some(Tok::Slash) => {
                self.pos += 1;
                let mut steps = Vec::new();
                if self.at_step_start() {
                    self.relative(&mut steps)?;
                }
                Ok(Expr::Path(PathExpr { start: PathStart::Root, steps }))
            }
            Some(Tok::DSlash) => {
                self.pos += 1;
                let mut steps = vec![Step::dslash()];
                self.relative(&mut steps)?;
                Ok(Expr::Path(PathExpr { start: PathStart::Root, steps }))
            }
            Some(Tok::LParen | Tok::Literal(_) | Tok::Number(_) | Tok::VarRef(_) | Tok::FunctionName(_)) => {
                let prim = self.primary()?;
                let preds = self.predicates()?;
                let mut steps = Vec::new();
                if self.eat(&Tok::Slash) {
                    self.relative(&mut steps)?;
                } else if self.eat(&Tok::DSlash) {
                    steps.push(Step::dslash());
                    self.relative(&mut steps)?;
                }
                if preds.is_empty() && steps.is_empty() {
                    Ok(prim)
                } else {
                    Ok(Expr::Path(PathExpr { start: PathStart::Filter(Box::new(prim), preds), steps }))
                }
            }
            _ => {
                let mut steps = Vec::new();
                self.relative(&mut steps)?;
                Ok(Expr::Path(PathExpr { start: PathStart::Context, steps }))
            }
        }
    }

    fn primary(&mut self) -> Result<Expr, String> {
        match self.next() {
            Some(Tok::LParen) => {
                let e = self.expr()?;
                self.expect(Tok::RParen)?;
                Ok(e)
            }
            Some(Tok::Literal(s)) => Ok(Expr::Literal(s)),
            Some(Tok::Number(v)) => Ok(Expr::Number(v)),
            Some(Tok::VarRef(n)) => Ok(Expr::Var(n)),
            Some(Tok::FunctionName(name)) => {
                self.expect(Tok::LParen)?;
                let mut args = Vec::new();
                if !self.eat(&Tok::RParen) {
                    loop {
                        args.push(self.expr()?);
                        if self.eat(&Tok::Comma) {
                            continue;
                        }
                        self.expect(Tok::RParen)?;
                        break;
                    }
                }
                Ok(Expr::Call(name, args))
            }
            t => Err(format!("primary expression expected, found {:?}", t)),
        }
    }

    fn predicates(&mut self) -> Result<Vec<Expr>, String> {
        let mut preds = Vec::new();
        while self.eat(&Tok::LBrack) {
            preds.push(self.expr()?);
            self.expect(Tok::RBrack)?;
        }
        Ok(preds)
    }

    fn relative(&mut self, steps: &mut Vec<Step>) -> Result<(), String> {
        loop {
            steps.push(self.step()?);
            if self.eat(&Tok::Slash) {
                continue;
            }
            if self.eat(&Tok::DSlash) {
                steps.push(Step::dslash());
                continue;
            }
            return Ok(());
        }
    }

    fn step(&mut self) -> Result<Step, String> {
        if self.eat(&Tok::Dot) {
            return Ok(Step::dot());
        }
        if self.eat(&Tok::DotDot) {
            return Ok(Step::dotdot());
        }
        let axis = if self.eat(&Tok::At) {
            Axis::Attribute
        } else if let Some(Tok::AxisName(a)) = self.peek() {
            let a = *a;
            self.pos += 1;
            self.expect(Tok::ColonColon)?;
            a
        } else {
            Axis::Child
        };
        let test = match self.next() {
            Some(Tok::Star) => NodeTest::AnyName,
            Some(Tok::NsStar(p)) => NodeTest::NsAny(p),
            Some(Tok::QName(p, l)) => NodeTest::Name(p, l),
            Some(Tok::NodeType(t)) => {
                self.expect(Tok::LParen)?;
                let test = match t.as_str() {
                    "node" => NodeTest::Node,
                    "text" => NodeTest::Text,
                    "comment" => NodeTest::Comment,
                    _ => {
                        if let Some(Tok::Literal(s)) = self.peek() {
                            let s = s.clone();
                            self.pos += 1;
                            NodeTest::PI(Some(s))
                        } else {
                            NodeTest::PI(None)
                        }
                    }
                };
                self.expect(Tok::RParen)?;
                test
            }
            t => return Err(format!("node test expected, found {:?}", t)),
        };
        let preds = self.predicates()?;
        Ok(Step { axis, test, preds })
    }
}

/// Parses an XPath 1.0 expression.
///
/// Shape of the result: abbreviations are expanded (`.`, `..`, `@`, `//`,
/// omitted `child::`); a parenthesised expression that is not followed by a
/// predicate or a `/` is returned as the inner expression itself; a primary
/// expression (literal, number, variable, call) that is not followed by a
/// predicate or a `/` is returned directly, not wrapped in a `Path`.
pub fn parse(src: &str) -> Result<Expr, String> {
    let toks = lex(src)?;
    if toks.is_empty() {
        return Err("empty expression".into());
    }
    let mut p = Parser { toks, pos: 0, depth: 0 };
    let e = p.expr()?;
    if p.pos != p.toks.len() {
        return Err(format!("unexpected token {:?} at token {}", p.toks[p.pos], p.pos));
    }
    Ok(e)
}
