//! Generates a corpus for the libxml2 cross-check (tools/xcheck.py).
//!
//! usage: xgen OUTDIR FIRST_SEED NDOCS EXPRS_PER_DOC [--shell] [--bench]
//!
//! For every seed N: `doc_N.xml` (the serialised random tree) and
//! `doc_N.json`:
//!   { "ns":    [[prefix, uri], ...]            prefix bindings of the expression context
//!     "nodes": [[kind, name, nsuri, value]...] all non-namespace nodes in document order
//!     "cases": [ { "e": expression, "c": context node (index into "nodes"),
//!                  "p": context position, "s": context size,
//!                  "t": "ns" | "num" | "str" | "bool" | "err",
//!                  "v": node list | hex bits of the f64 | string | bool | error kind,
//!                  "d": string(number) for numbers } ... ] }
//! A node list entry is an index into "nodes", or [element index, prefix] for
//! a namespace node.
//!
//! --shell: line-oriented mode (no newlines inside expressions), context is
//! always the root node with position = size = 1.

use std::fmt::Write as _;
use std::io::Write as _;
use vp_xref::gen::{expr_ns, gen_tree, ExprGen, Rng, Ty};
use vp_xref::scalar::number_to_string;
use vp_xref::tree::from_xml;
use vp_xref::*;

fn json_str(s: &str, out: &mut String) {
    out.push('"');
    for c in s.chars() {
        match c {
            '"' => out.push_str("\\\""),
            '\\' => out.push_str("\\\\"),
            '\n' => out.push_str("\\n"),
            '\r' => out.push_str("\\r"),
            '\t' => out.push_str("\\t"),
            c if (c as u32) < 0x20 => {
                let _ = write!(out, "\\u{:04x}", c as u32);
            }
            c => out.push(c),
        }
    }
    out.push('"');
}

fn same_tree(a: &XTree, b: &XTree) -> bool {
    a.nodes.len() == b.nodes.len()
        && a.nodes.iter().zip(b.nodes.iter()).all(|(x, y)| {
            x.kind == y.kind
                && x.prefix == y.prefix
                && x.local == y.local
                && x.uri == y.uri
                && x.value == y.value
                && x.parent == y.parent
                && x.children == y.children
                && x.attrs == y.attrs
                && x.nss == y.nss
        })
}

/// Does the expression contain a step on the namespace axis with a prefixed
/// name test (`namespace::p:*`, `namespace::p:x`)?
fn has_prefixed_ns_axis_test(e: &Expr) -> bool {
    match e {
        Expr::Bin(_, l, r) => has_prefixed_ns_axis_test(l) || has_prefixed_ns_axis_test(r),
        Expr::Neg(x) => has_prefixed_ns_axis_test(x),
        Expr::Literal(_) | Expr::Number(_) | Expr::Var(_) => false,
        Expr::Call(_, args) => args.iter().any(has_prefixed_ns_axis_test),
        Expr::Path(p) => {
            let start = match &p.start {
                PathStart::Filter(prim, preds) => {
                    has_prefixed_ns_axis_test(prim) || preds.iter().any(has_prefixed_ns_axis_test)
                }
                _ => false,
            };
            start
                || p.steps.iter().any(|s| {
                    (s.axis == Axis::Namespace
                        && matches!(s.test, NodeTest::NsAny(_) | NodeTest::Name(Some(_), _)))
                        || s.preds.iter().any(has_prefixed_ns_axis_test)
                })
        }
    }
}

/// A copy of `t` whose namespace nodes are permuted within each element
/// (`rotate`: rotate left by one, else reverse).  The relative order of the
/// namespace nodes of an element is implementation-dependent (section 5.4),
/// so a result that changes under such a permutation is not comparable
/// between implementations.
fn permute_ns(t: &XTree, rotate: bool) -> XTree {
    let mut p = t.clone();
    for i in 0..t.len() {
        let nss = &t.nodes[i].nss;
        let k = nss.len();
        for (j, &slot) in nss.iter().enumerate() {
            let src = if rotate { nss[(j + 1) % k] } else { nss[k - 1 - j] };
            p.nodes[slot].local = t.nodes[src].local.clone();
            p.nodes[slot].value = t.nodes[src].value.clone();
        }
    }
    p
}

/// identity of a result that does not depend on the slot of a namespace node
fn ns_free_identity(t: &XTree, r: &Result<Value, EvalError>) -> String {
    match r {
        Ok(Value::NodeSet(v)) => {
            let mut ids: Vec<String> = v
                .iter()
                .map(|&n| {
                    if t.nodes[n].kind == Kind::Namespace {
                        format!("{}:{}", t.nodes[n].parent.unwrap(), t.nodes[n].local)
                    } else {
                        format!("{}", n)
                    }
                })
                .collect();
            ids.sort();
            ids.join(",")
        }
        Ok(Value::Num(x)) if x.is_nan() => "NaN".to_string(),
        Ok(Value::Num(x)) => format!("{:016x}", x.to_bits()),
        other => format!("{:?}", other),
    }
}

/// Does the expression use `axis` anywhere?
fn uses_axis(e: &Expr, axis: Axis) -> bool {
    match e {
        Expr::Bin(_, l, r) => uses_axis(l, axis) || uses_axis(r, axis),
        Expr::Neg(x) => uses_axis(x, axis),
        Expr::Literal(_) | Expr::Number(_) | Expr::Var(_) => false,
        Expr::Call(_, args) => args.iter().any(|a| uses_axis(a, axis)),
        Expr::Path(p) => {
            let start = match &p.start {
                PathStart::Filter(prim, preds) => uses_axis(prim, axis) || preds.iter().any(|a| uses_axis(a, axis)),
                _ => false,
            };
            start || p.steps.iter().any(|s| s.axis == axis || s.preds.iter().any(|a| uses_axis(a, axis)))
        }
    }
}

fn main() {
    let args: Vec<String> = std::env::args().collect();
    if args.len() < 5 {
        eprintln!("usage: xgen OUTDIR FIRST_SEED NDOCS EXPRS_PER_DOC [--shell] [--bench]");
        std::process::exit(2);
    }
    let outdir = &args[1];
    let first: u64 = args[2].parse().expect("FIRST_SEED");
    let ndocs: u64 = args[3].parse().expect("NDOCS");
    let per_doc: usize = args[4].parse().expect("EXPRS_PER_DOC");
    let shell = args.iter().any(|a| a == "--shell");
    let bench = args.iter().any(|a| a == "--bench");
    std::fs::create_dir_all(outdir).expect("mkdir");
    let nsb = expr_ns();
    let mut total_evals = 0u64;
    let mut eval_time = std::time::Duration::ZERO;
    for seed in first..first + ndocs {
        let mut rng = Rng::new(seed.wrapping_mul(0x2545_F491_4F6C_DD1D) ^ 0xABCD_EF01);
        let tree = gen_tree(&mut rng);
        tree.check_invariants().expect("tree invariants");
        let xml = to_xml(&tree);
        // self-check of the serialiser / reader pair
        match from_xml(&xml) {
            Ok(back) => assert!(same_tree(&tree, &back), "seed {}: to_xml/from_xml mismatch:\n{}", seed, xml),
            Err(e) => panic!("seed {}: from_xml failed: {}\n{}", seed, e, xml),
        }
        // numbering of non-namespace nodes
        let mut lx: Vec<Option<usize>> = vec![None; tree.len()];
        let mut order: Vec<usize> = Vec::new();
        for i in 0..tree.len() {
            if tree.nodes[i].kind != Kind::Namespace {
                lx[i] = Some(order.len());
                order.push(i);
            }
        }
        let mut js = String::new();
        js.push_str("{\"ns\":[");
        for (k, (p, u)) in nsb.iter().enumerate() {
            if k > 0 {
                js.push(',');
            }
            js.push('[');
            json_str(p, &mut js);
            js.push(',');
            json_str(u, &mut js);
            js.push(']');
        }
        js.push_str("],\n\"docflags\":[");
        {
            let mut df: Vec<&str> = Vec::new();
            // an element without a default namespace whose parent has one: xmlns=""
            let undeclared = (0..tree.len()).any(|i| {
                let n = &tree.nodes[i];
                n.kind == Kind::Element
                    && !n.nss.iter().any(|&x| tree.nodes[x].local.is_empty())
                    && n.parent.is_some_and(|p| tree.nodes[p].nss.iter().any(|&x| tree.nodes[x].local.is_empty()))
            });
            if undeclared {
                df.push("undeclared-default");
            }
            // comments / PIs after the document element
            let top = &tree.nodes[0].children;
            if let Some(pos) = top.iter().position(|&c| tree.nodes[c].kind == Kind::Element) {
                if pos + 1 < top.len() {
                    df.push("misc-after-root");
                }
            }
            for (k, f) in df.iter().enumerate() {
                if k > 0 {
                    js.push(',');
                }
                json_str(f, &mut js);
            }
        }
        js.push_str("],\n\"nodes\":[");
        for (k, &i) in order.iter().enumerate() {
            if k > 0 {
                js.push(',');
            }
            let n = &tree.nodes[i];
            let kind = match n.kind {
                Kind::Root => "root",
                Kind::Element => "elem",
                Kind::Attribute => "attr",
                Kind::Text => "text",
                Kind::Comment => "comment",
                Kind::PI => "pi",
                Kind::Namespace => unreachable!(),
            };
            js.push('[');
            json_str(kind, &mut js);
            js.push(',');
            json_str(&tree.name(i), &mut js);
            js.push(',');
            json_str(n.uri.as_deref().unwrap_or(""), &mut js);
            js.push(',');
            json_str(&n.value, &mut js);
            js.push(']');
        }
        js.push_str("],\n\"cases\":[\n");
        let env = Env::new(&tree, &nsb);
        let g = ExprGen { no_newline_literals: shell, error_pct: 1, coerce_pct: 12, ..ExprGen::default() }
            .with_vocabulary(&tree);
        let mut written = 0usize;
        while written < per_doc {
            let depth = 1 + rng.below(5) as u32;
            let e = g.gen(&mut rng, Ty::Any, depth);
            let nbytes = 300;
            let density = [0u32, 0, 10, 40][rng.below(4)];
            let bytes: Vec<u8> =
                (0..nbytes).map(|_| if rng.pct(density) { (rng.next_u64() & 0xff) as u8 } else { 0 }).collect();
            let mut ch = Choices::new(bytes).with_position_rewrite(rng.pct(30)).with_newline(!shell);
            let spelled = match spell(&e, &mut ch) {
                Ok(s) => s,
                Err(_) => continue,
            };
            if shell && spelled.len() > 330 {
                continue;
            }
            let (ctx, pos, size) = if shell || rng.pct(12) {
                (0usize, 1usize, 1usize)
            } else {
                let c = if rng.pct(60) {
                    let els: Vec<usize> =
                        order.iter().copied().filter(|&i| tree.nodes[i].kind == Kind::Element).collect();
                    els[rng.below(els.len())]
                } else {
                    order[rng.below(order.len())]
                };
                if rng.pct(70) {
                    (c, 1, 1)
                } else {
                    let s = 1 + rng.below(5);
                    (c, 1 + rng.below(s), s)
                }
            };
            if !bench {
                vp_xref::trace::start();
            }
            let t0 = std::time::Instant::now();
            let r = eval(&e, &env, ctx, pos, size);
            eval_time += t0.elapsed();
            total_evals += 1;
            let trace = vp_xref::trace::take();
            // facts the driver needs to recognise known libxml2 deviations
            let mut flags: Vec<&str> = trace.events.clone();
            if has_prefixed_ns_axis_test(&e) {
                flags.push("nsaxis-prefixed-test");
            }
            if uses_axis(&e, Axis::Namespace) {
                flags.push("nsaxis");
                let base = ns_free_identity(&tree, &r);
                for rotate in [false, true] {
                    let pt = permute_ns(&tree, rotate);
                    let penv = Env::new(&pt, &nsb);
                    let pr = eval(&e, &penv, ctx, pos, size);
                    if ns_free_identity(&pt, &pr) != base {
                        flags.push("ns-order-dependent");
                        break;
                    }
                }
            }
            if uses_axis(&e, Axis::Preceding) {
                flags.push("preceding");
            }
            if written > 0 {
                js.push_str(",\n");
            }
            js.push_str("{\"e\":");
            json_str(&spelled, &mut js);
            let _ = write!(js, ",\"c\":{},\"p\":{},\"s\":{},\"flags\":[", lx[ctx].unwrap(), pos, size);
            for (k, t) in flags.iter().enumerate() {
                if k > 0 {
                    js.push(',');
                }
                json_str(t, &mut js);
            }
            // numbers converted to strings: [hex bits, reference string]
            js.push_str("],\"n2s\":[");
            let mut seen_n: Vec<u64> = Vec::new();
            for x in &trace.num_to_str {
                if seen_n.contains(&x.to_bits()) || seen_n.len() >= 40 {
                    continue;
                }
                if !seen_n.is_empty() {
                    js.push(',');
                }
                seen_n.push(x.to_bits());
                let _ = write!(js, "[\"{:016x}\",", x.to_bits());
                json_str(&number_to_string(*x), &mut js);
                js.push(']');
            }
            // strings converted to numbers: [string, hex bits of the reference result]
            js.push_str("],\"s2n\":[");
            let mut seen_s: Vec<&str> = Vec::new();
            for st in &trace.str_to_num {
                if seen_s.contains(&st.as_str()) || seen_s.len() >= 40 {
                    continue;
                }
                if !seen_s.is_empty() {
                    js.push(',');
                }
                seen_s.push(st.as_str());
                js.push('[');
                json_str(st, &mut js);
                let _ = write!(js, ",\"{:016x}\"]", vp_xref::scalar::string_to_number(st).to_bits());
            }
            // arguments of round(): [hex bits in, hex bits out]
            js.push_str("],\"rnd\":[");
            let mut seen_r: Vec<u64> = Vec::new();
            for x in &trace.rounded {
                if seen_r.contains(&x.to_bits()) || seen_r.len() >= 40 {
                    continue;
                }
                if !seen_r.is_empty() {
                    js.push(',');
                }
                seen_r.push(x.to_bits());
                let _ = write!(
                    js,
                    "[\"{:016x}\",\"{:016x}\"]",
                    x.to_bits(),
                    vp_xref::scalar::xpath_round(*x).to_bits()
                );
            }
            // number literals as spelled: [text, hex bits of the reference value]
            js.push_str("],\"lit\":[");
            for (k, tok) in vp_xref::parse::number_tokens(&spelled).unwrap().iter().enumerate() {
                if k > 0 {
                    js.push(',');
                }
                js.push('[');
                json_str(tok, &mut js);
                let _ = write!(js, ",\"{:016x}\"]", vp_xref::scalar::parse_number_token(tok).to_bits());
            }
            js.push_str("],");
            match r {
                Ok(Value::NodeSet(v)) => {
                    js.push_str("\"t\":\"ns\",\"v\":[");
                    for (k, &n) in v.iter().enumerate() {
                        if k > 0 {
                            js.push(',');
                        }
                        match lx[n] {
                            Some(i) => {
                                let _ = write!(js, "{}", i);
                            }
                            None => {
                                let el = tree.nodes[n].parent.unwrap();
                                let _ = write!(js, "[{},", lx[el].unwrap());
                                json_str(&tree.nodes[n].local, &mut js);
                                js.push(']');
                            }
                        }
                    }
                    js.push(']');
                }
                Ok(Value::Num(x)) => {
                    let _ = write!(js, "\"t\":\"num\",\"v\":\"{:016x}\",\"d\":", x.to_bits());
                    json_str(&number_to_string(x), &mut js);
                }
                Ok(Value::Str(s)) => {
                    js.push_str("\"t\":\"str\",\"v\":");
                    json_str(&s, &mut js);
                }
                Ok(Value::Bool(b)) => {
                    let _ = write!(js, "\"t\":\"bool\",\"v\":{}", b);
                }
                Err(err) => {
                    let kind = match err {
                        EvalError::UnboundPrefix(_) => "UnboundPrefix",
                        EvalError::UnknownFunction(_) => "UnknownFunction",
                        EvalError::Arity(_) => "Arity",
                        EvalError::Type(ref m) if m.contains("cannot be filtered") => "Type:filter",
                        EvalError::Type(_) => "Type",
                        EvalError::Variable(_) => "Variable",
                        EvalError::Unsupported(_) => "Unsupported",
                    };
                    let _ = write!(js, "\"t\":\"err\",\"v\":\"{}\"", kind);
                }
            }
            js.push('}');
            written += 1;
        }
        js.push_str("\n]}\n");
        if !bench {
            std::fs::File::create(format!("{}/doc_{}.xml", outdir, seed))
                .and_then(|mut f| f.write_all(xml.as_bytes()))
                .expect("write xml");
            std::fs::File::create(format!("{}/doc_{}.json", outdir, seed))
                .and_then(|mut f| f.write_all(js.as_bytes()))
                .expect("write json");
        }
    }
    eprintln!(
        "xgen: {} docs, {} evaluations, {:.3}s in eval ({:.0} evaluations/s)",
        ndocs,
        total_evals,
        eval_time.as_secs_f64(),
        total_evals as f64 / eval_time.as_secs_f64().max(1e-9)
    );
}
