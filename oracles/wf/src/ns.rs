//! "Namespaces in XML 1.0" constraint tracking.  This never influences the
//! XML 1.0 well-formedness verdict; it only fills `Info.ns_*`.

use std::collections::HashMap;

use crate::chars::{is_ncname, is_qname};

pub(crate) const XML_NS: &str = "http://www.w3.org/XML/1998/namespace";
pub(crate) const XMLNS_NS: &str = "http://www.w3.org/2000/xmlns/";

pub(crate) struct NsState {
    pub violation: Option<&'static str>,
    /// prefix -> stack of bound URIs
    bindings: HashMap<Box<str>, Vec<Box<str>>>,
    /// flat list of prefixes declared, in order
    declared: Vec<Box<str>>,
    /// per open element: number of prefixes it declared
    scopes: Vec<u32>,
}

impl NsState {
    pub fn new() -> Self {
        NsState {
            violation: None,
            bindings: HashMap::new(),
            declared: Vec::new(),
            scopes: Vec::new(),
        }
    }

    #[inline]
    pub fn active(&self) -> bool {
        self.violation.is_none()
    }

    pub fn violate(&mut self, what: &'static str) {
        if self.violation.is_none() {
            self.violation = Some(what);
            self.bindings.clear();
            self.declared.clear();
            self.scopes.clear();
        }
    }

    fn lookup(&self, prefix: &str) -> Option<&str> {
        if prefix == "xml" {
            return Some(XML_NS);
        }
        self.bindings
            .get(prefix)
            .and_then(|v| v.last())
            .map(|b| &**b)
    }

    /// `attrs`: (attribute name, normalized value — present for xmlns / xmlns:*).
    /// Opens a scope; the caller must call `end_element` (also for empty tags).
    pub fn start_element(&mut self, name: &str, attrs: &[(Box<str>, Option<String>)]) {
        if !self.active() {
            return;
        }
        let mut ndecl = 0u32;
        let mut bad: Option<&'static str> = None;
        // 1. declarations
        for (an, av) in attrs {
            let an: &str = an;
            if !is_qname(an) {
                bad = bad.or(Some("attr-not-qname"));
                continue;
            }
            let v = av.as_deref().unwrap_or("");
            if an == "xmlns" {
                if v == XML_NS {
                    bad = bad.or(Some("xml-ns-as-default"));
                } else if v == XMLNS_NS {
                    bad = bad.or(Some("xmlns-ns-bound"));
                }
            } else if let Some(prefix) = an.strip_prefix("xmlns:") {
                if !is_ncname(prefix) {
                    bad = bad.or(Some("attr-not-qname"));
                } else if prefix == "xmlns" {
                    bad = bad.or(Some("xmlns-prefix-declared"));
                } else if prefix == "xml" {
                    if v != XML_NS {
                        bad = bad.or(Some("xml-prefix-rebound"));
                    }
                } else if v == XML_NS {
                    bad = bad.or(Some("xml-ns-bound-to-other-prefix"));
                } else if v == XMLNS_NS {
                    bad = bad.or(Some("xmlns-ns-bound"));
                } else if v.is_empty() {
                    bad = bad.or(Some("empty-prefix-binding"));
                } else {
                    self.bindings
                        .entry(prefix.into())
                        .or_default()
                        .push(v.into());
                    self.declared.push(prefix.into());
                    ndecl += 1;
                }
            }
        }
        self.scopes.push(ndecl);
        if let Some(b) = bad {
            self.violate(b);
            return;
        }
        // 2. element name
        if !is_qname(name) {
            self.violate("element-not-qname");
            return;
        }
        if let Some(i) = name.find(':') {
            let prefix = &name[..i];
            if prefix == "xmlns" {
                self.violate("xmlns-element-prefix");
                return;
            }
            if self.lookup(prefix).is_none() {
                self.violate("unbound-prefix");
                return;
            }
        }
        // 3. prefixed attributes
        let mut expanded: Vec<(&str, &str)> = Vec::new();
        for (an, _) in attrs {
            let an: &str = an;
            if an == "xmlns" {
                continue;
            }
            if let Some(i) = an.find(':') {
                let prefix = &an[..i];
                if prefix == "xmlns" {
                    continue;
                }
                match self.lookup(prefix) {
                    None => {
                        bad = Some("unbound-prefix");
                        break;
                    }
                    Some(uri) => expanded.push((uri, &an[i + 1..])),
                }
            }
        }
        if bad.is_none() && expanded.len() > 1 {
            expanded.sort_unstable();
            if expanded.windows(2).any(|w| w[0] == w[1]) {
                bad = Some("dup-expanded-attr");
            }
        }
        drop(expanded);
        if let Some(b) = bad {
            self.violate(b);
        }
    }

    pub fn end_element(&mut self) {
        if !self.active() {
            return;
        }
        if let Some(n) = self.scopes.pop() {
            for _ in 0..n {
                if let Some(p) = self.declared.pop() {
                    if let Some(v) = self.bindings.get_mut(&p) {
                        v.pop();
                    }
                }
            }
        }
    }
}
