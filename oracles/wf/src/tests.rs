use super::*;

#[derive(Debug, Clone, Copy)]
pub(crate) enum E {
    W,
    I(&'static str),
    O(&'static str),
}

pub(crate) fn run_table(table: &[(&str, E)]) {
    let mut fails = Vec::new();
    for (i, (input, exp)) in table.iter().enumerate() {
        let v = check(input);
        let ok = match (&v, exp) {
            (Verdict::WellFormed(_), E::W) => true,
            (Verdict::IllFormed { rule, .. }, E::I(r)) => rule == r,
            (Verdict::OutsideProfile(w), E::O(r)) => w == r,
            _ => false,
        };
        if let Verdict::IllFormed { rule, .. } = &v {
            assert!(RULES.contains(rule), "rule {} not in RULES", rule);
        }
        if !ok {
            fails.push(format!("#{} {:?}: expected {:?}, got {:?}", i, input, exp, v));
        }
    }
    assert!(fails.is_empty(), "\n{}", fails.join("\n"));
}

#[test]
fn smoke() {
    run_table(&[("<a/>", E::W), ("<a>", E::I("unclosed-element"))]);
}

mod t_prolog;
mod t_content;
mod t_dtd;
mod t_entities;
mod t_ns;
mod t_robust;
