//! [28] doctypedecl and the internal subset (parameter entities excluded).

use std::rc::Rc;

use crate::chars::*;
use crate::cur::Cur;
use crate::parser::*;

const CTX: &str = "internal-subset";

impl Parser {
    /// Error inside a markup declaration of the internal subset.  A '%' at
    /// the error position is reported as the PE-in-markup violation (it is
    /// either that or a plain grammar error; ill-formed both ways).
    fn decl_err<T>(&self, cur: &Cur, rule: &'static str) -> R<T> {
        if cur.peek() == Some(b'%') {
            self.ill("pe-in-internal-subset-markup", CTX, cur.pos)
        } else {
            self.ill(rule, CTX, cur.pos)
        }
    }

    fn ns_qname(&mut self, name: &str, what: &'static str) {
        if self.ns.active() && !is_qname(name) {
            self.ns.violate(what);
        }
    }

    fn ns_ncname(&mut self, name: &str, what: &'static str) {
        if self.ns.active() && name.contains(':') {
            self.ns.violate(what);
        }
    }

    /// cursor at "<!DOCTYPE"
    pub fn parse_doctype(&mut self, cur: &mut Cur) -> R<()> {
        let start = cur.pos;
        cur.pos += 9;
        let s = cur.s;
        if !cur.skip_space() {
            return self.ill("bad-doctype", "doctype", cur.pos);
        }
        let (a, b) = match self.scan_name(cur) {
            Some(r) => r,
            None => return self.ill("bad-doctype", "doctype", cur.pos),
        };
        self.ns_qname(&s[a..b], "decl-name-not-qname");
        self.info.has_doctype = true;
        let sp = cur.skip_space();
        if cur.starts_with("SYSTEM") || cur.starts_with("PUBLIC") {
            if !sp {
                return self.ill("bad-doctype", "doctype", cur.pos);
            }
            self.parse_external_id(cur, "doctype", "bad-doctype", false)?;
            self.has_external_id = true;
            cur.skip_space();
        }
        if cur.eat_byte(b'[') {
            self.parse_int_subset(cur, start)?;
            cur.skip_space();
        }
        if !cur.eat_byte(b'>') {
            if cur.eof() {
                return self.ill("unterminated-doctype", "doctype", start);
            }
            return self.ill("bad-doctype", "doctype", cur.pos);
        }
        Ok(())
    }

    /// [11] SystemLiteral
    fn parse_system_literal(&mut self, cur: &mut Cur, ctx: &'static str, rule: &'static str) -> R<()> {
        let q = match cur.peek() {
            Some(q @ (b'"' | b'\'')) => q,
            _ => return self.ill(rule, ctx, cur.pos),
        };
        let open = cur.pos;
        cur.pos += 1;
        let b = cur.bytes();
        while cur.pos < b.len() && b[cur.pos] != q {
            cur.pos += 1;
        }
        if !cur.eat_byte(q) {
            return self.ill("unterminated-literal", ctx, open);
        }
        Ok(())
    }

    /// [12] PubidLiteral
    fn parse_pubid_literal(&mut self, cur: &mut Cur, ctx: &'static str, rule: &'static str) -> R<()> {
        let q = match cur.peek() {
            Some(q @ (b'"' | b'\'')) => q,
            _ => return self.ill(rule, ctx, cur.pos),
        };
        let open = cur.pos;
        cur.pos += 1;
        loop {
            match cur.peek_char() {
                None => return self.ill("unterminated-literal", ctx, open),
                Some(c) if c as u32 == q as u32 => {
                    cur.pos += 1;
                    return Ok(());
                }
                Some(c) if is_pubid_char(c) => cur.pos += 1,
                Some(_) => return self.ill("bad-pubid-char", ctx, cur.pos),
            }
        }
    }

    /// [75] ExternalID, or [83] PublicID when `public_only_ok`.
    /// Cursor at "SYSTEM" or "PUBLIC" (anything else is an error).
    fn parse_external_id(
        &mut self,
        cur: &mut Cur,
        ctx: &'static str,
        rule: &'static str,
        public_only_ok: bool,
    ) -> R<()> {
        if cur.eat("SYSTEM") {
            if !cur.skip_space() {
                return self.ill(rule, ctx, cur.pos);
            }
            self.parse_system_literal(cur, ctx, rule)
        } else if cur.eat("PUBLIC") {
            if !cur.skip_space() {
                return self.ill(rule, ctx, cur.pos);
            }
            self.parse_pubid_literal(cur, ctx, rule)?;
            if public_only_ok {
                let p = cur.pos;
                let sp = cur.skip_space();
                if matches!(cur.peek(), Some(b'"' | b'\'')) {
                    if !sp {
                        return self.ill(rule, ctx, cur.pos);
                    }
                    self.parse_system_literal(cur, ctx, rule)
                } else {
                    cur.pos = p;
                    Ok(())
                }
            } else {
                if !cur.skip_space() {
                    return self.ill(rule, ctx, cur.pos);
                }
                self.parse_system_literal(cur, ctx, rule)
            }
        } else {
            self.ill(rule, ctx, cur.pos)
        }
    }

    /// [28b] intSubset, cursor after '['; consumes the closing ']'.
    fn parse_int_subset(&mut self, cur: &mut Cur, doctype_start: usize) -> R<()> {
        loop {
            cur.skip_space();
            let p = cur.pos;
            match cur.peek() {
                None => return self.ill("unterminated-doctype", "doctype", doctype_start),
                Some(b']') => {
                    cur.pos += 1;
                    return Ok(());
                }
                Some(b'%') => {
                    cur.pos += 1;
                    if self.scan_name(cur).is_some() && cur.eat_byte(b';') {
                        return self.outside("parameter-entity", p);
                    }
                    return self.ill("bad-pe-ref", CTX, p);
                }
                Some(b'<') => {
                    if cur.starts_with("<!--") {
                        self.parse_comment(cur, CTX)?;
                    } else if cur.starts_with("<?") {
                        self.parse_pi(cur, CTX)?;
                    } else if cur.starts_with("<!ELEMENT") {
                        self.info.has_internal_subset_decls = true;
                        self.parse_element_decl(cur)?;
                    } else if cur.starts_with("<!ATTLIST") {
                        self.info.has_internal_subset_decls = true;
                        self.parse_attlist_decl(cur)?;
                    } else if cur.starts_with("<!ENTITY") {
                        self.info.has_internal_subset_decls = true;
                        self.parse_entity_decl(cur)?;
                    } else if cur.starts_with("<!NOTATION") {
                        self.info.has_internal_subset_decls = true;
                        self.parse_notation_decl(cur)?;
                    } else if cur.starts_with("<![") {
                        return self.ill("conditional-section-in-internal-subset", CTX, p);
                    } else {
                        return self.ill("bad-markup-decl", CTX, p);
                    }
                }
                Some(_) => return self.ill("junk-in-internal-subset", CTX, p),
            }
        }
    }

    // ------------------------------------------------------------ EntityDecl

    fn parse_entity_decl(&mut self, cur: &mut Cur) -> R<()> {
        const RULE: &str = "bad-entity-decl";
        let start = cur.pos;
        cur.pos += 8;
        let s = cur.s;
        if !cur.skip_space() {
            return self.decl_err(cur, RULE);
        }
        if cur.peek() == Some(b'%') {
            return match cur.peek_at(1) {
                Some(b' ' | b'\t' | b'\r' | b'\n') => self.outside("parameter-entity", start),
                _ => self.ill("pe-in-internal-subset-markup", CTX, cur.pos),
            };
        }
        let (a, b) = match self.scan_name(cur) {
            Some(r) => r,
            None => return self.decl_err(cur, RULE),
        };
        let name = &s[a..b];
        self.ns_ncname(name, "entity-name-colon");
        if !cur.skip_space() {
            return self.decl_err(cur, RULE);
        }
        let kind = match cur.peek() {
            Some(b'"' | b'\'') => EntKind::Internal(self.parse_entity_value(cur)?),
            _ => {
                if !(cur.starts_with("SYSTEM") || cur.starts_with("PUBLIC")) {
                    return self.decl_err(cur, RULE);
                }
                self.parse_external_id(cur, CTX, RULE, false)?;
                let p = cur.pos;
                let sp = cur.skip_space();
                if cur.starts_with("NDATA") {
                    if !sp {
                        return self.ill(RULE, CTX, cur.pos);
                    }
                    cur.pos += 5;
                    if !cur.skip_space() {
                        return self.decl_err(cur, RULE);
                    }
                    match self.scan_name(cur) {
                        Some((x, y)) => self.ns_ncname(&s[x..y], "notation-name-colon"),
                        None => return self.decl_err(cur, RULE),
                    }
                    EntKind::Unparsed
                } else {
                    cur.pos = p;
                    EntKind::ExternalParsed
                }
            }
        };
        cur.skip_space();
        if !cur.eat_byte(b'>') {
            return self.decl_err(cur, RULE);
        }
        if let Some(pc) = predefined(name) {
            // 4.6: redeclarations of predefined entities must be of a
            // prescribed shape.  A conforming one changes nothing; for any
            // other the spec imposes a MUST that is neither grammar nor WFC.
            if !predef_decl_ok(name, pc, &kind) {
                return self.outside("predefined-entity-redeclared", start);
            }
            return Ok(());
        }
        if !self.ent_index.contains_key(name) {
            // first declaration is binding
            let idx = self.entities.len();
            self.entities.push(Entity {
                kind,
                active: false,
            });
            self.ent_index.insert(name.into(), idx);
        }
        Ok(())
    }

    /// [9] EntityValue; returns the replacement text (4.5): character
    /// references expanded, general-entity references left as is.
    fn parse_entity_value(&mut self, cur: &mut Cur) -> R<Rc<str>> {
        let q = cur.peek().unwrap_or(b'"') as char;
        let open = cur.pos;
        cur.pos += 1;
        let mut text = String::new();
        loop {
            let c = match cur.peek_char() {
                None => return self.ill("unterminated-literal", "entity-value", open),
                Some(c) => c,
            };
            if c == q {
                cur.pos += 1;
                break;
            }
            match c {
                '%' => return self.ill("pe-in-internal-subset-markup", "entity-value", cur.pos),
                '&' => match self.parse_reference(cur, "entity-value")? {
                    Ref::Char(x) => text.push(x),
                    Ref::Entity(n) => {
                        text.push('&');
                        text.push_str(n);
                        text.push(';');
                    }
                },
                '\r' => {
                    // 2.11 end-of-line handling happens before parsing
                    text.push('\n');
                    cur.pos += 1;
                    if cur.peek() == Some(b'\n') {
                        cur.pos += 1;
                    }
                }
                c => {
                    text.push(c);
                    cur.pos += c.len_utf8();
                }
            }
        }
        Ok(Rc::from(text))
    }

    // ---------------------------------------------------------- NotationDecl

    fn parse_notation_decl(&mut self, cur: &mut Cur) -> R<()> {
        const RULE: &str = "bad-notation-decl";
        cur.pos += 10;
        let s = cur.s;
        if !cur.skip_space() {
            return self.decl_err(cur, RULE);
        }
        match self.scan_name(cur) {
            Some((a, b)) => self.ns_ncname(&s[a..b], "notation-name-colon"),
            None => return self.decl_err(cur, RULE),
        }
        if !cur.skip_space() {
            return self.decl_err(cur, RULE);
        }
        if !(cur.starts_with("SYSTEM") || cur.starts_with("PUBLIC")) {
            return self.decl_err(cur, RULE);
        }
        self.parse_external_id(cur, CTX, RULE, true)?;
        cur.skip_space();
        if !cur.eat_byte(b'>') {
            return self.decl_err(cur, RULE);
        }
        Ok(())
    }

    // ----------------------------------------------------------- AttlistDecl

    fn parse_attlist_decl(&mut self, cur: &mut Cur) -> R<()> {
        const RULE: &str = "bad-attlist-decl";
        cur.pos += 9;
        let s = cur.s;
        if !cur.skip_space() {
            return self.decl_err(cur, RULE);
        }
        match self.scan_name(cur) {
            Some((a, b)) => self.ns_qname(&s[a..b], "decl-name-not-qname"),
            None => return self.decl_err(cur, RULE),
        }
        loop {
            let sp = cur.skip_space();
            if cur.eat_byte(b'>') {
                return Ok(());
            }
            if !sp {
                return self.decl_err(cur, RULE);
            }
            // [53] AttDef ::= S Name S AttType S DefaultDecl
            let (a, b) = match self.scan_name(cur) {
                Some(r) => r,
                None => return self.decl_err(cur, RULE),
            };
            let an = &s[a..b];
            if an == "xmlns" || an.starts_with("xmlns:") {
                self.ns.violate("attlist-xmlns");
            } else {
                self.ns_qname(an, "decl-name-not-qname");
            }
            if !cur.skip_space() {
                return self.decl_err(cur, RULE);
            }
            // [54] AttType
            if cur.peek() == Some(b'(') {
                self.parse_enumeration(cur, false, RULE)?;
            } else {
                let (x, y) = match self.scan_name(cur) {
                    Some(r) => r,
                    None => return self.decl_err(cur, RULE),
                };
                match &s[x..y] {
                    "CDATA" | "ID" | "IDREF" | "IDREFS" | "ENTITY" | "ENTITIES" | "NMTOKEN"
                    | "NMTOKENS" => {}
                    "NOTATION" => {
                        if !cur.skip_space() {
                            return self.decl_err(cur, RULE);
                        }
                        if cur.peek() != Some(b'(') {
                            return self.decl_err(cur, RULE);
                        }
                        self.parse_enumeration(cur, true, RULE)?;
                    }
                    _ => return self.ill(RULE, CTX, x),
                }
            }
            if !cur.skip_space() {
                return self.decl_err(cur, RULE);
            }
            // [60] DefaultDecl
            if !matches!(cur.peek(), Some(b'#')) || cur.starts_with("#FIXED") {
                // A defaulted attribute with a prefix takes part in namespace
                // processing of every element it is defaulted on; we do not
                // model defaulting, so flag the document instead.
                if an.contains(':') && !an.starts_with("xml:") && !an.starts_with("xmlns:") {
                    self.ns.violate("attlist-prefixed-default");
                }
            }
            match cur.peek() {
                Some(b'#') => {
                    if cur.eat("#REQUIRED") || cur.eat("#IMPLIED") {
                    } else if cur.eat("#FIXED") {
                        if !cur.skip_space() {
                            return self.decl_err(cur, RULE);
                        }
                        if !matches!(cur.peek(), Some(b'"' | b'\'')) {
                            return self.decl_err(cur, RULE);
                        }
                        self.parse_att_value(cur, "attlist-default", None)?;
                    } else {
                        return self.decl_err(cur, RULE);
                    }
                }
                Some(b'"' | b'\'') => self.parse_att_value(cur, "attlist-default", None)?,
                _ => return self.decl_err(cur, RULE),
            }
        }
    }

    /// [58] NotationType group / [59] Enumeration, cursor at '('.
    fn parse_enumeration(&mut self, cur: &mut Cur, names: bool, rule: &'static str) -> R<()> {
        let s = cur.s;
        cur.pos += 1;
        loop {
            cur.skip_space();
            let tok = if names {
                self.scan_name(cur)
            } else {
                self.scan_nmtoken(cur)
            };
            match tok {
                None => return self.decl_err(cur, rule),
                Some((a, b)) => {
                    if names {
                        self.ns_ncname(&s[a..b], "notation-name-colon");
                    }
                }
            }
            cur.skip_space();
            if cur.eat_byte(b')') {
                return Ok(());
            }
            if !cur.eat_byte(b'|') {
                return self.decl_err(cur, rule);
            }
        }
    }

    // ----------------------------------------------------------- elementdecl

    fn eat_occurrence(cur: &mut Cur) {
        if matches!(cur.peek(), Some(b'?' | b'*' | b'+')) {
            cur.pos += 1;
        }
    }

    fn parse_element_decl(&mut self, cur: &mut Cur) -> R<()> {
        const RULE: &str = "bad-element-decl";
        cur.pos += 9;
        let s = cur.s;
        if !cur.skip_space() {
            return self.decl_err(cur, RULE);
        }
        match self.scan_name(cur) {
            Some((a, b)) => self.ns_qname(&s[a..b], "decl-name-not-qname"),
            None => return self.decl_err(cur, RULE),
        }
        if !cur.skip_space() {
            return self.decl_err(cur, RULE);
        }
        if cur.eat("EMPTY") || cur.eat("ANY") {
            // [46] contentspec keywords
        } else if cur.eat_byte(b'(') {
            cur.skip_space();
            if cur.eat("#PCDATA") {
                // [51] Mixed
                let mut names = 0usize;
                loop {
                    cur.skip_space();
                    if cur.eat_byte(b')') {
                        break;
                    }
                    if !cur.eat_byte(b'|') {
                        return self.decl_err(cur, RULE);
                    }
                    cur.skip_space();
                    match self.scan_name(cur) {
                        Some((a, b)) => self.ns_qname(&s[a..b], "decl-name-not-qname"),
                        None => return self.decl_err(cur, RULE),
                    }
                    names += 1;
                }
                if !cur.eat_byte(b'*') && names > 0 {
                    return self.decl_err(cur, RULE);
                }
            } else {
                // [47] children, iteratively: one separator slot per open group
                let mut seps: Vec<u8> = vec![0];
                'outer: loop {
                    // expect a cp
                    cur.skip_space();
                    if cur.eat_byte(b'(') {
                        seps.push(0);
                        continue;
                    }
                    match self.scan_name(cur) {
                        Some((a, b)) => self.ns_qname(&s[a..b], "decl-name-not-qname"),
                        None => return self.decl_err(cur, RULE),
                    }
                    Self::eat_occurrence(cur);
                    // after a cp
                    loop {
                        cur.skip_space();
                        if cur.eat_byte(b')') {
                            seps.pop();
                            Self::eat_occurrence(cur);
                            if seps.is_empty() {
                                break 'outer;
                            }
                            continue;
                        }
                        match cur.peek() {
                            Some(c @ (b',' | b'|')) => {
                                let top = match seps.last_mut() {
                                    Some(t) => t,
                                    None => return self.decl_err(cur, RULE),
                                };
                                if *top == 0 {
                                    *top = c;
                                } else if *top != c {
                                    return self.decl_err(cur, RULE);
                                }
                                cur.pos += 1;
                                break;
                            }
                            _ => return self.decl_err(cur, RULE),
                        }
                    }
                }
            }
        } else {
            return self.decl_err(cur, RULE);
        }
        cur.skip_space();
        if !cur.eat_byte(b'>') {
            return self.decl_err(cur, RULE);
        }
        Ok(())
    }
}

/// 4.6 Predefined Entities: is this redeclaration of a predefined entity of
/// the prescribed form?
fn predef_decl_ok(name: &str, pc: char, kind: &EntKind) -> bool {
    let text: &str = match kind {
        EntKind::Internal(t) => t,
        _ => return false,
    };
    let is_charref_to = |t: &str| -> bool {
        let body = match t.strip_prefix("&#").and_then(|r| r.strip_suffix(';')) {
            Some(b) => b,
            None => return false,
        };
        let v = if let Some(h) = body.strip_prefix('x') {
            if h.is_empty() || h.len() > 8 || !h.bytes().all(|b| b.is_ascii_hexdigit()) {
                return false;
            }
            u32::from_str_radix(h, 16).ok()
        } else {
            if body.is_empty() || body.len() > 9 || !body.bytes().all(|b| b.is_ascii_digit()) {
                return false;
            }
            body.parse::<u32>().ok()
        };
        v == Some(pc as u32)
    };
    match name {
        "lt" | "amp" => is_charref_to(text),
        _ => {
            let mut it = text.chars();
            (it.next() == Some(pc) && it.next().is_none()) || is_charref_to(text)
        }
    }
}
