//! vp-wf: an independent reference well-formedness recognizer for
//! XML 1.0 (Fifth Edition), written from the recommendation.
//!
//! Scope ("profile"): the document entity plus the internal DTD subset, as a
//! non-validating processor that reads no external entity sees them.
//! Parameter entities, non-UTF-8 encoding declarations and a few corners the
//! specification leaves open are answered with `Verdict::OutsideProfile`.

mod chars;
mod content;
mod cur;
mod dtd;
mod ns;
mod parser;

pub use chars::{
    is_char, is_enc_name_char, is_enc_name_start, is_name, is_name_char, is_name_start_char,
    is_ncname, is_nmtoken, is_pubid_char, is_qname, is_xml_space,
};

#[derive(Debug, Clone, PartialEq, Eq)]
pub enum Verdict {
    WellFormed(Info),
    /// The input is definitely NOT a well-formed XML 1.0 document.
    IllFormed {
        rule: &'static str,
        context: &'static str,
        offset: usize,
    },
    /// The recognizer declines to judge.  Never used as evidence.
    OutsideProfile(&'static str),
}

#[derive(Debug, Clone, PartialEq, Eq)]
pub struct Info {
    /// also conforms to "Namespaces in XML 1.0".  Attribute defaulting is
    /// not modelled: documents whose ATTLISTs declare `xmlns`/`xmlns:*`
    /// attributes or prefixed attributes with a default value get `false`
    /// with the marker violations "attlist-xmlns" /
    /// "attlist-prefixed-default" (meaning "not judged", stay away).
    pub ns_well_formed: bool,
    pub ns_violation: Option<&'static str>,
    pub has_doctype: bool,
    /// the internal subset contains an ELEMENT, ATTLIST, ENTITY or NOTATION declaration
    pub has_internal_subset_decls: bool,
    /// false when an XML declaration says 1.1, 1.2 ...
    pub version_is_1_0: bool,
    /// some Name/Nmtoken contains a non-ASCII character
    pub has_non_ascii_name: bool,
    /// every name character used is a name character in both the 4th and 5th edition
    pub names_4th_edition_safe: bool,
    /// the input contains U+000D
    pub has_cr: bool,
    pub element_count: usize,
    pub max_depth: usize,
}

/// Every `rule` identifier `check` can return in `Verdict::IllFormed`.
pub const RULES: &[&str] = &[
    "illegal-char",
    "no-root",
    "text-in-prolog",
    "multiple-doctypes",
    "cdata-outside-root",
    "bad-markup-decl",
    "unmatched-end-tag",
    "content-after-root",
    "doctype-after-root",
    "multiple-roots",
    "bad-xmldecl",
    "xmldecl-not-first",
    "reserved-pi-target",
    "bad-pi-target",
    "pi-missing-space",
    "unterminated-pi",
    "unterminated-comment",
    "comment-double-hyphen",
    "unterminated-tag",
    "empty-name",
    "bad-name-start",
    "bad-name-char",
    "bad-empty-tag",
    "bad-end-tag",
    "missing-attr-space",
    "missing-attr-eq",
    "missing-attr-quote",
    "dup-attr",
    "unterminated-attr-value",
    "lt-in-attr-value",
    "lt-in-entity-used-in-attr",
    "external-entity-in-attr",
    "unparsed-entity-ref",
    "undeclared-entity",
    "entity-recursion",
    "entity-content-not-wf",
    "bare-amp",
    "entity-ref-syntax",
    "charref-syntax",
    "charref-not-char",
    "end-tag-mismatch",
    "unclosed-element",
    "cdata-end-in-content",
    "unterminated-cdata",
    "bad-cdata-start",
    "bad-doctype",
    "unterminated-doctype",
    "unterminated-literal",
    "bad-pubid-char",
    "bad-pe-ref",
    "pe-in-internal-subset-markup",
    "conditional-section-in-internal-subset",
    "junk-in-internal-subset",
    "bad-entity-decl",
    "bad-attlist-decl",
    "bad-element-decl",
    "bad-notation-decl",
];

/// Every reason `check` can return in `Verdict::OutsideProfile`.
pub const OUTSIDE_REASONS: &[&str] = &[
    "parameter-entity",
    "undeclared-entity-with-external-subset",
    "encoding",
    "entity-expansion-limit",
    "predefined-entity-redeclared",
    "cdata-end-in-entity-used-in-attr",
    "indirect-undeclared-entity-in-attlist-default",
];

/// Every value `Info::ns_violation` can take.
pub const NS_VIOLATIONS: &[&str] = &[
    "attr-not-qname",
    "element-not-qname",
    "decl-name-not-qname",
    "entity-name-colon",
    "pi-target-colon",
    "notation-name-colon",
    "unbound-prefix",
    "xmlns-element-prefix",
    "xmlns-prefix-declared",
    "xml-prefix-rebound",
    "xml-ns-bound-to-other-prefix",
    "xml-ns-as-default",
    "xmlns-ns-bound",
    "empty-prefix-binding",
    "dup-expanded-attr",
    "attlist-xmlns",
    "attlist-prefixed-default",
];

/// Offset of the first character that is not a [2] Char, and whether the
/// input contains a carriage return.
fn prescan(input: &str) -> (Option<usize>, bool) {
    let b = input.as_bytes();
    let mut has_cr = false;
    let mut first_bad = None;
    let mut i = 0;
    while i < b.len() {
        let x = b[i];
        if x < 0x20 {
            match x {
                0x09 | 0x0A => {}
                0x0D => has_cr = true,
                _ => {
                    if first_bad.is_none() {
                        first_bad = Some(i);
                    }
                }
            }
        } else if x == 0xEF
            && i + 2 < b.len()
            && b[i + 1] == 0xBF
            && (b[i + 2] == 0xBE || b[i + 2] == 0xBF)
            && first_bad.is_none()
        {
            first_bad = Some(i);
        }
        i += 1;
    }
    (first_bad, has_cr)
}

/// Decide whether `input` (the document entity, UTF-8) is a well-formed
/// XML 1.0 (Fifth Edition) document.
pub fn check(input: &str) -> Verdict {
    let (first_bad, has_cr) = prescan(input);
    let mut p = parser::Parser::new();
    p.info.has_cr = has_cr;
    let r = p.parse_document(input);
    let illegal = |off: usize| Verdict::IllFormed {
        rule: "illegal-char",
        context: "document",
        offset: off,
    };
    match r {
        Ok(()) => {
            if let Some(b) = first_bad {
                return illegal(b);
            }
            let mut info = p.info;
            info.ns_violation = p.ns.violation;
            info.ns_well_formed = info.ns_violation.is_none();
            Verdict::WellFormed(info)
        }
        Err(parser::Stop::Ill {
            rule,
            context,
            offset,
        }) => match first_bad {
            // Every character of a document must be a Char, so a document
            // with an illegal character is ill-formed whatever else is
            // wrong; report whichever comes first.
            Some(b) if b < offset => illegal(b),
            _ => Verdict::IllFormed {
                rule,
                context,
                offset,
            },
        },
        Err(parser::Stop::Outside { why, offset }) => match first_bad {
            Some(b) if b < offset => illegal(b),
            _ => Verdict::OutsideProfile(why),
        },
    }
}

#[cfg(test)]
mod tests;
