use crate::{check, Verdict};

fn wf(v: &Verdict) -> bool {
    matches!(v, Verdict::WellFormed(_))
}

#[test]
fn deep_nesting() {
    let n = 200_000;
    let mut s = String::new();
    for _ in 0..n {
        s.push_str("<a>");
    }
    for _ in 0..n {
        s.push_str("</a>");
    }
    match check(&s) {
        Verdict::WellFormed(i) => {
            assert_eq!(i.max_depth, n);
            assert_eq!(i.element_count, n);
        }
        v => panic!("{:?}", v),
    }
    s.truncate(3 * n + 4 * (n - 1));
    assert!(matches!(check(&s), Verdict::IllFormed { rule: "unclosed-element", .. }));
}

#[test]
fn deep_content_model() {
    let n = 200_000;
    let mut s = String::from("<!DOCTYPE a [<!ELEMENT a ");
    for _ in 0..n {
        s.push('(');
    }
    s.push('b');
    for _ in 0..n {
        s.push_str(")*");
    }
    s.push_str(">]><a/>");
    assert!(wf(&check(&s)));
}

#[test]
fn many_attributes_and_namespaces() {
    let mut s = String::from("<a");
    for i in 0..50_000 {
        s.push_str(&format!(" xmlns:p{}='u{}' p{}:x='1'", i, i, i));
    }
    s.push_str("/>");
    match check(&s) {
        Verdict::WellFormed(i) => assert!(i.ns_well_formed),
        v => panic!("{:?}", v),
    }
    // deep nesting with a declaration on every level and use of the outermost prefix
    let n = 50_000;
    let mut s = String::new();
    for i in 0..n {
        s.push_str(&format!("<p0:a xmlns:p{}='u'>", i));
    }
    for _ in 0..n {
        s.push_str("</p0:a>");
    }
    match check(&s) {
        Verdict::WellFormed(i) => assert!(i.ns_well_formed, "{:?}", i.ns_violation),
        v => panic!("{:?}", v),
    }
}

#[test]
fn long_entity_chain() {
    // e0 -> e1 -> ... -> eN, no recursion, must not overflow the call stack
    let n = 20_000;
    let mut s = String::from("<!DOCTYPE a [");
    for i in 0..n {
        s.push_str(&format!("<!ENTITY e{} '&e{};'>", i, i + 1));
    }
    s.push_str(&format!("<!ENTITY e{} 'x'>]><a y='&e0;'>&e0;</a>", n));
    assert!(wf(&check(&s)));
    // the same closed into a cycle
    let mut s = String::from("<!DOCTYPE a [");
    for i in 0..n {
        s.push_str(&format!("<!ENTITY e{} '&e{};'>", i, i + 1));
    }
    s.push_str(&format!("<!ENTITY e{} '&e0;'>]><a>&e0;</a>", n));
    assert!(matches!(check(&s), Verdict::IllFormed { rule: "entity-recursion", .. }));
}

#[test]
fn every_prefix_and_single_byte_mutation_is_handled() {
    let doc = "\u{FEFF}<?xml version=\"1.0\" encoding=\"UTF-8\" standalone='no'?>\n<!-- c --><?p d?>\n<!DOCTYPE r\u{e9} PUBLIC \"-//p\" 's' [\n<!ELEMENT r\u{e9} (#PCDATA|b)*><!ELEMENT b ((c,d?)|e+)*>\n<!ENTITY e \"<b>&#38;#60;&f;</b>\"><!ENTITY f 'F'><!ENTITY g SYSTEM 'g' NDATA n>\n<!ATTLIST b x CDATA #FIXED \"v&f;\" y (a|b) 'a' z NOTATION (n) #IMPLIED>\n<!NOTATION n PUBLIC 'pub'><?q?><!-- -->\n]>\n<r\u{e9} xmlns:p='u' p:a=\"1&lt;&#x41;&f;\">t&e;<![CDATA[<&]]]]><p:b\u{b7} x='v'/>]]&gt;<!-- - --><?z ?></r\u{e9}>\n<!-- end -->";
    assert!(wf(&check(doc)), "{:?}", check(doc));
    // all prefixes on char boundaries
    for (i, _) in doc.char_indices() {
        let _ = check(&doc[..i]);
        let _ = check(&doc[i..]);
    }
    // replace / delete / insert at each position
    let subs = ["<", ">", "&", "'", "\"", "]", "[", "%", ";", "-", "?", "!", "/", " ", "#", "\u{0}", "\u{e9}", "\u{ffff}", "(", ")", "|", "="];
    let idx: Vec<usize> = doc.char_indices().map(|(i, _)| i).collect();
    for w in idx.windows(2) {
        let (a, b) = (w[0], w[1]);
        let del = format!("{}{}", &doc[..a], &doc[b..]);
        let _ = check(&del);
        for s in subs {
            let rep = format!("{}{}{}", &doc[..a], s, &doc[b..]);
            let _ = check(&rep);
            let ins = format!("{}{}{}", &doc[..a], s, &doc[a..]);
            let _ = check(&ins);
        }
    }
}
