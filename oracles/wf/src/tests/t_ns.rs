use crate::{check, Verdict, NS_VIOLATIONS};

fn ns(input: &str) -> Option<&'static str> {
    match check(input) {
        Verdict::WellFormed(i) => {
            assert_eq!(i.ns_well_formed, i.ns_violation.is_none());
            if let Some(v) = i.ns_violation {
                assert!(NS_VIOLATIONS.contains(&v), "{} not listed", v);
            }
            i.ns_violation
        }
        v => panic!("{:?} is not well-formed: {:?}", input, v),
    }
}

#[test]
fn namespaces() {
    let table: &[(&str, Option<&str>)] = &[
        ("<a/>", None),
        ("<a xmlns='u'/>", None),
        ("<a xmlns=''/>", None),
        ("<p:a xmlns:p='u'/>", None),
        ("<p:a xmlns:p='u'><p:b p:x='1' x='2'/></p:a>", None),
        ("<a xml:lang='en' xml:space='preserve'/>", None),
        ("<xml:a/>", None),
        ("<a xmlns:xml='http://www.w3.org/XML/1998/namespace'/>", None),
        ("<a xmlns:p='u' xmlns:q='v' p:x='1' q:x='2'/>", None),
        ("<a xmlns:p='u'><b xmlns:p='v'><p:c/></b><p:d/></a>", None),
        ("<p:a/>", Some("unbound-prefix")),
        ("<a p:x='1'/>", Some("unbound-prefix")),
        ("<a><b xmlns:p='u'/><p:c/></a>", Some("unbound-prefix")),
        ("<a:b:c/>", Some("element-not-qname")),
        ("<:a/>", Some("element-not-qname")),
        ("<a:/>", Some("element-not-qname")),
        ("<a :x='1'/>", Some("attr-not-qname")),
        ("<a x:='1'/>", Some("attr-not-qname")),
        ("<a x:y:z='1'/>", Some("attr-not-qname")),
        ("<a xmlns:='u'/>", Some("attr-not-qname")),
        ("<a xmlns:p:q='u'/>", Some("attr-not-qname")),
        ("<a xmlns:p=''/>", Some("empty-prefix-binding")),
        ("<a xmlns:p='u' xmlns:q='u' p:x='1' q:x='2'/>", Some("dup-expanded-attr")),
        ("<a xmlns:p='u' xmlns:q='&#117;' p:x='1' q:x='2'/>", Some("dup-expanded-attr")),
        ("<!DOCTYPE a [<!ENTITY e 'u'>]><a xmlns:p='u' xmlns:q='&e;' p:x='1' q:x='2'/>", Some("dup-expanded-attr")),
        ("<a xmlns:p='u' xmlns:q='u ' p:x='1' q:x='2'/>", None),
        ("<a xmlns:p='u' xmlns='u' p:x='1' x='2'/>", None),
        ("<a xmlns:xmlns='u'/>", Some("xmlns-prefix-declared")),
        ("<a xmlns:xmlns='http://www.w3.org/2000/xmlns/'/>", Some("xmlns-prefix-declared")),
        ("<xmlns:a/>", Some("xmlns-element-prefix")),
        ("<xmlns:a xmlns:xmlns='u'/>", Some("xmlns-prefix-declared")),
        ("<a xmlns:xml='u'/>", Some("xml-prefix-rebound")),
        ("<a xmlns:xml=''/>", Some("xml-prefix-rebound")),
        ("<a xmlns:p='http://www.w3.org/XML/1998/namespace'/>", Some("xml-ns-bound-to-other-prefix")),
        ("<a xmlns='http://www.w3.org/XML/1998/namespace'/>", Some("xml-ns-as-default")),
        ("<a xmlns:p='http://www.w3.org/2000/xmlns/'/>", Some("xmlns-ns-bound")),
        ("<a xmlns='http://www.w3.org/2000/xmlns/'/>", Some("xmlns-ns-bound")),
        ("<a xmlns:p='http://www.w3.org/XML/1998/namespace '/>", None),
        ("<a><?p:q?></a>", Some("pi-target-colon")),
        ("<!DOCTYPE a [<!ENTITY p:e 'v'>]><a/>", Some("entity-name-colon")),
        ("<!DOCTYPE a [<!ENTITY p:e 'v'>]><a>&p:e;</a>", Some("entity-name-colon")),
        ("<!DOCTYPE a [<!NOTATION p:n SYSTEM 'x'>]><a/>", Some("notation-name-colon")),
        ("<!DOCTYPE a [<!ENTITY e SYSTEM 'x' NDATA p:n>]><a/>", Some("notation-name-colon")),
        ("<!DOCTYPE a [<!ATTLIST a x NOTATION (p:n) #IMPLIED>]><a/>", Some("notation-name-colon")),
        ("<!DOCTYPE a [<!ATTLIST a xmlns CDATA 'u'>]><a/>", Some("attlist-xmlns")),
        ("<!DOCTYPE a [<!ATTLIST a xmlns:p CDATA #IMPLIED>]><a/>", Some("attlist-xmlns")),
        ("<!DOCTYPE a [<!ATTLIST a p:x CDATA #IMPLIED>]><a/>", None),
        ("<!DOCTYPE a [<!ATTLIST a p:x CDATA #REQUIRED xml:lang CDATA 'en'>]><a/>", None),
        ("<!DOCTYPE a [<!ATTLIST a p:x CDATA 'v'>]><a/>", Some("attlist-prefixed-default")),
        ("<!DOCTYPE a [<!ATTLIST a p:x CDATA #FIXED 'v'>]><a xmlns:p='u'/>", Some("attlist-prefixed-default")),
        ("<!DOCTYPE a:b:c><a/>", Some("decl-name-not-qname")),
        ("<!DOCTYPE a [<!ELEMENT a:b:c ANY>]><a/>", Some("decl-name-not-qname")),
        ("<!DOCTYPE a [<!ELEMENT a (b:c:d)>]><a/>", Some("decl-name-not-qname")),
        ("<!DOCTYPE a [<!ATTLIST a x:y:z CDATA #IMPLIED>]><a/>", Some("decl-name-not-qname")),
        ("<!DOCTYPE a [<!ENTITY e '<p:b/>'>]><a xmlns:p='u'>&e;</a>", None),
        ("<!DOCTYPE a [<!ENTITY e '<p:b/>'>]><a>&e;</a>", Some("unbound-prefix")),
        ("<a xmlns:p='u'><b xmlns:p='u2'/><c p:x='1'/></a>", None),
    ];
    let mut fails = Vec::new();
    for (inp, exp) in table {
        let got = ns(inp);
        if got != *exp {
            fails.push(format!("{:?}: expected {:?} got {:?}", inp, exp, got));
        }
    }
    assert!(fails.is_empty(), "\n{}", fails.join("\n"));
}

#[test]
fn info_fields() {
    let i = match check("<?xml version='1.1'?><!DOCTYPE a [<!ENTITY e '<b/>'>]>\r\n<a><b><c/></b>&e;</a>") {
        Verdict::WellFormed(i) => i,
        v => panic!("{:?}", v),
    };
    assert!(!i.version_is_1_0);
    assert!(i.has_doctype && i.has_internal_subset_decls && i.has_cr);
    assert_eq!(i.element_count, 4);
    assert_eq!(i.max_depth, 3);
    assert!(!i.has_non_ascii_name && i.names_4th_edition_safe);
    let i = match check("<!DOCTYPE a [<!-- c -->]><\u{e9}/>") {
        Verdict::WellFormed(i) => i,
        v => panic!("{:?}", v),
    };
    assert!(i.has_doctype && !i.has_internal_subset_decls && !i.has_cr && i.version_is_1_0);
    assert!(i.has_non_ascii_name && i.names_4th_edition_safe);
    let i = match check("<a \u{3b1}='1'/>") {
        Verdict::WellFormed(i) => i,
        v => panic!("{:?}", v),
    };
    assert!(i.has_non_ascii_name && !i.names_4th_edition_safe);
}
