//! Core parser state, error plumbing, names, references, prolog / epilog.

use std::collections::{HashMap, HashSet};
use std::rc::Rc;

use crate::chars::*;
use crate::cur::Cur;
use crate::ns::NsState;
use crate::Info;

pub(crate) const EXPANSION_LIMIT: usize = 1 << 20;

pub(crate) enum Stop {
    Ill {
        rule: &'static str,
        context: &'static str,
        offset: usize,
    },
    Outside {
        why: &'static str,
        offset: usize,
    },
}
pub(crate) type R<T> = Result<T, Stop>;

pub(crate) enum EntKind {
    Internal(Rc<str>),
    ExternalParsed,
    Unparsed,
}

pub(crate) struct Entity {
    pub kind: EntKind,
    /// currently being expanded (on some expansion stack)
    pub active: bool,
}

pub(crate) struct Frame {
    pub text: Rc<str>,
    pub pos: usize,
    /// index into `entities`, usize::MAX for the document entity
    pub ent: usize,
    /// element stack depth when the frame was entered
    pub base_depth: usize,
}

pub(crate) enum Ref<'a> {
    Char(char),
    Entity(&'a str),
}

pub(crate) enum Resolved {
    Predef(char),
    Declared(usize),
    Undeclared,
}

pub(crate) struct Parser {
    pub info: Info,
    pub entities: Vec<Entity>,
    pub ent_index: HashMap<Box<str>, usize>,
    pub has_external_id: bool,
    pub standalone_yes: bool,
    pub expanded: usize,
    pub frames: Vec<Frame>,
    pub elems: Vec<Box<str>>,
    pub ns: NsState,
    /// document offset of the outermost entity reference being expanded
    pub ref_offset: usize,
    pub in_entity: bool,
    // scratch for start tags
    pub attr_names: Vec<(usize, usize)>,
    pub attr_set: HashSet<Box<str>>,
    pub ns_attrs: Vec<(Box<str>, Option<String>)>,
}

pub(crate) fn predefined(name: &str) -> Option<char> {
    match name {
        "lt" => Some('<'),
        "gt" => Some('>'),
        "amp" => Some('&'),
        "apos" => Some('\''),
        "quot" => Some('"'),
        _ => None,
    }
}

pub(crate) fn find_from(s: &str, from: usize, pat: &str) -> Option<usize> {
    s[from..].find(pat).map(|i| i + from)
}

impl Parser {
    pub fn new() -> Self {
        Parser {
            info: Info {
                ns_well_formed: true,
                ns_violation: None,
                has_doctype: false,
                has_internal_subset_decls: false,
                version_is_1_0: true,
                has_non_ascii_name: false,
                names_4th_edition_safe: true,
                has_cr: false,
                element_count: 0,
                max_depth: 0,
            },
            entities: Vec::new(),
            ent_index: HashMap::new(),
            has_external_id: false,
            standalone_yes: false,
            expanded: 0,
            frames: Vec::new(),
            elems: Vec::new(),
            ns: NsState::new(),
            ref_offset: 0,
            in_entity: false,
            attr_names: Vec::new(),
            attr_set: HashSet::new(),
            ns_attrs: Vec::new(),
        }
    }

    // ---------------------------------------------------------------- errors

    #[inline]
    pub fn off(&self, pos: usize) -> usize {
        if self.in_entity {
            self.ref_offset
        } else {
            pos
        }
    }

    #[inline]
    pub fn ill<T>(&self, rule: &'static str, context: &'static str, pos: usize) -> R<T> {
        Err(Stop::Ill {
            rule,
            context,
            offset: self.off(pos),
        })
    }

    #[inline]
    pub fn outside<T>(&self, why: &'static str, pos: usize) -> R<T> {
        Err(Stop::Outside {
            why,
            offset: self.off(pos),
        })
    }

    /// Rule to report when markup is cut short by the end of the current
    /// entity: inside an entity's replacement text this means the replacement
    /// text does not match `content`.
    #[inline]
    pub fn trunc(&self, rule: &'static str) -> &'static str {
        if self.frames.len() > 1 {
            "entity-content-not-wf"
        } else {
            rule
        }
    }

    pub fn undeclared<T>(&self, context: &'static str, pos: usize) -> R<T> {
        if self.has_external_id && !self.standalone_yes {
            self.outside("undeclared-entity-with-external-subset", pos)
        } else {
            self.ill("undeclared-entity", context, pos)
        }
    }

    // ----------------------------------------------------------------- names

    /// [5] Name.  Returns the byte range, or None (nothing consumed) if the
    /// cursor is not at a NameStartChar.
    pub fn scan_name(&mut self, cur: &mut Cur) -> Option<(usize, usize)> {
        let start = cur.pos;
        match cur.peek_char() {
            Some(c) if is_name_start_char(c) => {}
            _ => return None,
        }
        self.scan_name_chars(cur);
        Some((start, cur.pos))
    }

    /// [7] Nmtoken.
    pub fn scan_nmtoken(&mut self, cur: &mut Cur) -> Option<(usize, usize)> {
        let start = cur.pos;
        self.scan_name_chars(cur);
        if cur.pos == start {
            None
        } else {
            Some((start, cur.pos))
        }
    }

    fn scan_name_chars(&mut self, cur: &mut Cur) {
        let b = cur.bytes();
        loop {
            match b.get(cur.pos) {
                None => break,
                Some(&x) if x < 0x80 => {
                    if matches!(x, b'a'..=b'z' | b'A'..=b'Z' | b'0'..=b'9' | b':' | b'_' | b'-' | b'.')
                    {
                        cur.pos += 1;
                    } else {
                        break;
                    }
                }
                Some(_) => {
                    let c = match cur.peek_char() {
                        Some(c) => c,
                        None => break,
                    };
                    if is_name_char(c) {
                        self.info.has_non_ascii_name = true;
                        if !is_name_char_4th_safe(c) {
                            self.info.names_4th_edition_safe = false;
                        }
                        cur.pos += c.len_utf8();
                    } else {
                        break;
                    }
                }
            }
        }
    }

    // ------------------------------------------------------------ references

    /// [67] Reference, cursor at '&'.  Syntax and WFC Legal Character only.
    pub fn parse_reference<'a>(&mut self, cur: &mut Cur<'a>, ctx: &'static str) -> R<Ref<'a>> {
        let amp = cur.pos;
        cur.pos += 1;
        if cur.eat_byte(b'#') {
            let hex = cur.eat_byte(b'x');
            let mut n: u32 = 0;
            let mut digits = 0usize;
            while let Some(b) = cur.peek() {
                let d = match b {
                    b'0'..=b'9' => (b - b'0') as u32,
                    b'a'..=b'f' if hex => (b - b'a') as u32 + 10,
                    b'A'..=b'F' if hex => (b - b'A') as u32 + 10,
                    _ => break,
                };
                n = n
                    .saturating_mul(if hex { 16 } else { 10 })
                    .saturating_add(d);
                if n > 0x11_0000 {
                    n = 0x11_0000;
                }
                digits += 1;
                cur.pos += 1;
            }
            if digits == 0 || !cur.eat_byte(b';') {
                return self.ill("charref-syntax", ctx, amp);
            }
            if !is_char_code(n) {
                return self.ill("charref-not-char", ctx, amp);
            }
            match char::from_u32(n) {
                Some(c) => Ok(Ref::Char(c)),
                None => self.ill("charref-not-char", ctx, amp),
            }
        } else {
            let s = cur.s;
            match self.scan_name(cur) {
                None => self.ill("bare-amp", ctx, amp),
                Some((a, b)) => {
                    if !cur.eat_byte(b';') {
                        return self.ill("entity-ref-syntax", ctx, amp);
                    }
                    let name = &s[a..b];
                    if self.ns.active() && name.contains(':') {
                        self.ns.violate("entity-name-colon");
                    }
                    Ok(Ref::Entity(name))
                }
            }
        }
    }

    pub fn resolve(&self, name: &str) -> Resolved {
        if let Some(c) = predefined(name) {
            return Resolved::Predef(c);
        }
        match self.ent_index.get(name) {
            Some(&i) => Resolved::Declared(i),
            None => Resolved::Undeclared,
        }
    }

    pub fn charge_expansion(&mut self, len: usize, pos: usize) -> R<()> {
        self.expanded = self.expanded.saturating_add(len).saturating_add(1);
        if self.expanded > EXPANSION_LIMIT {
            return self.outside("entity-expansion-limit", pos);
        }
        Ok(())
    }

    // -------------------------------------------------------------- document

    /// [1] document ::= prolog element Misc*
    pub fn parse_document(&mut self, input: &str) -> R<()> {
        let text: Rc<str> = Rc::from(input);
        let mut cur = Cur::new(&text, 0);
        if cur.starts_with("\u{FEFF}") {
            cur.pos += 3;
        }
        if cur.starts_with("<?xml") {
            let after = Cur::new(&text, cur.pos + 5).peek_char();
            if !matches!(after, Some(c) if is_name_char(c)) {
                self.parse_xmldecl(&mut cur)?;
            }
        }
        // prolog
        loop {
            cur.skip_space();
            let p = cur.pos;
            if cur.eof() {
                return self.ill("no-root", "prolog", p);
            }
            if cur.peek() != Some(b'<') {
                return self.ill("text-in-prolog", "prolog", p);
            }
            if cur.starts_with("<!--") {
                self.parse_comment(&mut cur, "prolog")?;
            } else if cur.starts_with("<?") {
                self.parse_pi(&mut cur, "prolog")?;
            } else if cur.starts_with("<!DOCTYPE") {
                if self.info.has_doctype {
                    return self.ill("multiple-doctypes", "prolog", p);
                }
                self.parse_doctype(&mut cur)?;
            } else if cur.starts_with("<![CDATA[") {
                return self.ill("cdata-outside-root", "prolog", p);
            } else if cur.starts_with("<!") {
                return self.ill("bad-markup-decl", "prolog", p);
            } else if cur.starts_with("</") {
                return self.ill("unmatched-end-tag", "prolog", p);
            } else {
                break;
            }
        }
        // root element
        self.frames.push(Frame {
            text: text.clone(),
            pos: cur.pos,
            ent: usize::MAX,
            base_depth: 0,
        });
        let empty = self.parse_start_tag(&mut cur)?;
        self.frames[0].pos = cur.pos;
        if !empty {
            self.parse_content()?;
            cur.pos = self.frames[0].pos;
        }
        // epilog
        loop {
            cur.skip_space();
            let p = cur.pos;
            if cur.eof() {
                return Ok(());
            }
            if cur.peek() != Some(b'<') {
                return self.ill("content-after-root", "epilog", p);
            }
            if cur.starts_with("<!--") {
                self.parse_comment(&mut cur, "epilog")?;
            } else if cur.starts_with("<?") {
                self.parse_pi(&mut cur, "epilog")?;
            } else if cur.starts_with("<!DOCTYPE") {
                return self.ill("doctype-after-root", "epilog", p);
            } else if cur.starts_with("<![CDATA[") {
                return self.ill("content-after-root", "epilog", p);
            } else if cur.starts_with("<!") {
                return self.ill("bad-markup-decl", "epilog", p);
            } else if cur.starts_with("</") {
                return self.ill("unmatched-end-tag", "epilog", p);
            } else {
                return self.ill("multiple-roots", "epilog", p);
            }
        }
    }

    // --------------------------------------------------------------- XMLDecl

    fn xd_eq_quote(&mut self, cur: &mut Cur, start: usize) -> R<u8> {
        cur.skip_space();
        if !cur.eat_byte(b'=') {
            return self.ill("bad-xmldecl", "xmldecl", start);
        }
        cur.skip_space();
        match cur.peek() {
            Some(q @ (b'"' | b'\'')) => {
                cur.pos += 1;
                Ok(q)
            }
            _ => self.ill("bad-xmldecl", "xmldecl", start),
        }
    }

    /// [23] XMLDecl ::= '<?xml' VersionInfo EncodingDecl? SDDecl? S? '?>'
    fn parse_xmldecl(&mut self, cur: &mut Cur) -> R<()> {
        let start = cur.pos;
        macro_rules! bad {
            () => {
                return self.ill("bad-xmldecl", "xmldecl", start)
            };
        }
        cur.pos += 5;
        if !cur.skip_space() {
            bad!();
        }
        if !cur.eat("version") {
            bad!();
        }
        let q = self.xd_eq_quote(cur, start)?;
        // [26] VersionNum ::= '1.' [0-9]+
        let vstart = cur.pos;
        if !cur.eat("1.") {
            bad!();
        }
        let dstart = cur.pos;
        while matches!(cur.peek(), Some(b'0'..=b'9')) {
            cur.pos += 1;
        }
        if cur.pos == dstart {
            bad!();
        }
        let version = &cur.s[vstart..cur.pos];
        if version != "1.0" {
            self.info.version_is_1_0 = false;
        }
        if !cur.eat_byte(q) {
            bad!();
        }
        let mut sp = cur.skip_space();
        let mut non_utf8 = false;
        if cur.starts_with("encoding") {
            if !sp {
                bad!();
            }
            cur.pos += 8;
            let q = self.xd_eq_quote(cur, start)?;
            let estart = cur.pos;
            match cur.peek_char() {
                Some(c) if is_enc_name_start(c) => cur.pos += 1,
                _ => bad!(),
            }
            while matches!(cur.peek_char(), Some(c) if is_enc_name_char(c)) {
                cur.pos += 1;
            }
            let enc = &cur.s[estart..cur.pos];
            if !enc.eq_ignore_ascii_case("utf-8") {
                non_utf8 = true;
            }
            if !cur.eat_byte(q) {
                bad!();
            }
            sp = cur.skip_space();
        }
        if cur.starts_with("standalone") {
            if !sp {
                bad!();
            }
            cur.pos += 10;
            let q = self.xd_eq_quote(cur, start)?;
            if cur.eat("yes") {
                self.standalone_yes = true;
            } else if !cur.eat("no") {
                bad!();
            }
            if !cur.eat_byte(q) {
                bad!();
            }
            cur.skip_space();
        }
        if !cur.eat("?>") {
            bad!();
        }
        if non_utf8 {
            return self.outside("encoding", start);
        }
        Ok(())
    }

    // ------------------------------------------------------------------ Misc

    /// [15] Comment, cursor at "<!--".
    pub fn parse_comment(&mut self, cur: &mut Cur, _ctx: &'static str) -> R<()> {
        let start = cur.pos;
        cur.pos += 4;
        match find_from(cur.s, cur.pos, "--") {
            None => {
                let r = self.trunc("unterminated-comment");
                self.ill(r, "comment", start)
            }
            Some(i) => match cur.bytes().get(i + 2) {
                Some(b'>') => {
                    cur.pos = i + 3;
                    Ok(())
                }
                None => {
                    let r = self.trunc("unterminated-comment");
                    self.ill(r, "comment", start)
                }
                Some(_) => self.ill("comment-double-hyphen", "comment", i),
            },
        }
    }

    /// [16] PI, cursor at "<?".
    pub fn parse_pi(&mut self, cur: &mut Cur, _ctx: &'static str) -> R<()> {
        let start = cur.pos;
        cur.pos += 2;
        let s = cur.s;
        let (a, b) = match self.scan_name(cur) {
            Some(r) => r,
            None => {
                if cur.eof() {
                    let r = self.trunc("unterminated-pi");
                    return self.ill(r, "pi", start);
                }
                return self.ill("bad-pi-target", "pi", start);
            }
        };
        let target = &s[a..b];
        if target == "xml" {
            return self.ill("xmldecl-not-first", "pi", start);
        }
        if target.eq_ignore_ascii_case("xml") {
            return self.ill("reserved-pi-target", "pi", start);
        }
        if self.ns.active() && target.contains(':') {
            self.ns.violate("pi-target-colon");
        }
        if cur.eat("?>") {
            return Ok(());
        }
        if cur.at_space() {
            return match find_from(cur.s, cur.pos, "?>") {
                Some(i) => {
                    cur.pos = i + 2;
                    Ok(())
                }
                None => {
                    let r = self.trunc("unterminated-pi");
                    self.ill(r, "pi", start)
                }
            };
        }
        if cur.eof() || (cur.peek() == Some(b'?') && cur.peek_at(1).is_none()) {
            let r = self.trunc("unterminated-pi");
            return self.ill(r, "pi", start);
        }
        self.ill("pi-missing-space", "pi", cur.pos)
    }
}
