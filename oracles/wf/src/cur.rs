//! A tiny cursor over a `&str`.  `pos` is always kept on a char boundary.

#[derive(Clone, Copy)]
pub(crate) struct Cur<'a> {
    pub s: &'a str,
    pub pos: usize,
}

impl<'a> Cur<'a> {
    #[inline]
    pub fn new(s: &'a str, pos: usize) -> Self {
        Cur { s, pos }
    }
    #[inline]
    pub fn bytes(&self) -> &'a [u8] {
        self.s.as_bytes()
    }
    #[inline]
    pub fn eof(&self) -> bool {
        self.pos >= self.s.len()
    }
    #[inline]
    pub fn peek(&self) -> Option<u8> {
        self.s.as_bytes().get(self.pos).copied()
    }
    #[inline]
    pub fn peek_at(&self, n: usize) -> Option<u8> {
        self.s.as_bytes().get(self.pos + n).copied()
    }
    #[inline]
    pub fn peek_char(&self) -> Option<char> {
        match self.peek() {
            None => None,
            Some(b) if b < 0x80 => Some(b as char),
            Some(_) => self.s[self.pos..].chars().next(),
        }
    }
    #[inline]
    pub fn starts_with(&self, p: &str) -> bool {
        self.s.as_bytes()[self.pos.min(self.s.len())..].starts_with(p.as_bytes())
    }
    /// Consume the ASCII string `p` if present.
    #[inline]
    pub fn eat(&mut self, p: &str) -> bool {
        if self.starts_with(p) {
            self.pos += p.len();
            true
        } else {
            false
        }
    }
    #[inline]
    pub fn eat_byte(&mut self, b: u8) -> bool {
        if self.peek() == Some(b) {
            self.pos += 1;
            true
        } else {
            false
        }
    }
    /// S? — returns true when at least one white space character was skipped.
    #[inline]
    pub fn skip_space(&mut self) -> bool {
        let b = self.s.as_bytes();
        let start = self.pos;
        while self.pos < b.len() && matches!(b[self.pos], b' ' | b'\t' | b'\r' | b'\n') {
            self.pos += 1;
        }
        self.pos > start
    }
    #[inline]
    pub fn at_space(&self) -> bool {
        matches!(self.peek(), Some(b' ' | b'\t' | b'\r' | b'\n'))
    }
}
