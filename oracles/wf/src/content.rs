//! Elements, attributes, content, and general-entity expansion.

use std::rc::Rc;

use crate::chars::*;
use crate::cur::Cur;
use crate::parser::*;

const SMALL_ATTRS: usize = 12;

impl Parser {
    /// [40] STag / [44] EmptyElemTag, cursor at '<'.  Returns true for an
    /// empty-element tag.  Pushes the element on the stack otherwise.
    pub fn parse_start_tag(&mut self, cur: &mut Cur) -> R<bool> {
        let lt = cur.pos;
        cur.pos += 1;
        let s = cur.s;
        let (na, nb) = match self.scan_name(cur) {
            Some(r) => r,
            None => {
                return match cur.peek() {
                    None => {
                        let r = self.trunc("unterminated-tag");
                        self.ill(r, "start-tag", lt)
                    }
                    Some(b'>') | Some(b'/') => self.ill("empty-name", "start-tag", lt),
                    Some(_) => self.ill("bad-name-start", "start-tag", cur.pos),
                };
            }
        };
        let ns_on = self.ns.active();
        self.attr_names.clear();
        self.attr_set.clear();
        self.ns_attrs.clear();
        let empty;
        loop {
            let sp = cur.skip_space();
            let p = cur.pos;
            match cur.peek() {
                None => {
                    let r = self.trunc("unterminated-tag");
                    return self.ill(r, "start-tag", lt);
                }
                Some(b'>') => {
                    cur.pos += 1;
                    empty = false;
                    break;
                }
                Some(b'/') => {
                    match cur.peek_at(1) {
                        Some(b'>') => {
                            cur.pos += 2;
                            empty = true;
                            break;
                        }
                        None => {
                            let r = self.trunc("unterminated-tag");
                            return self.ill(r, "start-tag", lt);
                        }
                        Some(_) => return self.ill("bad-empty-tag", "start-tag", p),
                    };
                }
                Some(_) => {}
            }
            let c = cur.peek_char().unwrap_or('\0');
            if !is_name_start_char(c) {
                let rule = if sp { "bad-name-start" } else { "bad-name-char" };
                return self.ill(rule, "start-tag", p);
            }
            if !sp {
                return self.ill("missing-attr-space", "start-tag", p);
            }
            let (aa, ab) = match self.scan_name(cur) {
                Some(r) => r,
                None => return self.ill("bad-name-start", "start-tag", p),
            };
            let aname = &s[aa..ab];
            // WFC: Unique Att Spec
            let dup = if self.attr_names.len() < SMALL_ATTRS {
                self.attr_names.iter().any(|&(x, y)| &s[x..y] == aname)
            } else {
                if self.attr_set.is_empty() {
                    for &(x, y) in &self.attr_names {
                        self.attr_set.insert(s[x..y].into());
                    }
                }
                !self.attr_set.insert(aname.into())
            };
            if dup {
                return self.ill("dup-attr", "start-tag", aa);
            }
            self.attr_names.push((aa, ab));
            cur.skip_space();
            if !cur.eat_byte(b'=') {
                if cur.eof() {
                    let r = self.trunc("unterminated-tag");
                    return self.ill(r, "start-tag", lt);
                }
                return self.ill("missing-attr-eq", "start-tag", cur.pos);
            }
            cur.skip_space();
            match cur.peek() {
                Some(b'"') | Some(b'\'') => {}
                None => {
                    let r = self.trunc("unterminated-tag");
                    return self.ill(r, "start-tag", lt);
                }
                Some(_) => return self.ill("missing-attr-quote", "start-tag", cur.pos),
            }
            if ns_on {
                let is_decl = aname == "xmlns" || aname.starts_with("xmlns:");
                if is_decl {
                    let mut v = String::new();
                    self.parse_att_value(cur, "attr-value", Some(&mut v))?;
                    self.ns_attrs.push((aname.into(), Some(v)));
                } else {
                    self.parse_att_value(cur, "attr-value", None)?;
                    if aname.contains(':') || !is_name(aname) {
                        self.ns_attrs.push((aname.into(), None));
                    }
                }
            } else {
                self.parse_att_value(cur, "attr-value", None)?;
            }
        }
        let name = &s[na..nb];
        self.info.element_count += 1;
        let depth = self.elems.len() + 1;
        if depth > self.info.max_depth {
            self.info.max_depth = depth;
        }
        if self.ns.active() {
            let attrs = std::mem::take(&mut self.ns_attrs);
            self.ns.start_element(name, &attrs);
            self.ns_attrs = attrs;
            if empty {
                self.ns.end_element();
            }
        }
        if !empty {
            self.elems.push(name.into());
        }
        Ok(empty)
    }

    /// [10] AttValue, cursor at the opening quote.  Checks WFC No < in
    /// Attribute Values, No External Entity References, Entity Declared,
    /// Parsed Entity, No Recursion, Legal Character.  If `out` is given the
    /// normalized value (3.3.3, CDATA type) is appended to it.
    pub fn parse_att_value(
        &mut self,
        cur: &mut Cur,
        ctx: &'static str,
        mut out: Option<&mut String>,
    ) -> R<()> {
        let open = cur.pos;
        let q = cur.peek().unwrap_or(b'"');
        cur.pos += 1;
        let b = cur.bytes();
        loop {
            // run of ordinary characters
            let run = cur.pos;
            while cur.pos < b.len() {
                let x = b[cur.pos];
                if x == q || x == b'<' || x == b'&' {
                    break;
                }
                cur.pos += 1;
            }
            if let Some(o) = out.as_deref_mut() {
                let seg = &cur.s[run..cur.pos];
                let mut prev_cr = false;
                for ch in seg.chars() {
                    match ch {
                        '\r' => {
                            o.push(' ');
                            prev_cr = true;
                            continue;
                        }
                        '\n' => {
                            if !prev_cr {
                                o.push(' ');
                            }
                        }
                        '\t' | ' ' => o.push(' '),
                        c => o.push(c),
                    }
                    prev_cr = false;
                }
            }
            match cur.peek() {
                None => {
                    let r = self.trunc("unterminated-attr-value");
                    return self.ill(r, ctx, open);
                }
                Some(x) if x == q => {
                    cur.pos += 1;
                    return Ok(());
                }
                Some(b'<') => return self.ill("lt-in-attr-value", ctx, cur.pos),
                Some(_) => {
                    let amp = cur.pos;
                    match self.parse_reference(cur, ctx)? {
                        Ref::Char(c) => {
                            if let Some(o) = out.as_deref_mut() {
                                o.push(c);
                            }
                        }
                        Ref::Entity(name) => {
                            self.expand_attr_entity(name, amp, ctx, out.as_deref_mut())?
                        }
                    }
                }
            }
        }
    }

    /// Entity reference inside an attribute value ("Included in Literal").
    fn expand_attr_entity(
        &mut self,
        name: &str,
        amp: usize,
        ctx: &'static str,
        mut out: Option<&mut String>,
    ) -> R<()> {
        let first = match self.resolve(name) {
            Resolved::Predef(c) => {
                if let Some(o) = out {
                    o.push(c);
                }
                return Ok(());
            }
            Resolved::Undeclared => return self.undeclared(ctx, amp),
            Resolved::Declared(i) => i,
        };
        let saved = (self.in_entity, self.ref_offset);
        if !self.in_entity {
            // report everything found inside at the reference in the document
            self.ref_offset = amp;
            self.in_entity = true;
        }
        let mut stack: Vec<(Rc<str>, usize, usize)> = Vec::new();
        self.attr_push(first, &mut stack, ctx)?;
        while let Some(top) = stack.last() {
            let text = top.0.clone();
            let idx = top.2;
            let mut c = Cur::new(&text, top.1);
            let mut pushed = false;
            while let Some(ch) = c.peek_char() {
                match ch {
                    '<' => return self.ill("lt-in-entity-used-in-attr", ctx, amp),
                    '&' => match self.parse_reference(&mut c, ctx)? {
                        Ref::Char(x) => {
                            if let Some(o) = out.as_deref_mut() {
                                o.push(x);
                            }
                        }
                        Ref::Entity(n) => match self.resolve(n) {
                            Resolved::Predef(x) => {
                                if let Some(o) = out.as_deref_mut() {
                                    o.push(x);
                                }
                            }
                            Resolved::Undeclared => {
                                if ctx == "attlist-default" {
                                    // Reached only through another entity's replacement
                                    // text; whether "declared before the ATTLIST" applies
                                    // to such indirect references is arguable.  Decline.
                                    return self
                                        .outside("indirect-undeclared-entity-in-attlist-default", amp);
                                }
                                return self.undeclared(ctx, amp);
                            }
                            Resolved::Declared(j) => {
                                if let Some(t) = stack.last_mut() {
                                    t.1 = c.pos;
                                }
                                self.attr_push(j, &mut stack, ctx)?;
                                pushed = true;
                                break;
                            }
                        },
                    },
                    ']' if c.starts_with("]]>") => {
                        // The replacement text does not match `content`, so the
                        // entity is not well-formed by the letter of 4.3.2, but
                        // it is only ever included in a literal.  Decline.
                        return self.outside("cdata-end-in-entity-used-in-attr", amp);
                    }
                    ' ' | '\t' | '\r' | '\n' => {
                        if let Some(o) = out.as_deref_mut() {
                            o.push(' ');
                        }
                        c.pos += 1;
                    }
                    x => {
                        if let Some(o) = out.as_deref_mut() {
                            o.push(x);
                        }
                        c.pos += x.len_utf8();
                    }
                }
            }
            if !pushed {
                self.entities[idx].active = false;
                stack.pop();
            }
        }
        self.in_entity = saved.0;
        self.ref_offset = saved.1;
        Ok(())
    }

    fn attr_push(
        &mut self,
        idx: usize,
        stack: &mut Vec<(Rc<str>, usize, usize)>,
        ctx: &'static str,
    ) -> R<()> {
        let pos = self.ref_offset;
        match &self.entities[idx].kind {
            EntKind::Unparsed => self.ill("unparsed-entity-ref", ctx, pos),
            EntKind::ExternalParsed => self.ill("external-entity-in-attr", ctx, pos),
            EntKind::Internal(t) => {
                if self.entities[idx].active {
                    return self.ill("entity-recursion", ctx, pos);
                }
                let t = t.clone();
                self.charge_expansion(t.len(), pos)?;
                self.entities[idx].active = true;
                stack.push((t, 0, idx));
                Ok(())
            }
        }
    }

    /// [43] content up to and including the end tag of the root element.
    /// Works on `self.frames` (document entity at index 0, then the chain of
    /// internal general entities currently being included).
    pub fn parse_content(&mut self) -> R<()> {
        loop {
            let fi = self.frames.len() - 1;
            let text = self.frames[fi].text.clone();
            let mut cur = Cur::new(&text, self.frames[fi].pos);
            let in_ent = fi > 0;
            let b = cur.bytes();
            match cur.peek() {
                None => {
                    if !in_ent {
                        return self.ill("unclosed-element", "content", cur.pos);
                    }
                    if self.elems.len() != self.frames[fi].base_depth {
                        return self.ill("entity-content-not-wf", "content", cur.pos);
                    }
                    let e = self.frames[fi].ent;
                    self.entities[e].active = false;
                    self.frames.pop();
                    if self.frames.len() == 1 {
                        self.in_entity = false;
                    }
                    continue;
                }
                Some(b'<') => match cur.peek_at(1) {
                    Some(b'/') => {
                        let lt = cur.pos;
                        cur.pos += 2;
                        let (a, e) = match self.scan_name(&mut cur) {
                            Some(r) => r,
                            None => {
                                if cur.eof() {
                                    let r = self.trunc("unterminated-tag");
                                    return self.ill(r, "end-tag", lt);
                                }
                                return self.ill("bad-name-start", "end-tag", cur.pos);
                            }
                        };
                        cur.skip_space();
                        if !cur.eat_byte(b'>') {
                            if cur.eof() {
                                let r = self.trunc("unterminated-tag");
                                return self.ill(r, "end-tag", lt);
                            }
                            return self.ill("bad-end-tag", "end-tag", cur.pos);
                        }
                        if self.elems.len() <= self.frames[fi].base_depth {
                            // closes an element that was opened outside this entity
                            return self.ill("entity-content-not-wf", "end-tag", lt);
                        }
                        let ok = match self.elems.last() {
                            Some(n) => **n == text[a..e],
                            None => false,
                        };
                        if !ok {
                            return self.ill("end-tag-mismatch", "end-tag", lt);
                        }
                        self.elems.pop();
                        self.ns.end_element();
                        self.frames[fi].pos = cur.pos;
                        if self.elems.is_empty() {
                            return Ok(());
                        }
                        continue;
                    }
                    Some(b'!') => {
                        if cur.starts_with("<!--") {
                            self.parse_comment(&mut cur, "content")?;
                        } else if cur.starts_with("<![CDATA[") {
                            let start = cur.pos;
                            match find_from(&text, cur.pos + 9, "]]>") {
                                Some(i) => cur.pos = i + 3,
                                None => {
                                    let r = self.trunc("unterminated-cdata");
                                    return self.ill(r, "cdata", start);
                                }
                            }
                        } else if cur.starts_with("<![") {
                            return self.ill("bad-cdata-start", "content", cur.pos);
                        } else {
                            return self.ill("bad-markup-decl", "content", cur.pos);
                        }
                    }
                    Some(b'?') => self.parse_pi(&mut cur, "content")?,
                    _ => {
                        self.parse_start_tag(&mut cur)?;
                    }
                },
                Some(b'&') => {
                    let amp = cur.pos;
                    match self.parse_reference(&mut cur, "content")? {
                        Ref::Char(_) => {}
                        Ref::Entity(name) => match self.resolve(name) {
                            Resolved::Predef(_) => {}
                            Resolved::Undeclared => return self.undeclared("content", amp),
                            Resolved::Declared(i) => match &self.entities[i].kind {
                                EntKind::Unparsed => {
                                    return self.ill("unparsed-entity-ref", "content", amp)
                                }
                                EntKind::ExternalParsed => {}
                                EntKind::Internal(t) => {
                                    if self.entities[i].active {
                                        return self.ill("entity-recursion", "content", amp);
                                    }
                                    let t = t.clone();
                                    if !self.in_entity {
                                        self.ref_offset = amp;
                                        self.in_entity = true;
                                    }
                                    self.charge_expansion(t.len(), amp)?;
                                    self.entities[i].active = true;
                                    self.frames[fi].pos = cur.pos;
                                    self.frames.push(Frame {
                                        text: t,
                                        pos: 0,
                                        ent: i,
                                        base_depth: self.elems.len(),
                                    });
                                    continue;
                                }
                            },
                        },
                    }
                }
                Some(_) => {
                    // [14] CharData
                    let run = cur.pos;
                    let mut i = run;
                    while i < b.len() {
                        let x = b[i];
                        if x == b'<' || x == b'&' {
                            break;
                        }
                        if x == b'>' && i >= run + 2 && b[i - 1] == b']' && b[i - 2] == b']' {
                            return self.ill("cdata-end-in-content", "content", i - 2);
                        }
                        i += 1;
                    }
                    cur.pos = i;
                }
            }
            self.frames[fi].pos = cur.pos;
        }
    }
}
