//! Character classes of XML 1.0 (Fifth Edition), written from the
//! productions of the recommendation.

/// [2] Char ::= #x9 | #xA | #xD | [#x20-#xD7FF] | [#xE000-#xFFFD] | [#x10000-#x10FFFF]
#[inline]
pub fn is_char(c: char) -> bool {
    matches!(c as u32,
        0x9 | 0xA | 0xD | 0x20..=0xD7FF | 0xE000..=0xFFFD | 0x10000..=0x10FFFF)
}

/// [2] applied to a numeric code point (used for character references).
#[inline]
pub fn is_char_code(n: u32) -> bool {
    matches!(n, 0x9 | 0xA | 0xD | 0x20..=0xD7FF | 0xE000..=0xFFFD | 0x10000..=0x10FFFF)
}

/// [3] S ::= (#x20 | #x9 | #xD | #xA)+   (single character test)
#[inline]
pub fn is_xml_space(c: char) -> bool {
    matches!(c, ' ' | '\t' | '\r' | '\n')
}

/// [4] NameStartChar ::= ":" | [A-Z] | "_" | [a-z] | [#xC0-#xD6] | [#xD8-#xF6]
///   | [#xF8-#x2FF] | [#x370-#x37D] | [#x37F-#x1FFF] | [#x200C-#x200D]
///   | [#x2070-#x218F] | [#x2C00-#x2FEF] | [#x3001-#xD7FF] | [#xF900-#xFDCF]
///   | [#xFDF0-#xFFFD] | [#x10000-#xEFFFF]
#[inline]
pub fn is_name_start_char(c: char) -> bool {
    matches!(c as u32,
        0x3A | 0x41..=0x5A | 0x5F | 0x61..=0x7A
        | 0xC0..=0xD6 | 0xD8..=0xF6 | 0xF8..=0x2FF
        | 0x370..=0x37D | 0x37F..=0x1FFF
        | 0x200C..=0x200D | 0x2070..=0x218F | 0x2C00..=0x2FEF
        | 0x3001..=0xD7FF | 0xF900..=0xFDCF | 0xFDF0..=0xFFFD
        | 0x10000..=0xEFFFF)
}

/// [4a] NameChar ::= NameStartChar | "-" | "." | [0-9] | #xB7
///   | [#x0300-#x036F] | [#x203F-#x2040]
#[inline]
pub fn is_name_char(c: char) -> bool {
    is_name_start_char(c)
        || matches!(c as u32,
            0x2D | 0x2E | 0x30..=0x39 | 0xB7 | 0x300..=0x36F | 0x203F..=0x2040)
}

/// [13] PubidChar ::= #x20 | #xD | #xA | [a-zA-Z0-9] | [-'()+,./:=?;!*#@$_%]
#[inline]
pub fn is_pubid_char(c: char) -> bool {
    matches!(c,
        ' ' | '\r' | '\n' | 'a'..='z' | 'A'..='Z' | '0'..='9'
        | '-' | '\'' | '(' | ')' | '+' | ',' | '.' | '/' | ':' | '=' | '?'
        | ';' | '!' | '*' | '#' | '@' | '$' | '_' | '%')
}

/// [81] EncName ::= [A-Za-z] ([A-Za-z0-9._] | '-')*    (first character)
#[inline]
pub fn is_enc_name_start(c: char) -> bool {
    c.is_ascii_alphabetic()
}

/// [81] EncName, subsequent characters.
#[inline]
pub fn is_enc_name_char(c: char) -> bool {
    c.is_ascii_alphanumeric() || matches!(c, '.' | '_' | '-')
}

/// [5] Name ::= NameStartChar (NameChar)*
pub fn is_name(s: &str) -> bool {
    let mut it = s.chars();
    match it.next() {
        Some(c) if is_name_start_char(c) => it.all(is_name_char),
        _ => false,
    }
}

/// [7] Nmtoken ::= (NameChar)+
pub fn is_nmtoken(s: &str) -> bool {
    !s.is_empty() && s.chars().all(is_name_char)
}

/// Namespaces in XML 1.0 [4] NCName ::= Name - (Char* ':' Char*)
pub fn is_ncname(s: &str) -> bool {
    is_name(s) && !s.contains(':')
}

/// Namespaces in XML 1.0 [7] QName ::= PrefixedName | UnprefixedName
/// PrefixedName ::= NCName ':' NCName ; UnprefixedName ::= NCName
pub fn is_qname(s: &str) -> bool {
    match s.find(':') {
        None => is_ncname(s),
        Some(i) => is_ncname(&s[..i]) && is_ncname(&s[i + 1..]),
    }
}

/// Conservative test: is `c` a name character (in the given position class)
/// in BOTH the 4th and the 5th edition?  We only vouch for ASCII name
/// characters and the Latin-1 letters.
#[inline]
pub fn is_name_char_4th_safe(c: char) -> bool {
    let n = c as u32;
    if n < 0x80 {
        return true; // ASCII name chars are identical in both editions
    }
    matches!(n, 0xC0..=0xD6 | 0xD8..=0xF6 | 0xF8..=0xFF)
}
