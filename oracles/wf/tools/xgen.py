#!/usr/bin/env python3
"""Grammar-based generator of well-formed XML 1.0 documents plus token- and
character-level mutators.  Used by xcheck.py (differential campaign)."""
import random
import re

ASCII_NAMES = ['a', 'b', 'c', 'd', 'x', 'y', 'z', 'el', 'A', '_', '_a', 'a1', 'a-b', 'a.b', 'n0', 'Xml', 'xmlA',
               'ID', 'CDATA', 'ANY', 'EMPTY', 'yes', 'version']
COLON_NAMES = ['p:a', 'q:b', 'p:x', ':a', 'a:', 'a:b:c', 'xml:lang', 'xml:space', 'xmlns:p', 'xmlns:q']
# Latin-1 letters: name chars in both the 4th and 5th edition
LATIN_NAMES = ['él', 'naïve', 'À', 'Øx', 'aÿ']
# name chars in the 5th edition only / differing between editions
ED5_NAMES = ['αβ', 'a·', 'à', '中文', '\U00010000a', 'a‿', '‌', '⁰', 'Ā',
             'Ĳ', 'Ⰰ', 'ﷰ', 'a·', '℮', '℘']

TEXT_CHUNKS = ['text', ' ', '\n', '\t', '\r\n', '\r', 'x y', '>', ']', ']]', ']>', '"', "'", '-', '--', '?', '?>', '%', '%p;', '/',
               '=', '#', ';', '!', 'é', '中', '\U0001F600', '\u007f', '\u0080', '\u009f', '�', '퟿',
               '', '\U0010ffff', '(', ')', '[', '|', ',', '*', '+', 'CDATA', '0', '1.0']
CHARREFS = ['&#9;', '&#10;', '&#13;', '&#32;', '&#x20;', '&#65;', '&#x41;', '&#x3c;', '&#60;', '&#38;', '&#x26;', '&#62;',
            '&#xe9;', '&#x4E2D;', '&#x10000;', '&#x10FFFF;', '&#xD7FF;', '&#xE000;', '&#xFFFD;', '&#0065;',
            '&#x000041;', '&#34;', '&#39;', '&#93;']
PREDEF = ['&lt;', '&gt;', '&amp;', '&apos;', '&quot;']


class Gen:
    def __init__(self, rng, nonascii=0.08, ed5=0.04, dtd_heavy=False):
        self.r = rng
        self.dtd_heavy = dtd_heavy
        self.nonascii = nonascii
        self.ed5 = ed5
        self.text_ents = []      # usable in attribute values and content
        self.markup_ents = []    # content only
        self.ext_ents = []       # external parsed: content only
        self.unparsed = []
        self.notations = []
        self.ent_decls = {}      # name -> declaration string
        self.use_ns = rng.random() < 0.25
        self.prefixes = []

    # ------------------------------------------------------------ lexical
    def name(self, colon_ok=True):
        r = self.r
        x = r.random()
        if x < self.ed5:
            return r.choice(ED5_NAMES)
        if x < self.ed5 + self.nonascii:
            return r.choice(LATIN_NAMES)
        if colon_ok and x < self.ed5 + self.nonascii + 0.04:
            return r.choice(COLON_NAMES[:7])
        n = r.choice(ASCII_NAMES)
        if r.random() < 0.2:
            n += r.choice(['1', '-', '.', '_', 'b', 'Z9'])
        return n

    def sp(self, req=True):
        r = self.r
        if req:
            return r.choice([' ', ' ', ' ', '\n', '\t', '  ', '\r\n', ' \n '])
        return r.choice(['', '', '', ' ', '\n'])

    def quote(self, s):
        """quote s (which must already be free of forbidden chars except quotes)"""
        if '"' in s and "'" in s:
            raise ValueError
        if '"' in s:
            return "'" + s + "'"
        if "'" in s:
            return '"' + s + '"'
        q = self.r.choice('"\'')
        return q + s + q

    def comment(self):
        r = self.r
        body = ''.join(r.choice(['c', ' ', '-x', '- ', '<', '&', '>', ']]>', '<a>', '&e;', '?>', '%p;', 'é', '<!', "'", '"'])
                       for _ in range(r.randint(0, 5)))
        body = body.replace('--', '- -')
        if body.endswith('-'):
            body += ' '
        return '<!--' + body + '-->'

    def pi(self):
        r = self.r
        t = r.choice(['p', 'pi', 'xml-stylesheet', 'xmlx', 'XML.a', 'x', '_t', 'target', 'php', 'xm'])
        if r.random() < 0.05:
            t = self.name(False)
            if t.lower() == 'xml':
                t = 'p'
        if r.random() < 0.3:
            return '<?' + t + '?>'
        body = ''.join(r.choice(['d', ' ', '?', '>', '<', '&', '--', ']]>', '"', "'", 'a="b"', 'é', '%'])
                       for _ in range(r.randint(0, 5)))
        body = body.replace('?>', '? >')
        return '<?' + t + self.sp() + body + '?>'

    def misc(self, n=2):
        r = self.r
        out = []
        for _ in range(r.randint(0, n)):
            out.append(r.choice([self.comment, self.pi, lambda: self.sp()])())
        return ''.join(out)

    # ------------------------------------------------------------ values
    def att_value_body(self, quote, allow_ents=True, ents=None):
        """body of an AttValue for the given quote char"""
        r = self.r
        out = []
        for _ in range(r.randint(0, 4)):
            x = r.random()
            if x < 0.5:
                c = r.choice(TEXT_CHUNKS)
            elif x < 0.65:
                c = r.choice(CHARREFS)
            elif x < 0.8:
                c = r.choice(PREDEF)
            elif allow_ents and (ents if ents is not None else self.text_ents):
                c = '&' + r.choice(ents if ents is not None else self.text_ents) + ';'
            else:
                c = r.choice([']]>', 'v', '>'])
            out.append(c)
        s = ''.join(out)
        s = s.replace(quote, '')
        return s

    def att_value(self, ents=None):
        q = self.r.choice('"\'')
        return q + self.att_value_body(q, True, ents) + q

    def text(self):
        r = self.r
        s = ''.join(r.choice(TEXT_CHUNKS) for _ in range(r.randint(1, 4)))
        return s.replace(']]>', ']] >')

    def cdata(self):
        r = self.r
        s = ''.join(r.choice(TEXT_CHUNKS + ['<', '&', '<a>', '&e;', '<![CDATA[', ']]', '</a>', '&#0;']) for _ in range(r.randint(0, 4)))
        s = s.replace(']]>', ']] >')
        if s.endswith(']') and r.random() < 0.5:
            pass  # "]]]>" endings are legal
        return '<![CDATA[' + s + ']]>'

    # ------------------------------------------------------------ elements
    def attrs(self, depth):
        r = self.r
        out = []
        used = set()
        for _ in range(r.choice([0, 0, 0, 1, 1, 2, 3, 6, 14]) if r.random() < 0.9 else 20):
            n = self.name()
            if n in used or n.startswith('xmlns'):
                continue
            used.add(n)
            out.append(self.sp() + n + self.sp(False) + '=' + self.sp(False) + self.att_value())
        if self.use_ns and r.random() < 0.3:
            p = r.choice(['p', 'q', 'r'])
            if 'xmlns:' + p not in used:
                used.add('xmlns:' + p)
                out.append(' xmlns:' + p + '=' + self.quote(r.choice(['u', 'urn:x', 'http://e/' + p])))
                self.prefixes.append(p)
        if self.use_ns and r.random() < 0.15 and 'xmlns' not in used:
            out.append(' xmlns=' + self.quote(r.choice(['', 'u', 'urn:d'])))
        r.shuffle(out)
        return ''.join(out)

    def element(self, depth, in_entity=False, ents_ok=True):
        r = self.r
        n = self.name()
        if self.use_ns and self.prefixes and r.random() < 0.4:
            n = r.choice(self.prefixes) + ':' + r.choice(['a', 'b', 'c'])
        a = self.attrs(depth) if not in_entity else ''
        if in_entity and r.random() < 0.3:
            a = ' ' + r.choice(['x', 'y']) + '=' + self.att_value(ents=[])
        if r.random() < 0.3:
            return '<' + n + a + self.sp(False) + '/>'
        body = self.content(depth + 1, in_entity, ents_ok)
        return '<' + n + a + self.sp(False) + '>' + body + '</' + n + self.sp(False) + '>'

    def content(self, depth, in_entity=False, ents_ok=True, ents=None):
        r = self.r
        out = []
        k = r.randint(0, 5) if depth < 6 else r.randint(0, 1)
        for _ in range(k):
            x = r.random()
            if x < 0.3:
                out.append(self.text())
            elif x < 0.5 and depth < 7:
                out.append(self.element(depth, in_entity, ents_ok))
            elif x < 0.58:
                out.append(r.choice(CHARREFS))
            elif x < 0.66:
                out.append(r.choice(PREDEF))
            elif x < 0.73:
                out.append(self.cdata())
            elif x < 0.79:
                out.append(self.comment())
            elif x < 0.85:
                out.append(self.pi())
            elif ents_ok:
                pool = ents if ents is not None else (self.text_ents + self.markup_ents + self.ext_ents)
                if pool:
                    out.append('&' + r.choice(pool) + ';')
        return ''.join(out)

    # ------------------------------------------------------------ DTD
    def entity_literal(self, s):
        """turn replacement-ish text into an EntityValue literal"""
        s = s.replace('%', '&#37;').replace('&#0;', '&#38;#0;')
        s = re.sub(r'&(?!(#[0-9]+;|#x[0-9a-fA-F]+;|[A-Za-z_][A-Za-z0-9_.\-]*;))', '&#38;', s)
        if '"' in s and "'" in s:
            s = s.replace('"', '&#34;')
        return self.quote(s)

    def ext_id(self, public_only_ok=False):
        r = self.r
        sysl = self.quote(r.choice(['nonexistent-%d.dtd' % r.randint(0, 9), 'urn:none', '', "it's", 'a"b', 'x#frag', 'a b', 'é.dtd', '%p;', '&e;', '<>']))
        if r.random() < 0.5:
            return 'SYSTEM' + self.sp() + sysl
        pub = r.choice(['-//W3C//DTD X//EN', '', 'a b', "it's", '-\'()+,./:=?;!*#@$_%', 'p\nq', 'ABC xyz 019'])
        pq = '"' + pub + '"' if "'" in pub else self.quote(pub)
        if public_only_ok and r.random() < 0.5:
            return 'PUBLIC' + self.sp() + pq
        return 'PUBLIC' + self.sp() + pq + self.sp() + sysl

    def plan_entities(self):
        r = self.r
        k = r.choice([2, 3, 5, 8, 12]) if self.dtd_heavy else r.choice([0, 0, 1, 2, 3, 5, 8])
        names = []
        for i in range(k):
            n = r.choice(['e', 'f', 'g', 'ent', 'E', 'e.1', '_e']) + str(i)
            if r.random() < 0.05:
                n = r.choice(LATIN_NAMES) + str(i)
            names.append(n)
        # entity i may only reference entities with larger index (acyclic)
        kinds = {}
        for i in reversed(range(k)):
            n = names[i]
            x = r.random()
            later_text = [m for m in names[i + 1:] if kinds[m] == 'text']
            later_any = [m for m in names[i + 1:] if kinds[m] in ('text', 'markup', 'ext')]
            if x < 0.45:
                kinds[n] = 'text'
                body = ''.join(r.choice(['v', ' ', 'w x', '&#38;#60;', '&#38;#38;', '&#38;lt;', '&amp;', '&lt;', '&#65;', '>', ']]', "'", '"', 'é', '&#x4e2d;', '&#37;', '\r\n', '&#13;', '&#10;', '\t']
                                        + ['&' + m + ';' for m in later_text]) for _ in range(r.randint(0, 4)))
                self.ent_decls[n] = '<!ENTITY' + self.sp() + n + self.sp() + self.entity_literal(body) + self.sp(False) + '>'
            elif x < 0.75:
                kinds[n] = 'markup'
                save = (self.text_ents, self.markup_ents, self.ext_ents)
                body = self.content(4, in_entity=True, ents=later_any) or '<b/>'
                if r.random() < 0.3:
                    body = body + r.choice(['&#60;b/>', '&#x3C;b>&#60;/b>', '<![CDATA[&#60;]]>'])
                (self.text_ents, self.markup_ents, self.ext_ents) = save
                try:
                    self.ent_decls[n] = '<!ENTITY' + self.sp() + n + self.sp() + self.entity_literal(body) + self.sp(False) + '>'
                except ValueError:
                    kinds[n] = 'text'
                    self.ent_decls[n] = '<!ENTITY ' + n + ' "v">'
            elif x < 0.83:
                kinds[n] = 'ext'
                self.ent_decls[n] = '<!ENTITY' + self.sp() + n + self.sp() + self.ext_id() + self.sp(False) + '>'
            elif x < 0.9:
                kinds[n] = 'unparsed'
                nn = r.choice(['n', 'gif', 'N1'])
                self.ent_decls[n] = '<!ENTITY' + self.sp() + n + self.sp() + self.ext_id() + self.sp() + 'NDATA' + self.sp() + nn + self.sp(False) + '>'
            else:
                kinds[n] = 'broken'  # never referenced from content or attribute values
                body = r.choice(['<b>', '</b>', '<', '&#60;', '&#38;', '&undeclared;', '&' + n + ';', '<!--', '<?p', ']]>', '<b x="1" x="2"/>',
                                 '<b></c>', '&#38;#0;', '<![CDATA[', '&#38;#x110000;', '<b a=">'] + ['&' + m + ';<b>' for m in names[i + 1:]])
                self.ent_decls[n] = '<!ENTITY' + self.sp() + n + self.sp() + self.entity_literal(body) + self.sp(False) + '>'
        self.kinds = kinds
        self.ent_names = names

    def content_model(self, depth=0):
        r = self.r
        def occ():
            return r.choice(['', '', '?', '*', '+'])
        def cp(d):
            if d < 3 and r.random() < 0.3:
                return group(d + 1) + occ()
            return self.name() + occ()
        def group(d):
            k = r.choice([1, 1, 2, 3])
            sep = r.choice([',', '|'])
            if k == 1:
                sep = ','
            items = [cp(d) for _ in range(k)]
            return '(' + self.sp(False) + (self.sp(False) + sep + self.sp(False)).join(items) + self.sp(False) + ')'
        return group(depth) + occ()

    def element_decl(self):
        r = self.r
        x = r.random()
        if x < 0.2:
            spec = 'EMPTY'
        elif x < 0.4:
            spec = 'ANY'
        elif x < 0.55:
            spec = '(' + self.sp(False) + '#PCDATA' + self.sp(False) + ')' + r.choice(['', '*'])
        elif x < 0.7:
            names = [self.name() for _ in range(r.randint(1, 3))]
            spec = '(' + self.sp(False) + '#PCDATA' + ''.join(self.sp(False) + '|' + self.sp(False) + n for n in names) + self.sp(False) + ')*'
        else:
            spec = self.content_model()
        return '<!ELEMENT' + self.sp() + self.name() + self.sp() + spec + self.sp(False) + '>'

    def attlist_decl(self, declared_text):
        r = self.r
        defs = []
        for _ in range(r.choice([0, 1, 1, 2, 4])):
            x = r.random()
            if x < 0.6:
                t = r.choice(['CDATA', 'ID', 'IDREF', 'IDREFS', 'ENTITY', 'ENTITIES', 'NMTOKEN', 'NMTOKENS'])
            elif x < 0.8:
                toks = [r.choice(['a', 'b', '1', '-', '.x', 'a:b', 'é', '0a', 'yes']) for _ in range(r.randint(1, 3))]
                t = '(' + self.sp(False) + (self.sp(False) + '|' + self.sp(False)).join(toks) + self.sp(False) + ')'
            else:
                toks = [r.choice(['n', 'gif', 'N1']) for _ in range(r.randint(1, 2))]
                t = 'NOTATION' + self.sp() + '(' + self.sp(False) + (self.sp(False) + '|' + self.sp(False)).join(toks) + self.sp(False) + ')'
            y = r.random()
            if y < 0.3:
                d = '#IMPLIED'
            elif y < 0.5:
                d = '#REQUIRED'
            elif y < 0.7:
                d = '#FIXED' + self.sp() + self.att_value(ents=declared_text)
            else:
                d = self.att_value(ents=declared_text)
            an = self.name()
            if an.startswith('xmlns'):
                an = 'x'
            defs.append(self.sp() + an + self.sp() + t + self.sp() + d)
        return '<!ATTLIST' + self.sp() + self.name() + ''.join(defs) + self.sp(False) + '>'

    def notation_decl(self):
        n = self.r.choice(['n', 'gif', 'N1', 'n2'])
        return '<!NOTATION' + self.sp() + n + self.sp() + self.ext_id(True) + self.sp(False) + '>'

    def transitively_declared(self, name, declared):
        """all entities reachable from `name` are in `declared`"""
        seen = set()
        todo = [name]
        while todo:
            n = todo.pop()
            if n in seen:
                continue
            seen.add(n)
            if n not in declared:
                return False
            for m in re.findall(r'&([^#;&\s]+);', self.ent_decls[n]):
                if m in self.ent_decls:
                    todo.append(m)
        return True

    def doctype(self):
        r = self.r
        self.plan_entities()
        root = self.name()
        s = '<!DOCTYPE' + self.sp() + root
        self.has_ext = False
        if r.random() < 0.25:
            s += self.sp() + self.ext_id()
            self.has_ext = True
        if r.random() < 0.85 or self.ent_names:
            decls = []
            order = list(self.ent_names)
            r.shuffle(order)
            items = [('ent', n) for n in order]
            for _ in range(r.randint(0, 3)):
                items.insert(r.randint(0, len(items)), ('elem', None))
            for _ in range(r.randint(0, 3)):
                items.insert(r.randint(0, len(items)), ('att', None))
            for _ in range(r.randint(0, 2)):
                items.insert(r.randint(0, len(items)), ('not', None))
            for _ in range(r.randint(0, 2)):
                items.insert(r.randint(0, len(items)), ('misc', None))
            declared = set()
            for kind, n in items:
                if kind == 'ent':
                    decls.append(self.ent_decls[n])
                    declared.add(n)
                    if r.random() < 0.05:
                        decls.append('<!ENTITY ' + n + ' "<dup>">')  # later duplicates are ignored
                elif kind == 'elem':
                    decls.append(self.element_decl())
                elif kind == 'att':
                    ok = [m for m in declared if self.kinds[m] == 'text' and self.transitively_declared(m, declared)]
                    decls.append(self.attlist_decl(ok))
                elif kind == 'not':
                    decls.append(self.notation_decl())
                else:
                    decls.append(r.choice([self.comment, self.pi])())
            body = ''.join(self.sp(False) + d for d in decls) + self.sp(False)
            s += self.sp(False) + '[' + body + ']'
        s += self.sp(False) + '>'
        self.text_ents = [n for n in self.ent_names if self.kinds[n] == 'text']
        self.markup_ents = [n for n in self.ent_names if self.kinds[n] == 'markup']
        self.ext_ents = [n for n in self.ent_names if self.kinds[n] == 'ext']
        return s

    def xmldecl(self):
        r = self.r
        def pa(n, v):
            return self.sp() + n + self.sp(False) + '=' + self.sp(False) + self.quote(v)
        s = '<?xml' + pa('version', '1.0' if r.random() < 0.93 else r.choice(['1.1', '1.2', '1.00', '1.10']))
        if r.random() < 0.4:
            s += pa('encoding', r.choice(['UTF-8', 'utf-8', 'Utf-8']))
        if r.random() < 0.3:
            s += pa('standalone', r.choice(['yes', 'no']))
        return s + self.sp(False) + '?>'

    def document(self):
        r = self.r
        out = []
        if r.random() < 0.03:
            out.append('﻿')
        if r.random() < 0.4:
            out.append(self.xmldecl())
        out.append(self.misc())
        if r.random() < (1.0 if self.dtd_heavy else 0.6):
            out.append(self.doctype())
            out.append(self.misc())
        if r.random() < 0.02:
            # a deep chain
            d = r.randint(20, 120)
            out.append('<a>' * d + self.content(6) + '</a>' * d)
        else:
            out.append(self.element(0))
        out.append(self.misc())
        return ''.join(out)


# ---------------------------------------------------------------- mutation

TOKEN_RE = re.compile(r'<!--|-->|<!\[CDATA\[|\]\]>|<!DOCTYPE|<!ENTITY|<!ELEMENT|<!ATTLIST|<!NOTATION|<\?xml|<\?|\?>|</|/>|&#x|&#|'
                      r'#[A-Z]+|[A-Za-z_][A-Za-z0-9_.\-]*|[0-9]+|\s+|.', re.S)

POOL = ['<', '>', '</', '/>', '<!--', '-->', '--', '-', '<?', '?>', '?', '<![CDATA[', ']]>', ']]', ']', '[', '&', ';', '&#', '&#x',
        '&lt;', '&amp;', '&e0;', '&f1;', '&undeclared;', '%', '%p;', "'", '"', '=', ' ', '\n', '\t', '\r', '<!DOCTYPE', '<!ENTITY',
        '<!ELEMENT', '<!ATTLIST', '<!NOTATION', '<!', 'SYSTEM', 'PUBLIC', 'NDATA', '#PCDATA', '#REQUIRED', '#IMPLIED', '#FIXED',
        'CDATA', 'ID', 'NMTOKENS', 'NOTATION', '(', ')', '|', ',', '*', '+', 'EMPTY', 'ANY', 'xml', 'XML', 'xMl', '<?xml version="1.0"?>',
        '<?xml', 'version', 'encoding', 'standalone', 'yes', 'no', '1.0', '1.1', 'UTF-8', 'a', 'b', 'x', 'e0', '\x00', '\x01', '\x0b',
        '\x0c', '\x1f', '￾', '￿', '·', '̀', '×', '÷', ';', ' ', '1', '.', ':', 'xmlns', 'xmlns:p="u"',
        ' x="1"', ' x=\'1\'', '<a>', '</a>', '<a/>', '<b>', '</b>', '&#0;', '&#xD800;', '&#x110000;', '&#xFFFE;', '&#65;', '&#x41;',
        '&#X41;', '&#99999999999;', '<!-- c -->', '<?p d?>', '<![CDATA[x]]>', '<!ENTITY e0 "v">', '<!ENTITY % p "v">',
        '<!ENTITY lt "&#38;#60;">', '<!ENTITY amp "&#38;">', '﻿', '#', '/', '!', '0', 'é', '中', '\U0001F600', '<![', 'INCLUDE',
        '<![INCLUDE[', '&#60;', '&#38;', '&#38;#60;', 'NDATA n', ' SYSTEM "s"', ' PUBLIC "p" "s"', ' PUBLIC "p"', "''", '""']


def tokenize(s):
    return TOKEN_RE.findall(s)


def mutate_tokens(r, doc, other=None):
    toks = tokenize(doc)
    if not toks:
        return doc
    for _ in range(r.choice([1, 1, 1, 2, 3])):
        if not toks:
            break
        i = r.randrange(len(toks))
        op = r.random()
        if op < 0.25:
            del toks[i]
        elif op < 0.4:
            toks.insert(i, toks[i])
        elif op < 0.65:
            toks[i] = r.choice(POOL)
        elif op < 0.85:
            toks.insert(i, r.choice(POOL))
        elif op < 0.93:
            j = r.randrange(len(toks))
            toks[i], toks[j] = toks[j], toks[i]
        elif other:
            ot = tokenize(other)
            if ot:
                a = r.randrange(len(ot))
                b = min(len(ot), a + r.randint(1, 6))
                toks[i:i] = ot[a:b]
        else:
            j = r.randrange(len(toks))
            a, b = min(i, j), max(i, j)
            del toks[a:b]
    return ''.join(toks)


CHAR_POOL = list('<>&;\'"=/?!-[]%#()|,*+ \n\t\rxa1:._') + ['\x00', '\x08', '\x0b', '\x7f', '\u0085', '·', '×', '̀',
                                                             '￾', '￿', '�', '\U00010000', '\U000f0000', ' ', 'é', 'X']


def mutate_chars(r, doc):
    s = list(doc)
    for _ in range(r.choice([1, 1, 1, 2, 3])):
        if not s:
            break
        i = r.randrange(len(s))
        op = r.random()
        if op < 0.35:
            del s[i]
        elif op < 0.7:
            s[i] = r.choice(CHAR_POOL)
        elif op < 0.9:
            s.insert(i, r.choice(CHAR_POOL))
        elif op < 0.95:
            s = s[:i]
        else:
            s.insert(i, s[i])
    return ''.join(s)


def generate(seed, count, mix=(0.3, 0.4, 0.3), dtd_heavy=False):
    """returns list of (kind, doc) with kind in 'wf','tok','chr'"""
    r = random.Random(seed)
    out = []
    prev = None
    while len(out) < count:
        try:
            doc = Gen(r, nonascii=0.02 if dtd_heavy else 0.08, ed5=0.0 if dtd_heavy else 0.04, dtd_heavy=dtd_heavy).document()
        except ValueError:
            continue
        x = r.random()
        if x < mix[0]:
            out.append(('wf', doc))
        elif x < mix[0] + mix[1]:
            out.append(('tok', mutate_tokens(r, doc, prev)))
        else:
            out.append(('chr', mutate_chars(r, doc)))
        prev = doc
    return out


if __name__ == '__main__':
    import sys
    for k, d in generate(int(sys.argv[1]) if len(sys.argv) > 1 else 1, 10):
        print(k, repr(d))
