#!/usr/bin/env python3
"""Compare Info.ns_well_formed with libxml2's namespace diagnostics
(xmllint binary, stderr) on generated well-formed documents.
usage: nscheck.py [N] [seed]"""
import collections
import os
import re
import subprocess
import sys
from concurrent.futures import ThreadPoolExecutor

sys.path.insert(0, os.path.dirname(os.path.abspath(__file__)))
import xgen  # noqa: E402
import xcheck  # noqa: E402

WFCLI = '/tmp/tgt-wf/release/examples/wfcli'
NS_EXTRA = [
    '<a xmlns:p=""/>', '<a xmlns:xmlns="u"/>', '<xmlns:a/>', '<a xmlns:xml="u"/>', '<a xmlns:p="http://www.w3.org/XML/1998/namespace"/>',
    '<a xmlns="http://www.w3.org/XML/1998/namespace"/>', '<a xmlns:p="http://www.w3.org/2000/xmlns/"/>', '<a xmlns="http://www.w3.org/2000/xmlns/"/>',
    '<a xmlns:xml="http://www.w3.org/XML/1998/namespace"/>', '<a xmlns:p="u" xmlns:q="u" p:x="" q:x=""/>', '<a xmlns:p="u" xmlns:q="v" p:x="" q:x=""/>',
    '<p:a/>', '<a p:x=""/>', '<a:b:c/>', '<:a/>', '<a:/>', '<a x:y:z=""/>', '<a><?p:q?></a>', '<!DOCTYPE a [<!ENTITY p:e "v">]><a/>',
    '<!DOCTYPE a [<!NOTATION p:n SYSTEM "x">]><a/>', '<xml:a/>', '<a xml:lang="en"/>', '<a xmlns:p="u"><b xmlns:p="v" p:x=""/><p:c/></a>',
    '<a xmlns:p="u"><b/></a>', '<a xmlns:p="u" xmlns:q="&#117;" p:x="" q:x=""/>', '<!DOCTYPE a [<!ENTITY e "u">]><a xmlns:p="u" xmlns:q="&e;" p:x="" q:x=""/>',
    '<!DOCTYPE a [<!ENTITY e "<p:b/>">]><a xmlns:p="u">&e;</a>', '<!DOCTYPE a [<!ENTITY e "<p:b/>">]><a>&e;</a>',
]


def main():
    n = int(sys.argv[1]) if len(sys.argv) > 1 else 4000
    seed = int(sys.argv[2]) if len(sys.argv) > 2 else 1
    docs = [d for _, d in xgen.generate(seed, n, mix=(1.0, 0.0, 0.0))]
    docs = NS_EXTRA + docs
    enc = [d.encode('utf-8') for d in docs]
    ours = xcheck.run_wfcli(WFCLI, enc)
    os.makedirs('/tmp/wfx/ns', exist_ok=True)

    def one(i):
        p = '/tmp/wfx/ns/%d.xml' % i
        with open(p, 'wb') as f:
            f.write(enc[i])
        r = subprocess.run([xcheck.XMLLINT, '--noout', '--nonet', p], capture_output=True)
        os.unlink(p)
        return r.returncode, r.stderr.decode('utf-8', 'replace')

    idx = [i for i, o in enumerate(ours) if o[0] == 'W']
    with ThreadPoolExecutor(4) as ex:
        res = list(ex.map(one, idx))
    stats = collections.Counter()
    for i, (rc, err) in zip(idx, res):
        if rc != 0:
            stats['libxml2-not-wf (skipped)'] += 1
            continue
        f = dict(x.split('=') for x in ours[i][1:])
        lx_ns_bad = bool(re.search(r'namespace error|colons are forbidden', err))
        key = (f['nsv'], 'libxml2:' + ('ns-error' if lx_ns_bad else 'clean'))
        stats[key] += 1
        if (f['ns'] == '0') != lx_ns_bad and stats[key] <= 3:
            m = [l for l in err.split('\n') if 'namespace' in l or 'colons' in l][:1]
            print('DIFF ours nsv=%s libxml2=%s\n   %r' % (f['nsv'], m, docs[i][:200]))
    for k, v in sorted(stats.items(), key=str):
        print(v, k)


if __name__ == '__main__':
    main()
