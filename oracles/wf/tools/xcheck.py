#!/usr/bin/env python3
"""Differential campaign: vp-wf (wfcli) vs pyexpat vs xmllint.

usage: xcheck.py [--n N] [--seed S] [--batch B] [--work DIR] [--wfcli PATH]
                 [--nasty-only] [--save FILE]

Generates N inputs (well-formed documents from a grammar, token-level and
character-level mutations of them, plus a hand-written nasty list and every
input of the Rust unit-test tables), runs all three recognizers, and reports
disagreements inside the comparable region.  Known, documented deviations of
expat / libxml2 (see NOTES.md) are classified by `explain_*` and counted
separately; anything left over is printed as UNEXPLAINED.
"""
import argparse
import collections
import glob
import multiprocessing
import os
import re
import shutil
import struct
import subprocess
import sys
import time
import xml.parsers.expat as expat

sys.path.insert(0, os.path.dirname(os.path.abspath(__file__)))
import xgen  # noqa: E402

XMLLINT = '/root/miniconda/bin/xmllint'
LIBXML2 = '/root/miniconda/lib/libxml2.so.2'
HERE = os.path.dirname(os.path.abspath(__file__))


# ------------------------------------------------------------------ runners

def run_wfcli(wfcli, docs):
    blob = b''.join(struct.pack('<I', len(d)) + d for d in docs)
    out = subprocess.run([wfcli], input=blob, capture_output=True, check=True).stdout.decode()
    lines = out.split('\n')
    if lines and lines[-1] == '':
        lines.pop()
    assert len(lines) == len(docs), (len(lines), len(docs))
    return [l.split('\t') for l in lines]


def expat_one(d):
    p = expat.ParserCreate()
    try:
        p.Parse(d, True)
        return 'W'
    except expat.ExpatError as e:
        return 'I:' + expat.ErrorString(e.code)
    except Exception as e:  # e.g. ValueError for embedded NUL handling
        return 'X:' + type(e).__name__


def expat_chunk(ds):
    return [expat_one(d) for d in ds]


def run_expat(pool, docs, nproc=16):
    k = max(1, len(docs) // (nproc * 4))
    chunks = [docs[i:i + k] for i in range(0, len(docs), k)]
    res = []
    for r in pool.map(expat_chunk, chunks):
        res.extend(r)
    return res


_LX = None


def _libxml2():
    """The very shared library the xmllint binary links against, in-process.
    (Spawning one xmllint per input is ~100x slower in this sandbox; every
    disagreement and a random sample are re-checked with the real binary.)"""
    global _LX
    if _LX is None:
        import ctypes
        L = ctypes.CDLL(LIBXML2)
        L.xmlReadMemory.restype = ctypes.c_void_p
        L.xmlReadMemory.argtypes = [ctypes.c_char_p, ctypes.c_int, ctypes.c_char_p, ctypes.c_char_p, ctypes.c_int]
        L.xmlFreeDoc.argtypes = [ctypes.c_void_p]
        _LX = L
    return _LX


# XML_PARSE_NOERROR | NOWARNING | NONET | COMPACT | BIG_LINES  (xmllint's defaults + --nonet)
LX_OPTS = (1 << 5) | (1 << 6) | (1 << 11) | (1 << 16) | (1 << 22)


def lx_chunk(ds):
    L = _libxml2()
    out = []
    for d in ds:
        doc = L.xmlReadMemory(d, len(d), b'in.xml', None, LX_OPTS)
        if doc:
            L.xmlFreeDoc(doc)
            out.append(0)
        else:
            out.append(4)
    return out


def run_xmllint(pool, docs, nproc=16):
    k = max(1, len(docs) // (nproc * 4))
    chunks = [docs[i:i + k] for i in range(0, len(docs), k)]
    res = []
    for r in pool.map(lx_chunk, chunks):
        res.extend(r)
    return res


def xmllint_msg(work, doc):
    p = os.path.join(work, 'one.xml')
    with open(p, 'wb') as f:
        f.write(doc)
    r = subprocess.run([XMLLINT, '--noout', '--nonet', p], capture_output=True)
    msg = r.stderr.decode(errors='replace')
    lines = [l for l in msg.split('\n') if ' error ' in l or ' warning ' in l]
    fatal = [l for l in lines if 'parser error' in l or 'I/O error' in l or 'encoding error' in l]
    if r.returncode != 0 and fatal:
        lines = fatal
    elif r.returncode != 0:
        lines = [l for l in lines if 'warning' not in l] or lines
    return r.returncode, (lines[0].split(':', 2)[-1].strip() if lines else msg.strip()[:80])


# ------------------------------------------------- known deviations (NOTES.md)

WFCLI = None


def recheck(text):
    """our verdict letter for a repaired variant of a document"""
    d = text.encode('utf-8')
    return run_wfcli(WFCLI, [d])[0][0]


VERSION_RE = re.compile(r'^(\ufeff?<\?xml\s+version\s*=\s*)(["\'])([^"\']*)\2')


def repair_version(text):
    m = VERSION_RE.match(text)
    if m and not re.fullmatch(r'1\.[0-9]+', m.group(3)):
        return text[:m.start(3)] + '1.0' + text[m.end(3):]
    return None


def explain_expat(doc, ours, ex):
    """ours: list of fields from wfcli; ex: expat result string.
    Returns the name of a documented expat deviation, or None."""
    text = doc.decode('utf-8')
    if ours[0] == 'W':
        f = dict(x.split('=') for x in ours[1:])
        if f['nonascii'] == '1' and f['safe4'] == '0':
            return 'expat-4th-edition-names'
    if ours[0] == 'I' and ours[1] == 'bad-xmldecl' and ex == 'W':
        fixed = repair_version(text)
        if fixed is not None and re.fullmatch(r'[A-Za-z0-9_.:\-]*', VERSION_RE.match(text).group(3)) and recheck(fixed) in 'WO':
            return 'expat-lenient-version-num'
    return None


def lx_ok(text):
    return lx_chunk([text.encode('utf-8')])[0] == 0


def xmllint_repair(doc, ours, rc, msg):
    """One documented libxml2 deviation that applies to this disagreement:
    returns (name, repaired_text or None).  The repaired text has the trigger
    of the deviation removed and nothing else changed."""
    text = doc.decode('utf-8')
    if ours[0] == 'W' and rc != 0:
        if 'Fragment not allowed' in msg:
            return 'libxml2-fragment-in-system-id-fatal', None
        if 'tag mismatch' in msg and 'ns=0' in ours:
            fixed = text.replace('\r\n', '\n')
            if fixed != text:
                return 'libxml2-nonqname-before-crlf-bug', fixed
        m = re.search(r'Name (\S+) is not XML Namespace compliant', msg)
        if m and ':' in m.group(1):
            return 'libxml2-attlist-attr-qname-fatal', text.replace(m.group(1), 'zz')
    if ours[0] == 'I' and rc == 0:
        off = int(ours[3])
        head, tail = doc[:off].decode('utf-8', 'ignore'), doc[off:].decode('utf-8', 'ignore')
        if ours[1] == 'text-in-prolog':
            before = head.rstrip(' \t\r\n')
            if tail.startswith('[') and before.endswith('>'):
                return 'libxml2-internal-subset-after-doctype-gt', before[:-1] + tail
        if ours[1] == 'bad-xmldecl':
            fixed = repair_version(text)
            if fixed is not None:
                return 'libxml2-lenient-version-num', fixed
        if ours[1] == 'bad-doctype' and head.endswith('<!DOCTYPE'):
            return 'libxml2-doctype-no-space', head + ' ' + tail
        if ours[1] == 'pe-in-internal-subset-markup' and ours[2] == 'entity-value':
            # the violation stands on its own (WFC: PEs in Internal Subset); libxml2 only
            # warns about the undeclared PE and then stops checking entity declarations
            if 'not defined' in msg:
                return 'libxml2-pe-ref-in-entity-value-not-fatal', None
            return 'libxml2-pe-ref-in-entity-value-not-fatal', head + '&#37;' + tail[1:]
        if ours[1] == 'bad-entity-decl' and tail.startswith('>') and re.search(r'NDATA\s+$', head):
            return 'libxml2-ndata-name-missing', head + 'n' + tail
    return None, None


def explain_xmllint(doc, ours, rc, msg):
    """Name(s) of documented libxml2 deviations that fully account for the
    disagreement (after removing their triggers all three agree), or None."""
    names = []
    for _ in range(4):
        name, fixed = xmllint_repair(doc, ours, rc, msg)
        if name is None:
            return None
        names.append(name)
        if fixed is None:
            return '+'.join(names)
        d2 = fixed.encode('utf-8')
        o2 = run_wfcli(WFCLI, [d2])[0]
        rc2 = lx_chunk([d2])[0]
        if o2[0] == 'O' or (o2[0] == 'W') == (rc2 == 0):
            return '+'.join(names)
        doc, ours, rc = d2, o2, rc2
        msg = xmllint_msg('/tmp', doc)[1]
    return None


# ------------------------------------------------------------------ inputs

NASTY = [
    '<a/>', '<a></a>', '<a>', '</a>', '<a></b>', '', ' ', '<', '<a', '<a ', '<a/', '<a x', '<a x=', "<a x='", '&', '<a>&</a>',
    '<?xml?><a/>', '<?xml ?><a/>', '<?XML version="1.0"?><a/>', '<?xMl?><a/>', '<a><?xml?></a>', '<a><?XmL a?></a>',
    '<?xml-stylesheet?><a/>', '<?xmlfoo?><a/>', '<?xml:a?><a/>', ' <?xml version="1.0"?><a/>', '\n<?xml version="1.0"?><a/>',
    '<?xml version="1.0"?><?xml version="1.0"?><a/>', '<?xml version="1.0" ?>\n<a/>', '<?xml version="1.1"?><a/>',
    '<?xml version="1.1"?><a>\x85</a>', '<?xml version="1.1"?><a>&#1;</a>', '<?xml version="1.1"?><a>\x01</a>',
    '<?xml version="2.0"?><a/>', '<?xml version="1."?><a/>', '<?xml version="1.0" encoding="utf-8"?><a/>',
    '<?xml version="1.0" encoding="UTF-8" standalone="yes"?><a/>', '<?xml version="1.0" standalone="yes" encoding="UTF-8"?><a/>',
    '<?xml version="1.0" standalone="YES"?><a/>', '<?xml encoding="UTF-8"?><a/>', '<?xml version="1.0"encoding="UTF-8"?><a/>',
    '<?xml version = "1.0"?><a/>', "<?xml version='1.0\"?><a/>", '<?xml version="1.0" encoding="UTF-8" ?><a/>',
    '<?xml version="1.0" encoding=""?><a/>', '<?xml version="1.0" encoding="-utf"?><a/>', '<?xml version="1.0" encoding="u t"?><a/>',
    '<?xml version="1.0" standalone="no" ?><a/>', '<?xml version="1.0" standalone=\'no\'?><a/>', '<?xml\nversion="1.0"?><a/>',
    '<?xml\tversion="1.0"\r?><a/>', '<?xml version="1.0" x="y"?><a/>', '<?xml version="1.0"?', '<?xml version="1.0">', '<?xml',
    '<?xml version="1.0" ?? ><a/>', '<?xml  version="1.0"  encoding="UTF-8"  standalone="yes"  ?><a/>',
    '<a>]]></a>', '<a>]]&gt;</a>', "<a x=']]>'/>", '<a><!-- ]]> --></a>', '<a><?p ]]>?></a>', '<a>></a>', '<a>]></a>', '<a>]]]></a>',
    '<a>]] ></a>', '<a><![CDATA[]]>]]></a>', '<a><![CDATA[]]]]><![CDATA[>]]></a>', '<a><![CDATA[]]]></a>', '<a><![CDATA[>]]></a>',
    '<a><!-- -- --></a>', '<a><!-- ---></a>', '<a><!----></a>', '<a><!-----></a>', '<a><!---></a>', '<a><!-- - --></a>', '<a><!--- --></a>',
    '<a>&#x110000;</a>', '<a>&#xD800;</a>', '<a>&#0;</a>', '<a>&#9;</a>', '<a>&#xFFFE;</a>', '<a>&#xFFFF;</a>', '<a>&#xFFFD;</a>',
    '<a>&#x10FFFF;</a>', '<a>&#1114112;</a>', '<a>&#99999999999999999999;</a>', '<a>&#x100000000041;</a>', '<a>&#4294967361;</a>',
    '<a>&#x0000000000000041;</a>', '<a>&#X41;</a>', '<a>&#;</a>', '<a>&#x;</a>', '<a>&#65</a>', '<a>&# 65;</a>', '<a>&#-65;</a>',
    '<a>&#xg;</a>', '<a>&#12a;</a>', '<a>&#x41</a>', '<a>&amp</a>', '<a>&amp ;</a>', '<a>& amp;</a>', '<a>&;</a>', '<a>&1;</a>',
    '<a>&lt;&gt;&amp;&apos;&quot;</a>', '<a>&LT;</a>', '<a>&nbsp;</a>', '<a x="&nbsp;"/>', "<a x='&#0;'/>", "<a x='&#60;'/>",
    "<a x='<'/>", "<a x='>'/>", "<a x='&'/>", '<a x="\'" y=\'"\'/>', "<a x='1' x='2'/>", "<a x='1'y='2'/>", '<a x=1/>', '<a x/>',
    "<a x = '1'/>", "<a\nx\n=\n'1'\n/>", "<a x='1' / >", '<a / >', '<a/ >', '< a/>', '<a ></a >', '<a></ a>', '<a></a b>', '</>', '<>',
    '<1/>', '<-/>', '<./>', '<:/>', '<_/>', '<a:b:c/>', '<:a:/>', '<p:a/>', '<xmlns:a/>', '<a xmlns:xmlns="u"/>', '<a xmlns:p=""/>',
    '<a xmlns:xml="u"/>', '<xml/>', '<XML/>', '<xml:a/>', '<a xml="1" XML="2"/>', '<a xml:lang=""/>', "<a xmlns='u' xmlns='v'/>",
    '<a xmlns:p="u" xmlns:q="u" p:x="" q:x=""/>', '<a p:x=""/>',
    '<a>\x00</a>', '<a>\x01</a>', '<a>\x08</a>', '<a>\x0b</a>', '<a>\x0c</a>', '<a>\x0e</a>', '<a>\x1f</a>', '<a>\x7f</a>', '<a>\x80</a>',
    '<a>\x85</a>', '<a>\x9f</a>', '<a>\u2028</a>', '<a>\ufffe</a>', '<a>\uffff</a>', '<a>\ufffd</a>', '<a>\ufdd0</a>', '<a>\U0001fffe</a>',
    '<a>\U0001ffff</a>', '<a>\U0010ffff</a>', '<a>\ud7ff\ue000</a>', "<a x='\x01'/>", "<a x='\ufffe'/>", '<!--\x01--><a/>', '<!--\uffff--><a/>',
    '<?p \x01?><a/>', '<?p \ufffe?><a/>', '<a><![CDATA[\x01]]></a>', '<a><![CDATA[\uffff]]></a>', '<a\x01/>', '<a/>\x00', '<a/>\x01',
    '<!DOCTYPE a [<!ENTITY e "\x01">]><a/>', '<!DOCTYPE a [<!ENTITY e "\uffff">]><a/>', '<!DOCTYPE a SYSTEM "\x01"><a/>',
    '<!DOCTYPE a PUBLIC "\x01" "s"><a/>', '<!DOCTYPE a [<!-- \x0c -->]><a/>', '<!DOCTYPE a [<?p \ufffe?>]><a/>',
    '\ufeff<a/>', '\ufeff<?xml version="1.0"?><a/>', '\ufeff\ufeff<a/>', '<a>\ufeff</a>', '<\ufeffa/>', '<a\ufeff/>', ' \ufeff<a/>',
    '<é/>', '<·a/>', '<a·/>', '<à/>', '<̀a/>', '<×/>', '<a÷/>', '<\u037e/>', '<\u2000/>', '<\u200c/>', '<\u2070/>',
    '<\u218f/>', '<\u2190/>', '<\u2c00/>', '<\u2fef/>', '<\u2ff0/>', '<\u3000/>', '<\u3001/>', '<\ud7ff/>', '<\uf900/>', '<\ufdcf/>',
    '<\ufdd0/>', '<\ufdef/>', '<\ufdf0/>', '<\ufffd/>', '<\U00010000/>', '<\U000effff/>', '<\U000f0000/>', '<a\u203f/>', '<a\u2040/>',
    '<a\u2041/>', '<\u203f/>', '<a\u0300/>', '<a\u036f/>', '<a\u0370/>', '<\u0370/>', '<\u0300/>', '<a\u00b7/>', '<a\u0387/>', '<\u0387/>',
    '<a-/>', '<a./>', '<a0/>', '<a:/>', '<a\u00aa/>', '<\u00aa/>', '<a\u00ba/>', '<\u00c0/>', '<\u00d7a/>', '<a\u00d7/>', '<\u00f7/>', '<\u0131/>',
    '<\u0e01/>', '<a\u0e31/>', '<\u0e31/>', '<\u4e00/>', '<\u3007/>', '<\u3021/>', '<\u3005/>', '<a\u3005/>', '<\u30fc/>', '<a\u0660/>', '<\u0660/>',
    '<a \u4e2d="1"/>', '<?\u4e2d?><a/>', '<!DOCTYPE \u4e2d><a/>', '<!DOCTYPE a [<!ENTITY \u4e2d "v">]><a>&\u4e2d;</a>',
    '<!DOCTYPE a><a/>', '<!DOCTYPE b><a/>', '<!DOCTYPE a []><a/>', '<!DOCTYPE a[]><a/>', '<!DOCTYPE a [ ]><a/>', '<!DOCTYPE a [ ] ><a/>',
    '<!DOCTYPE a SYSTEM "x" [ ]><a/>', '<!DOCTYPE a SYSTEM "x"[]><a/>', '<!DOCTYPE a SYSTEM "x"><a/>', "<!DOCTYPE a SYSTEM 'x'><a/>",
    '<!DOCTYPE a PUBLIC "p" "x"><a/>', '<!DOCTYPE a PUBLIC "p"><a/>', '<!DOCTYPE a PUBLIC "p""x"><a/>', '<!DOCTYPE a PUBLIC "{" "x"><a/>',
    '<!DOCTYPE a PUBLIC "\t" "x"><a/>', '<!DOCTYPE a PUBLIC "é" "x"><a/>', '<!DOCTYPE a SYSTEM"x"><a/>', '<!DOCTYPE a SYSTEM><a/>',
    '<!DOCTYPE a system "x"><a/>', '<!DOCTYPE a "x"><a/>', '<!DOCTYPE><a/>', '<!DOCTYPE ><a/>', '<!DOCTYPEa><a/>', '<!doctype a><a/>',
    '<!DOCTYPE a', '<!DOCTYPE a [', '<!DOCTYPE a []', '<!DOCTYPE a [] x><a/>', '<!DOCTYPE a [x]><a/>', '<!DOCTYPE a [<a/>]><a/>',
    '<!DOCTYPE a><!DOCTYPE a><a/>', '<a/><!DOCTYPE a>', '<!DOCTYPE a [<![INCLUDE[ ]]>]><a/>', '<!DOCTYPE a [<![IGNORE[ ]]>]><a/>',
    '<!DOCTYPE a [<!ENTITY % p "x">]><a/>', '<!DOCTYPE a [%p;]><a/>', '<!DOCTYPE a [%p]><a/>', '<!DOCTYPE a [% p;]><a/>',
    '<!DOCTYPE a [<!ENTITY %p "x">]><a/>', '<!DOCTYPE a [<!ENTITY e "%p;">]><a/>', '<!DOCTYPE a [<!ENTITY e "100%">]><a/>',
    '<!DOCTYPE a [<!ENTITY e "% ">]><a/>', '<!DOCTYPE a [<!ENTITY e "&#37;">]><a>&e;</a>', '<!DOCTYPE a [<!ELEMENT a %p;>]><a/>',
    '<!DOCTYPE a [<!ATTLIST a x CDATA "%p;">]><a/>', '<!DOCTYPE a [<!ATTLIST a x CDATA "%">]><a/>', '<!DOCTYPE a SYSTEM "%p;"><a/>',
    '<!DOCTYPE a [<!ENTITY e "v">]><a>&e;</a>', '<!DOCTYPE a [<!ENTITY e "v">]><a x="&e;"/>', '<!DOCTYPE a [<!ENTITY e "<b>">]><a>&e;</a>',
    '<!DOCTYPE a [<!ENTITY e "<b>">]><a/>', '<!DOCTYPE a [<!ENTITY e "<b>">]><a>&e;</b></a>', '<!DOCTYPE a [<!ENTITY e "</a>">]><a>&e;',
    '<!DOCTYPE a [<!ENTITY e "<b/>">]><a>&e;</a>', '<!DOCTYPE a [<!ENTITY e "<b/>">]><a x="&e;"/>', '<!DOCTYPE a [<!ENTITY e "&#60;">]><a>&e;</a>',
    '<!DOCTYPE a [<!ENTITY e "&#60;">]><a x="&e;"/>', '<!DOCTYPE a [<!ENTITY e "&#38;#60;">]><a>&e;</a>', '<!DOCTYPE a [<!ENTITY e "&#38;#60;">]><a x="&e;"/>',
    '<!DOCTYPE a [<!ENTITY e "&#38;">]><a>&e;</a>', '<!DOCTYPE a [<!ENTITY e "&#38;">]><a x="&e;"/>', '<!DOCTYPE a [<!ENTITY e "&#38;">]><a/>',
    '<!DOCTYPE a [<!ENTITY e "&#38;#38;">]><a x="&e;">&e;</a>', '<!DOCTYPE a [<!ENTITY e "&#38;#0;">]><a>&e;</a>', '<!DOCTYPE a [<!ENTITY e "&#38;#0;">]><a/>',
    '<!DOCTYPE a [<!ENTITY e "&#38;#0;">]><a x="&e;"/>', '<!DOCTYPE a [<!ENTITY e "&#0;">]><a/>', '<!DOCTYPE a [<!ENTITY e "&#38;f;">]><a>&e;</a>',
    '<!DOCTYPE a [<!ENTITY e "&f;">]><a>&e;</a>', '<!DOCTYPE a [<!ENTITY e "&f;">]><a x="&e;"/>', '<!DOCTYPE a [<!ENTITY e "&f;">]><a/>',
    '<!DOCTYPE a [<!ENTITY e "&f;"><!ENTITY f "v">]><a>&e;</a>', '<!DOCTYPE a [<!ENTITY e "&e;">]><a>&e;</a>', '<!DOCTYPE a [<!ENTITY e "&e;">]><a x="&e;"/>',
    '<!DOCTYPE a [<!ENTITY e "&e;">]><a/>', '<!DOCTYPE a [<!ENTITY e "&f;"><!ENTITY f "&e;">]><a>&e;</a>', '<!DOCTYPE a [<!ENTITY e "&f;"><!ENTITY f "&e;">]><a/>',
    '<!DOCTYPE a [<!ENTITY e "<b x=\'&e;\'/>">]><a>&e;</a>', '<!DOCTYPE a [<!ENTITY e "]]>">]><a>&e;</a>', '<!DOCTYPE a [<!ENTITY e "]]>">]><a x="&e;"/>',
    '<!DOCTYPE a [<!ENTITY e ">">]><a>]]&e;</a>', '<!DOCTYPE a [<!ENTITY e "]]">]><a>&e;></a>', '<!DOCTYPE a [<!ENTITY e "a&b">]><a/>',
    '<!DOCTYPE a [<!ENTITY e "a&">]><a/>', '<!DOCTYPE a [<!ENTITY e "&#x;">]><a/>', '<!DOCTYPE a [<!ENTITY e "v"><!ENTITY e "<">]><a>&e;</a>',
    '<!DOCTYPE a [<!ENTITY e "<!--">]><a>&e;--></a>', '<!DOCTYPE a [<!ENTITY e "<![CDATA[">]><a>&e;]]></a>', '<!DOCTYPE a [<!ENTITY e "<?p">]><a>&e;?></a>',
    '<!DOCTYPE a [<!ENTITY e "<b">]><a>&e;/></a>', '<!DOCTYPE a [<!ENTITY e "<?xml version=\'1.0\'?>">]><a>&e;</a>',
    '<!DOCTYPE a [<!ENTITY e "<?xml version=\'1.0\'?>x">]><a>&e;</a>', '<!DOCTYPE a [<!ENTITY e "<!DOCTYPE b>">]><a>&e;</a>',
    '<!DOCTYPE a [<!ENTITY e SYSTEM "x">]><a>&e;</a>', '<!DOCTYPE a [<!ENTITY e SYSTEM "x">]><a x="&e;"/>', '<!DOCTYPE a [<!ENTITY e SYSTEM "x" NDATA n>]><a>&e;</a>',
    '<!DOCTYPE a [<!ENTITY e SYSTEM "x" NDATA n>]><a x="&e;"/>', '<!DOCTYPE a [<!ENTITY e SYSTEM "x" NDATA n><!ENTITY f "&e;">]><a>&f;</a>',
    '<!DOCTYPE a [<!ENTITY e SYSTEM "x" NDATA n><!ENTITY f "&e;">]><a/>', '<!DOCTYPE a [<!ENTITY e SYSTEM "x"><!ENTITY f "&e;">]><a x="&f;"/>',
    '<!DOCTYPE a [<!ENTITY e SYSTEM "x"NDATA n>]><a/>', '<!DOCTYPE a [<!ENTITY e PUBLIC "p">]><a/>', '<!DOCTYPE a [<!ENTITY e "v" NDATA n>]><a/>',
    '<!DOCTYPE a [<!ENTITY e"v">]><a/>', '<!DOCTYPE a [<!ENTITYe "v">]><a/>', '<!DOCTYPE a [<!ENTITY e>]><a/>', '<!DOCTYPE a [<!ENTITY e v>]><a/>',
    '<!DOCTYPE a [<!ENTITY e "v" >]><a/>', '<!DOCTYPE a [<!ENTITY e "v"x>]><a/>', '<!DOCTYPE a [<!ENTITY e:f "v">]><a>&e:f;</a>',
    '<!DOCTYPE a [<!ENTITY lt "&#38;#60;">]><a>&lt;</a>', '<!DOCTYPE a [<!ENTITY lt "&#60;">]><a>&lt;</a>', '<!DOCTYPE a [<!ENTITY lt "x">]><a>&lt;</a>',
    '<!DOCTYPE a [<!ENTITY amp "&#38;#38;">]><a>&amp;</a>', '<!DOCTYPE a [<!ENTITY amp "&#38;">]><a>&amp;</a>', '<!DOCTYPE a [<!ENTITY gt ">">]><a>&gt;</a>',
    '<!DOCTYPE a [<!ENTITY gt "x">]><a>&gt;</a>', '<!DOCTYPE a [<!ENTITY apos SYSTEM "x">]><a>&apos;</a>', '<!DOCTYPE a [<!ENTITY quot "&#34;">]><a>&quot;</a>',
    '<!DOCTYPE a SYSTEM "x"><a>&e;</a>', '<!DOCTYPE a SYSTEM "x"><a x="&e;"/>', '<?xml version="1.0" standalone="yes"?><!DOCTYPE a SYSTEM "x"><a>&e;</a>',
    '<?xml version="1.0" standalone="no"?><!DOCTYPE a SYSTEM "x"><a>&e;</a>', '<?xml version="1.0" standalone="yes"?><a>&e;</a>', '<!DOCTYPE a><a>&e;</a>',
    '<!DOCTYPE a [<!ATTLIST a x CDATA "&e;"><!ENTITY e "v">]><a/>', '<!DOCTYPE a [<!ENTITY e "v"><!ATTLIST a x CDATA "&e;">]><a/>',
    '<!DOCTYPE a [<!ENTITY e "&f;"><!ATTLIST a x CDATA "&e;"><!ENTITY f "v">]><a/>', '<!DOCTYPE a [<!ENTITY e "&f;"><!ATTLIST a x CDATA "&e;">]><a/>',
    '<!DOCTYPE a [<!ENTITY e "<"><!ATTLIST a x CDATA "&e;">]><a/>', '<!DOCTYPE a [<!ENTITY e SYSTEM "x"><!ATTLIST a x CDATA "&e;">]><a/>',
    '<!DOCTYPE a [<!ENTITY e "&e;"><!ATTLIST a x CDATA "&e;">]><a/>', '<!DOCTYPE a [<!ATTLIST a x CDATA "<">]><a/>', '<!DOCTYPE a [<!ATTLIST a x CDATA "&">]><a/>',
    '<!DOCTYPE a [<!ATTLIST a x CDATA "&#0;">]><a/>', '<!DOCTYPE a [<!ATTLIST a x CDATA "&lt;">]><a/>', '<!DOCTYPE a [<!ATTLIST a x ID "v">]><a/>',
    '<!DOCTYPE a [<!ATTLIST a x (a|b) "c">]><a/>', '<!DOCTYPE a [<!ATTLIST a x NMTOKEN "a b">]><a/>', '<!DOCTYPE a [<!ATTLIST a x ENTITY "nope">]><a/>',
    '<!DOCTYPE a [<!ATTLIST a x CDATA #FIXED "v">]><a x="w"/>', '<!DOCTYPE a [<!ATTLIST a x CDATA #REQUIRED>]><a/>', '<!DOCTYPE a [<!ATTLIST a x ID #IMPLIED>]><a x="1"><a x="1"/></a>',
    '<!DOCTYPE a [<!ATTLIST a>]><a/>', '<!DOCTYPE a [<!ATTLIST a >]><a/>', '<!DOCTYPE a [<!ATTLIST>]><a/>', '<!DOCTYPE a [<!ATTLIST a x>]><a/>',
    '<!DOCTYPE a [<!ATTLIST a x CDATA>]><a/>', '<!DOCTYPE a [<!ATTLIST a x CDATA#IMPLIED>]><a/>', '<!DOCTYPE a [<!ATTLIST a x cdata #IMPLIED>]><a/>',
    '<!DOCTYPE a [<!ATTLIST a x CDATA #implied>]><a/>', '<!DOCTYPE a [<!ATTLIST a x CDATA #FIXED>]><a/>', '<!DOCTYPE a [<!ATTLIST a x CDATA #FIXED"v">]><a/>',
    '<!DOCTYPE a [<!ATTLIST a x (a|b)#IMPLIED>]><a/>', '<!DOCTYPE a [<!ATTLIST a x (a|b)"a">]><a/>', '<!DOCTYPE a [<!ATTLIST a x(a|b) "a">]><a/>',
    '<!DOCTYPE a [<!ATTLIST a x () #IMPLIED>]><a/>', '<!DOCTYPE a [<!ATTLIST a x (a,b) #IMPLIED>]><a/>', '<!DOCTYPE a [<!ATTLIST a x (a|) #IMPLIED>]><a/>',
    '<!DOCTYPE a [<!ATTLIST a x (a b) #IMPLIED>]><a/>', '<!DOCTYPE a [<!ATTLIST a x (1|-|.) #IMPLIED>]><a/>', '<!DOCTYPE a [<!ATTLIST a x (a|a) #IMPLIED>]><a/>',
    '<!DOCTYPE a [<!ATTLIST a x NOTATION (n) #IMPLIED>]><a/>', '<!DOCTYPE a [<!ATTLIST a x NOTATION(n) #IMPLIED>]><a/>', '<!DOCTYPE a [<!ATTLIST a x NOTATION (1) #IMPLIED>]><a/>',
    '<!DOCTYPE a [<!ATTLIST a x NOTATION #IMPLIED>]><a/>', '<!DOCTYPE a [<!ATTLIST a x NOTATION (n|m) "n">]><a/>', '<!DOCTYPE a [<!ATTLIST a x CDATA "a"y CDATA "b">]><a/>',
    '<!DOCTYPE a [<!ATTLIST a x CDATA #IMPLIED x CDATA #IMPLIED>]><a/>', '<!DOCTYPE a [<!ATTLIST a xmlns CDATA "u">]><a/>', '<!DOCTYPE a [<!ATTLIST a x IDREFS #IMPLIED y ENTITIES #IMPLIED z NMTOKENS #IMPLIED>]><a/>',
    '<!DOCTYPE a [<!ELEMENT a EMPTY>]><a/>', '<!DOCTYPE a [<!ELEMENT a EMPTY>]><a>x</a>', '<!DOCTYPE a [<!ELEMENT a ANY>]><a/>', '<!DOCTYPE a [<!ELEMENT a ANY><!ELEMENT a ANY>]><a/>',
    '<!DOCTYPE a [<!ELEMENT a (#PCDATA)>]><a/>', '<!DOCTYPE a [<!ELEMENT a (#PCDATA)*>]><a/>', '<!DOCTYPE a [<!ELEMENT a ( #PCDATA )>]><a/>', '<!DOCTYPE a [<!ELEMENT a (#PCDATA|b)*>]><a/>',
    '<!DOCTYPE a [<!ELEMENT a (#PCDATA|b)>]><a/>', '<!DOCTYPE a [<!ELEMENT a (#PCDATA)+>]><a/>', '<!DOCTYPE a [<!ELEMENT a (#PCDATA)?>]><a/>', '<!DOCTYPE a [<!ELEMENT a (#PCDATA|b)+>]><a/>',
    '<!DOCTYPE a [<!ELEMENT a (#PCDATA,b)*>]><a/>', '<!DOCTYPE a [<!ELEMENT a (b|#PCDATA)*>]><a/>', '<!DOCTYPE a [<!ELEMENT a (#PCDATA|(b))*>]><a/>', '<!DOCTYPE a [<!ELEMENT a ((#PCDATA))>]><a/>',
    '<!DOCTYPE a [<!ELEMENT a (#PCDATA) *>]><a/>', '<!DOCTYPE a [<!ELEMENT a (#PCDATA|b*)*>]><a/>', '<!DOCTYPE a [<!ELEMENT a (#PCDATA|b|b)*>]><a/>', '<!DOCTYPE a [<!ELEMENT a (#PCDATA |b)*>]><a/>',
    '<!DOCTYPE a [<!ELEMENT a (b)>]><a/>', '<!DOCTYPE a [<!ELEMENT a (b,c)>]><a/>', '<!DOCTYPE a [<!ELEMENT a (b|c)>]><a/>', '<!DOCTYPE a [<!ELEMENT a ( b , c )* >]><a/>',
    '<!DOCTYPE a [<!ELEMENT a (b?,c*,d+)?>]><a/>', '<!DOCTYPE a [<!ELEMENT a ((b|c),(d,e)*,((f)))+>]><a/>', '<!DOCTYPE a [<!ELEMENT a (b,c|d)>]><a/>', '<!DOCTYPE a [<!ELEMENT a (b|c,d)>]><a/>',
    '<!DOCTYPE a [<!ELEMENT a ()>]><a/>', '<!DOCTYPE a [<!ELEMENT a (b,)>]><a/>', '<!DOCTYPE a [<!ELEMENT a (,b)>]><a/>', '<!DOCTYPE a [<!ELEMENT a (b c)>]><a/>',
    '<!DOCTYPE a [<!ELEMENT a (b ?)>]><a/>', '<!DOCTYPE a [<!ELEMENT a (b) ?>]><a/>', '<!DOCTYPE a [<!ELEMENT a (b)??>]><a/>', '<!DOCTYPE a [<!ELEMENT a (b**)>]><a/>',
    '<!DOCTYPE a [<!ELEMENT a (b>]><a/>', '<!DOCTYPE a [<!ELEMENT a (b))>]><a/>', '<!DOCTYPE a [<!ELEMENT a b>]><a/>', '<!DOCTYPE a [<!ELEMENT a>]><a/>',
    '<!DOCTYPE a [<!ELEMENT a empty>]><a/>', '<!DOCTYPE a [<!ELEMENT a EMPTYX>]><a/>', '<!DOCTYPE a [<!ELEMENT a(b)>]><a/>', '<!DOCTYPE a [<!ELEMENT a (b|b)>]><a/>',
    '<!DOCTYPE a [<!ELEMENT a (b|c)+>]><a/>', '<!DOCTYPE a [<!ELEMENT a ((b)|(c))>]><a/>', '<!DOCTYPE a [<!ELEMENT a ((b,c)|(b,d))>]><a/>',
    '<!DOCTYPE a [<!NOTATION n SYSTEM "x">]><a/>', '<!DOCTYPE a [<!NOTATION n PUBLIC "p">]><a/>', '<!DOCTYPE a [<!NOTATION n PUBLIC "p" >]><a/>', '<!DOCTYPE a [<!NOTATION n PUBLIC "p" "x">]><a/>',
    '<!DOCTYPE a [<!NOTATION n PUBLIC "p""x">]><a/>', '<!DOCTYPE a [<!NOTATION n PUBLIC>]><a/>', '<!DOCTYPE a [<!NOTATION n>]><a/>', '<!DOCTYPE a [<!NOTATION n "x">]><a/>',
    '<!DOCTYPE a [<!NOTATION n PUBLIC "p^">]><a/>', '<!DOCTYPE a [<!NOTATION n SYSTEM "x" y>]><a/>', '<!DOCTYPE a [<!NOTATION n SYSTEM "x"><!NOTATION n SYSTEM "y">]><a/>', '<!DOCTYPE a [<!NOTATION p:n SYSTEM "x">]><a/>',
    '<!DOCTYPE a [<!-- c --><?p d?> ]><a/>', '<!DOCTYPE a [<!-- c -- -->]><a/>', '<!DOCTYPE a [<?xml version="1.0"?>]><a/>', '<!DOCTYPE a [<?XML?>]><a/>', '<!DOCTYPE a [<!FOO>]><a/>',
    '<!DOCTYPE a [&amp;]><a/>', '<!DOCTYPE a [<!ENTITY e "v">&e;]><a/>', '<!DOCTYPE a []]><a/>', '<!DOCTYPE a [>]><a/>', '<!DOCTYPE a []>]><a/>',
    '<a><![CDATA[x]]></a>', '<a><![cdata[x]]></a>', '<a><![CDATA [x]]></a>', '<a><![CDATA[x]]', '<![CDATA[x]]><a/>', '<a/><![CDATA[x]]>', '<a><![CDATA[<![CDATA[]]></a>',
    '<a/><b/>', '<a/>x', 'x<a/>', '<a/>&#32;', '&#32;<a/>', '<a/>&amp;', '<a/><!-- c --><?p?>', '<!-- c --><?p?><a/>', '<a/>\n\n', '<a/></a>',
    '<a><?p?></a>', '<a><?p ?></a>', '<a><?p x?></a>', '<a><? p?></a>', '<a><??></a>', '<a><?p+?></a>', '<a><?p', '<a><?p ?', '<a><?p?', '<a><?p x>',
    '<a><?p ??></a>', '<a><?p ?>?></a>', '<a><?1?></a>', '<a><?p:q?></a>',
]


def rust_unescape(s):
    def rep(m):
        g = m.group(0)
        if g.startswith('\\u{'):
            return chr(int(g[3:-1], 16))
        return {'\\n': '\n', '\\t': '\t', '\\r': '\r', '\\"': '"', '\\\\': '\\', "\\'": "'", '\\0': '\0'}[g]
    return re.sub(r'\\u\{[0-9a-fA-F]+\}|\\[ntr"\\\'0]', rep, s)


def unit_test_inputs():
    out = []
    for f in sorted(glob.glob(os.path.join(HERE, '..', 'src', 'tests', '*.rs'))) + [os.path.join(HERE, '..', 'tests', 'corpus.rs')]:
        if not os.path.exists(f):
            continue
        src = open(f, encoding='utf-8').read()
        for m in re.finditer(r'\(\s*"((?:[^"\\]|\\.)*)"\s*,\s*(?:W|I\(|O\(|None|Some\()', src):
            out.append(rust_unescape(m.group(1)))
    return out


def gen_chunk(args):
    seed, count, heavy = args
    return xgen.generate(seed, count, dtd_heavy=heavy)


def mutate_fixed_chunk(args):
    import random
    seed, seeds, k = args
    r = random.Random(seed)
    out = []
    for d in seeds:
        for _ in range(k):
            if r.random() < 0.5:
                out.append(('fix-tok', xgen.mutate_tokens(r, d, r.choice(seeds))))
            else:
                out.append(('fix-chr', xgen.mutate_chars(r, d)))
    return out


def charclass_docs():
    """one document per code point and syntactic position"""
    items = []
    for cp in range(0x110000):
        if 0xD800 <= cp <= 0xDFFF:
            continue
        c = chr(cp)
        items.append(('cc-start', '<' + c + '/>'))
        items.append(('cc-name', '<a' + c + '/>'))
        if cp < 0x3000 or cp >= 0xFF00 or (cp & 0xFF) in (0, 0xFF, 0xFE, 0xFD, 1):
            items.append(('cc-char', '<a>' + c + '</a>'))
            items.append(('cc-attr', '<a x="' + c + '"/>'))
            items.append(('cc-comment', '<!--' + c + '--><a/>'))
            items.append(('cc-pi', '<?p ' + c + '?><a/>'))
            items.append(('cc-cdata', '<a><![CDATA[' + c + ']]></a>'))
        if cp < 0x400:
            items.append(('cc-pubid', '<!DOCTYPE a PUBLIC "' + c + '" "s"><a/>'))
            items.append(('cc-pubid1', "<!DOCTYPE a PUBLIC '" + c + "' 's'><a/>"))
            items.append(('cc-sysid', '<!DOCTYPE a SYSTEM "' + c + '"><a/>'))
            items.append(('cc-enc', '<?xml version="1.0" encoding="' + c + '"?><a/>'))
            items.append(('cc-enc2', '<?xml version="1.0" encoding="u' + c + '"?><a/>'))
            items.append(('cc-ver', '<?xml version="1.' + c + '"?><a/>'))
            items.append(('cc-nmtoken', '<!DOCTYPE a [<!ATTLIST a x (' + c + ') #IMPLIED>]><a/>'))
            items.append(('cc-entval', '<!DOCTYPE a [<!ENTITY e "' + c + '">]><a/>'))
            items.append(('cc-ref-dec', '<a>&#%d;</a>' % cp))
            items.append(('cc-after-name', '<a' + c + '>'  + '</a>'))
            items.append(('cc-prolog', c + '<a/>'))
            items.append(('cc-epilog', '<a/>' + c))
            items.append(('cc-subset', '<!DOCTYPE a [' + c + ']><a/>'))
            items.append(('cc-aftereq', '<a x=' + c + '"1"/>'))
        if cp % 97 == 0 or cp < 0x400 or (cp & 0xFFFF) >= 0xFFF0:
            items.append(('cc-ref-hex', '<a>&#x%X;</a>' % cp))
    return items


# ------------------------------------------------------------------ main

def main():
    ap = argparse.ArgumentParser()
    ap.add_argument('--n', type=int, default=20000)
    ap.add_argument('--seed', type=int, default=1)
    ap.add_argument('--batch', type=int, default=20000)
    ap.add_argument('--work', default='/tmp/wfx')
    ap.add_argument('--wfcli', default='/tmp/tgt-wf/release/examples/wfcli')
    ap.add_argument('--nasty-only', action='store_true')
    ap.add_argument('--dtd-heavy', action='store_true', help='always a DOCTYPE, many entities, ASCII names')
    ap.add_argument('--charclasses', action='store_true', help='exhaustive per-code-point sweep')
    ap.add_argument('--mutate-fixed', type=int, default=0, help='K mutants of every hand-written input')
    ap.add_argument('--no-xmllint', action='store_true')
    ap.add_argument('--save', default=None, help='append disagreement inputs (repr) to this file')
    ap.add_argument('--show', type=int, default=40)
    ap.add_argument('--sample', type=int, default=100, help='re-check every Nth input with the xmllint binary')
    args = ap.parse_args()
    os.makedirs(args.work, exist_ok=True)
    global WFCLI
    WFCLI = args.wfcli
    pool = multiprocessing.Pool(16)

    stats = collections.Counter()
    explained = collections.defaultdict(list)
    unexplained = []
    t0 = time.time()

    def process(items):
        docs = [d.encode('utf-8', 'surrogatepass') for _, d in items]
        ta = time.time()
        ours = run_wfcli(args.wfcli, docs)
        tb = time.time()
        ex = run_expat(pool, docs)
        tc = time.time()
        xl = [None] * len(docs) if args.no_xmllint else run_xmllint(pool, docs)
        td = time.time()
        print('    phases: wfcli %.1fs expat %.1fs xmllint %.1fs' % (tb - ta, tc - tb, td - tc), file=sys.stderr)
        for (kind, _), doc, o, e, x in zip(items, docs, ours, ex, xl):
            stats['total'] += 1
            stats['kind-' + kind] += 1
            stats['ours-' + o[0]] += 1
            if kind == 'wf':
                stats['wfgen-ours-' + o[0]] += 1
            if o[0] in ('U', 'O'):
                if o[0] == 'O':
                    stats['outside-' + o[1]] += 1
                continue
            ours_wf = o[0] == 'W'
            if ours_wf != (e == 'W'):
                why = explain_expat(doc, o, e)
                if why:
                    stats['expat-explained'] += 1
                    explained[why].append((doc, o, e))
                else:
                    stats['expat-UNEXPLAINED'] += 1
                    unexplained.append(('expat', doc, o, e))
            else:
                stats['expat-agree'] += 1
            if x is not None:
                if args.sample and (stats['total'] % args.sample) == 0:
                    rc, _ = xmllint_msg(args.work, doc)
                    stats['xmllint-binary-sampled'] += 1
                    if (rc == 0) != (x == 0):
                        stats['xmllint-binary-vs-library-MISMATCH'] += 1
                        print('BINARY/LIBRARY MISMATCH %r' % doc, file=sys.stderr)
                if ours_wf != (x == 0):
                    rc, msg = xmllint_msg(args.work, doc)
                    if (rc == 0) != (x == 0):
                        stats['xmllint-binary-vs-library-MISMATCH'] += 1
                        print('BINARY/LIBRARY MISMATCH %r' % doc, file=sys.stderr)
                    why = explain_xmllint(doc, o, rc, msg)
                    if why:
                        stats['xmllint-explained'] += 1
                        explained[why].append((doc, o, 'rc=%d %s' % (rc, msg)))
                    else:
                        stats['xmllint-UNEXPLAINED'] += 1
                        unexplained.append(('xmllint', doc, o, 'rc=%d %s' % (rc, msg)))
                else:
                    stats['xmllint-agree'] += 1

    fixed = [('nasty', d) for d in NASTY] + [('unit', d) for d in unit_test_inputs()]
    process(fixed)
    if args.charclasses:
        items = charclass_docs()
        for i in range(0, len(items), 200000):
            process(items[i:i + 200000])
            print('... charclasses %d/%d' % (i, len(items)), file=sys.stderr)
    if args.mutate_fixed:
        seeds = [d for _, d in fixed]
        per = (len(seeds) + 15) // 16
        chunks = pool.map(mutate_fixed_chunk, [(args.seed * 7919 + i, seeds[i * per:(i + 1) * per], args.mutate_fixed) for i in range(16)])
        items = [it for c in chunks for it in c]
        for i in range(0, len(items), 100000):
            process(items[i:i + 100000])
    if not args.nasty_only:
        done = 0
        seed = args.seed * 1000003
        while done < args.n:
            b = min(args.batch, args.n - done)
            per = (b + 15) // 16
            chunks = pool.map(gen_chunk, [(seed + i, per, args.dtd_heavy) for i in range(16)])
            seed += 16
            items = [it for c in chunks for it in c][:b]
            process(items)
            done += b
            print('... %d done, %.0fs, unexplained so far: %d' % (done, time.time() - t0, len(unexplained)), file=sys.stderr)

    print('== stats')
    for k in sorted(stats):
        print('%-40s %d' % (k, stats[k]))
    print('== explained deviations')
    for k in sorted(explained):
        doc, o, other = explained[k][0]
        print('%-40s %6d   e.g. %r  ours=%s other=%s' % (k, len(explained[k]), doc.decode('utf-8', 'replace')[:120], ' '.join(o[:3]), other))
    print('== UNEXPLAINED: %d' % len(unexplained))
    seen = collections.Counter()
    shown = 0
    for who, doc, o, other in sorted(unexplained, key=lambda t: len(t[1])):
        key = (who, o[0], o[1] if o[0] == 'I' else '', other[:40])
        seen[key] += 1
        if seen[key] <= 3 and shown < args.show:
            shown += 1
            print('%s ours=%s other=%s\n    %r' % (who, ' '.join(o[:4]), other, doc.decode('utf-8', 'replace')[:300]))
    print('== unexplained classes')
    for k, v in seen.most_common(60):
        print(v, k)
    if args.save:
        with open(args.save, 'a', encoding='utf-8', newline='\n') as f:
            for who, doc, o, other in unexplained:
                f.write('%s\t%s\t%s\t%r\n' % (who, ' '.join(o[:3]), other, doc.decode('utf-8', 'replace')))
    print('elapsed %.0fs' % (time.time() - t0))


if __name__ == '__main__':
    main()
