//! wfcli: run the recognizer over many inputs.
//!
//!   wfcli               read length-prefixed records (u32 LE length + bytes)
//!                       from stdin, print one verdict line per record
//!   wfcli --dir DIR     one verdict line per file in DIR (sorted by name)
//!   wfcli --bench       like the default mode but only print throughput
//!
//! Output lines:
//!   W <TAB> ns=0|1 <TAB> nsv=<violation|-> <TAB> doctype=.. decls=.. v10=.. nonascii=.. safe4=.. cr=.. n=.. depth=..
//!   I <TAB> rule <TAB> context <TAB> offset
//!   O <TAB> reason
//!   U                   (record is not valid UTF-8; not judged)

use std::io::{self, Read, Write};
use vp_wf::{check, Verdict};

fn line(v: &Verdict) -> String {
    match v {
        Verdict::WellFormed(i) => format!(
            "W\tns={}\tnsv={}\tdoctype={}\tdecls={}\tv10={}\tnonascii={}\tsafe4={}\tcr={}\tn={}\tdepth={}",
            i.ns_well_formed as u8,
            i.ns_violation.unwrap_or("-"),
            i.has_doctype as u8,
            i.has_internal_subset_decls as u8,
            i.version_is_1_0 as u8,
            i.has_non_ascii_name as u8,
            i.names_4th_edition_safe as u8,
            i.has_cr as u8,
            i.element_count,
            i.max_depth
        ),
        Verdict::IllFormed {
            rule,
            context,
            offset,
        } => format!("I\t{}\t{}\t{}", rule, context, offset),
        Verdict::OutsideProfile(w) => format!("O\t{}", w),
    }
}

fn main() -> io::Result<()> {
    let args: Vec<String> = std::env::args().collect();
    let stdout = io::stdout();
    let mut out = io::BufWriter::new(stdout.lock());
    if args.len() >= 3 && args[1] == "--dir" {
        let mut names: Vec<_> = std::fs::read_dir(&args[2])?
            .filter_map(|e| e.ok())
            .map(|e| e.path())
            .collect();
        names.sort();
        for p in names {
            let data = std::fs::read(&p)?;
            let l = match std::str::from_utf8(&data) {
                Ok(s) => line(&check(s)),
                Err(_) => "U".to_string(),
            };
            writeln!(out, "{}\t{}", p.display(), l)?;
        }
        return Ok(());
    }
    let bench = args.len() >= 2 && args[1] == "--bench";
    let mut data = Vec::new();
    io::stdin().lock().read_to_end(&mut data)?;
    let mut pos = 0usize;
    let mut n = 0usize;
    let mut bytes = 0usize;
    let t0 = std::time::Instant::now();
    while pos + 4 <= data.len() {
        let len = u32::from_le_bytes([data[pos], data[pos + 1], data[pos + 2], data[pos + 3]]) as usize;
        pos += 4;
        if pos + len > data.len() {
            break;
        }
        let rec = &data[pos..pos + len];
        pos += len;
        n += 1;
        bytes += len;
        match std::str::from_utf8(rec) {
            Ok(s) => {
                let v = check(s);
                if !bench {
                    writeln!(out, "{}", line(&v))?;
                }
            }
            Err(_) => {
                if !bench {
                    writeln!(out, "U")?;
                }
            }
        }
    }
    if bench {
        let dt = t0.elapsed().as_secs_f64();
        writeln!(
            out,
            "{} inputs, {} bytes, {:.3}s, {:.0} inputs/s, {:.1} MB/s",
            n,
            bytes,
            dt,
            n as f64 / dt,
            bytes as f64 / dt / 1e6
        )?;
    }
    Ok(())
}
