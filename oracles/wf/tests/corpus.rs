//! Regression corpus: every input on which vp-wf and expat 2.5.0 / libxml2
//! 2.13.9 were found to disagree during the differential campaign
//! (tools/xcheck.py), with the verdict established from the text of the
//! recommendation, plus inputs that exposed generator or oracle subtleties.
//! See NOTES.md for the reasoning behind each class.

use vp_wf::{check, Verdict};

#[derive(Debug, Clone, Copy)]
enum E {
    W,
    I(&'static str),
    O(&'static str),
}
use E::*;

const CORPUS: &[(&str, E, &str)] = &[
    // ---- expat deviations -------------------------------------------------
    ("<\u{10000}/>", W, "expat: 4th-edition name tables reject 5th-edition NameStartChar"),
    ("<\u{feff}a/>", W, "expat: U+FEFF is in [#xFDF0-#xFFFD], a 5th-edition NameStartChar"),
    ("<a\u{203f}/>", W, "expat: U+203F is a 5th-edition NameChar"),
    ("<!DOCTYPE a [<!ENTITY \u{4e2d}\u{6587} 'v'>]><a>&\u{4e2d}\u{6587};</a>", W, "ideographs are fine in both editions (control)"),
    ("<?xml version=\"2.0\"?><a/>", I("bad-xmldecl"), "expat: VersionNum not checked (accepts any [A-Za-z0-9_.:-]*)"),
    ("<?xml version=\"1.\"?><a/>", I("bad-xmldecl"), "expat + libxml2: accept '1.' ([26] needs a digit)"),
    ("<?xml version=\"1.0a\"?><a/>", I("bad-xmldecl"), "expat: VersionNum not checked"),
    ("<?xml version=\"\"?><a/>", I("bad-xmldecl"), "expat accepts an empty version"),
    ("<?xml version='1.1'?><a/>", W, "both accept 1.x (5th edition: processed as 1.0)"),
    ("<?xml version='1.1'?><a>&#1;</a>", I("charref-not-char"), "1.1 declared, still judged by 1.0 rules (all three agree)"),
    // ---- libxml2 deviations -----------------------------------------------
    ("<!DOCTYPEa><a/>", I("bad-doctype"), "libxml2: S after '<!DOCTYPE' not required"),
    ("<!DOCTYPEa [<!ENTITY e '%p;'>]><a/>", I("bad-doctype"), "libxml2: two leniencies combined"),
    ("<!DOCTYPE a>[]><a/>", I("text-in-prolog"), "libxml2: parses an internal subset after the '>' of the doctype"),
    ("<!DOCTYPE a >[<!ELEMENT a ANY>]><a/>", I("text-in-prolog"), "libxml2: same"),
    ("<!DOCTYPE a [<!ENTITY e \"%p;\">]><a/>", I("pe-in-internal-subset-markup"), "libxml2: undeclared PE ref in EntityValue is only a warning"),
    ("<!DOCTYPE a SYSTEM \"\" [<!ENTITY e '%p;v&apos>'>]><a/>", I("pe-in-internal-subset-markup"), "libxml2: ... and stops checking the rest of the literal"),
    ("<!DOCTYPE a [<!ENTITY e \"100%\">]><a/>", I("pe-in-internal-subset-markup"), "bare % in EntityValue (all agree)"),
    ("<!DOCTYPE a [<!ENTITY e SYSTEM \"x\" NDATA >]><a/>", I("bad-entity-decl"), "libxml2: missing notation name after NDATA tolerated"),
    ("<!DOCTYPE a [<!ENTITY e SYSTEM \"x#frag\">]><a/>", W, "libxml2: fragment in system id is fatal; spec says 'error', not a WF matter"),
    ("<!DOCTYPE a [<!ENTITY e SYSTEM '#'>]><a/>", W, "libxml2: same"),
    ("<!DOCTYPE a [<!NOTATION n SYSTEM 'x#f'>]><a/>", W, "control: libxml2 accepts fragments in NOTATION and DOCTYPE system ids"),
    ("<!DOCTYPE a SYSTEM \"x#frag\"><a/>", W, "control"),
    ("<a:b:c\r\n></a:b:c>", W, "libxml2 bug: non-QName element name followed by CRLF gives a bogus tag mismatch"),
    ("<:a\r\nx=\"1\"></:a>", W, "libxml2 bug: same"),
    ("<a:\r\n></a:>", W, "libxml2 bug: same"),
    ("<a:b:c\n></a:b:c>", W, "control: LF alone is fine in libxml2"),
    ("<!DOCTYPE a [<!ATTLIST a p:\u{10000} CDATA #IMPLIED>]><a/>", W, "libxml2: ATTLIST attribute QName checked with 4th-edition tables, fatal"),
    ("<!DOCTYPE a [<!ATTLIST a p:\u{fffd} CDATA #IMPLIED>]><a/>", W, "libxml2: same"),
    ("<!DOCTYPE a [<!ATTLIST aa p:1.0 CDATA #IMPLIED>]><a/>", W, "libxml2: 'p:1.0' is a Name; not a QName, but that is not a WF matter"),
    // ---- judgement calls (declined) ---------------------------------------
    ("<!DOCTYPE a [<!ENTITY e ']]>'>]><a x='&e;'/>", O("cdata-end-in-entity-used-in-attr"), "entity text !~ content, yet only included in a literal; both parsers accept"),
    ("<!DOCTYPE a [<!ENTITY e '&f;'><!ATTLIST a x CDATA '&e;'><!ENTITY f 'v'>]><a/>", O("indirect-undeclared-entity-in-attlist-default"), "both parsers reject; spec wording covers direct references only"),
    ("<!DOCTYPE a [<!ENTITY lt 'x'>]><a/>", O("predefined-entity-redeclared"), "4.6 MUST without WFC; both parsers accept (libxml2 warns)"),
    ("<!DOCTYPE a SYSTEM 'x'><a>&f;</a>", O("undeclared-entity-with-external-subset"), "not a WFC violation when an external subset exists"),
    // ---- agreed by all three, easy to get wrong -----------------------------
    ("<!DOCTYPE a [<!ENTITY e '&#38;#60;'>]><a>&e;</a>", W, "the spec's own declaration of lt"),
    ("<!DOCTYPE a [<!ENTITY e '&#60;'>]><a>&e;</a>", I("entity-content-not-wf"), "replacement text '<' does not match content"),
    ("<!DOCTYPE a [<!ENTITY e '&#60;'>]><a x='&e;'/>", I("lt-in-entity-used-in-attr"), ""),
    ("<!DOCTYPE a [<!ENTITY e '&#38;#60;'>]><a x='&e;'/>", W, ""),
    ("<!DOCTYPE a [<!ENTITY e '&#38;'>]><a x='&e;'/>", I("bare-amp"), ""),
    ("<!DOCTYPE a [<!ENTITY e '<'><!ATTLIST a x CDATA '&e;'>]><a/>", I("lt-in-entity-used-in-attr"), "defaults are checked at declaration time by both parsers"),
    ("<!DOCTYPE a [<!ATTLIST a x CDATA '&e;'><!ENTITY e 'v'>]><a/>", I("undeclared-entity"), ""),
    ("<!DOCTYPE a [<!ENTITY e '&e;'><!ATTLIST a x CDATA '&e;'>]><a/>", I("entity-recursion"), ""),
    ("<!DOCTYPE a [<!ENTITY e SYSTEM 'x'><!ATTLIST a x CDATA '&e;'>]><a/>", I("external-entity-in-attr"), ""),
    ("<!DOCTYPE a [<!ENTITY e '&e;'>]><a/>", W, "recursive but never referenced"),
    ("<!DOCTYPE a [<!ENTITY e '<b>'>]><a>&e;</b></a>", I("entity-content-not-wf"), ""),
    ("<!DOCTYPE a [<!ENTITY e \"<?xml version='1.0'?>\">]><a>&e;</a>", I("xmldecl-not-first"), "no text declaration in internal entities"),
    ("<!DOCTYPE a [<!ENTITY e '>'>]><a>]]&e;</a>", W, "]]> across an entity boundary"),
    ("<?xml version='1.0' standalone='yes'?><!DOCTYPE a SYSTEM 'x'><a>&f;</a>", I("undeclared-entity"), ""),
    ("<a>\u{85}\u{2028}\u{7f}</a>", W, "C1 controls and LS are Chars in 1.0"),
    ("<a/>\u{feff}", I("content-after-root"), ""),
    ("\u{feff}\u{feff}<a/>", I("text-in-prolog"), "only one BOM is skipped"),
    ("<!DOCTYPE a [<!ELEMENT a (#PCDATA)*>]><a/>", W, ""),
    ("<!DOCTYPE a [<!ELEMENT a (#PCDATA|b)>]><a/>", I("bad-element-decl"), ""),
    ("<!DOCTYPE a [<!ATTLIST a x (a|b)'a'>]><a/>", I("bad-attlist-decl"), ""),
    ("<!DOCTYPE a [<!NOTATION n PUBLIC 'p'>]><a/>", W, ""),
    ("<!DOCTYPE a PUBLIC 'p'><a/>", I("bad-doctype"), ""),
];

#[test]
fn corpus() {
    let mut fails = Vec::new();
    for (input, exp, note) in CORPUS {
        let v = check(input);
        let ok = match (&v, exp) {
            (Verdict::WellFormed(_), W) => true,
            (Verdict::IllFormed { rule, .. }, I(r)) => rule == r,
            (Verdict::OutsideProfile(w), O(r)) => w == r,
            _ => false,
        };
        if !ok {
            fails.push(format!("{:?} [{}]: expected {:?}, got {:?}", input, note, exp, v));
        }
    }
    assert!(fails.is_empty(), "\n{}", fails.join("\n"));
}

#[test]
fn rule_lists_are_consistent() {
    for (input, exp, _) in CORPUS {
        match (check(input), exp) {
            (Verdict::IllFormed { rule, .. }, _) => assert!(vp_wf::RULES.contains(&rule), "{}", rule),
            (Verdict::OutsideProfile(w), _) => assert!(vp_wf::OUTSIDE_REASONS.contains(&w), "{}", w),
            _ => {}
        }
    }
    let mut r: Vec<_> = vp_wf::RULES.to_vec();
    r.sort();
    r.dedup();
    assert_eq!(r.len(), vp_wf::RULES.len());
}
