#!/usr/bin/env python3
"""Regenerates MANIFEST.json from the table below (kept in one place so the manifest is always valid)."""
import json, sys
CLAIMED = {
 # id: (technique, level text, level note, design ref)
 "C18": ("exhaustive enumeration of all Unicode scalar values against independent interval tables + property-based testing (proptest) of names over class representatives",
         "the five character-class predicates are compared with independently transcribed tables for every Unicode scalar value (complete for that part); name syntax is enumerated for all strings up to length 2/3 over class representatives and sampled beyond with proptest; a green run of the second part means no counter-example among the generated names",
         "trusted: the interval tables in harness/src/oracle/chars.rs; acceptance observed via XmlDocument::from_raw; colon-containing PI targets/entity names not judged",
         "DESIGN.md section 5, C18"),
 "C01": ("property-based testing (proptest): grammar-directed abstract documents rendered with random surface choices, compared with a by-construction expected infoset; metamorphic over renderings",
         "generated search: every rendering of a generated abstract document must be accepted completely and the canonical tree (raw and merged-text view) and info-level document properties must equal the expectation the renderer derives from the abstract document; green = no counter-example among the generated documents of the measured feature distribution",
         "trusted: the harness's own implementation of entity expansion, attribute-value normalisation/defaulting and namespace resolution (gen/adoc.rs); profile restrictions listed in evidence.assumptions; known findings are attributed through feature labels of the generated document",
         "DESIGN.md section 5, C01"),
 "C04": ("property-based testing (proptest): print/parse round trip and printer fixpoint over generated documents",
         "generated search with a round-trip oracle: to_string() of every accepted generated document must re-parse completely to an equal document (canonical tree, document properties, library PartialEq) and print identically again",
         "trusted: canonical extraction through public DOM accessors; ELEMENT declarations and DTD comments are not required to survive",
         "DESIGN.md section 5, C04"),
 "C12": ("stateful property-based testing (proptest): generated DOM edit histories over a pool of live nodes with tree invariants checked after every step",
         "generated search over edit histories: after every call (successful, failing or panicking) the navigation views of every document and every detached subtree must agree (parent/child/sibling/first/last consistency, no node twice, bounded depth, removed node has no parent, one document element/doctype); worker aborts and hangs are verdicts",
         "trusted: node identity = (XmlNode::id, kind); operand shapes excluded by construction are counted in evidence.coverage.labels (excluded:*)",
         "DESIGN.md section 5, C12"),
 "C16": ("stateful property-based testing (proptest): generated character-data call histories compared with a Vec<char> reference model",
         "generated search: after every CharacterData/Text call the result class, returned string, data() and length() must equal a Vec<char> model implementing the DOM Level 1 rules; offsets/counts include 0..=11 and usize::MAX, contents include astral and combining characters",
         "trusted: the Vec<char> model in props/c16.rs; parentless split_text may fail or split (DOM Level 1 does not say)",
         "DESIGN.md section 5, C16"),
 "C15": ("stateful property-based testing (proptest): generated edit histories with markup-significant strings; print/parse round trip after every successful call",
         "generated search: after every call that reports success each document's serialisation must parse completely and denote the merged canonical tree the live DOM reports; string arguments contain the markup-significant characters so that forbidden sequences arise from combinations of harmless edits",
         "trusted: canonical extraction; a panic of a factory counts as refusal (C13 judges panics); histories end when a refused call changed a document (C13's subject) or the DOCTYPE/document element is taken away",
         "DESIGN.md section 5, C15"),
 "C02": ("property-based testing (proptest): token-level and character-level mutants of generated well-formed documents judged by an independent reference recognizer (differentially validated against expat and libxml2); violations confirmed with pyexpat/xmllint",
         "generated search: every mutant the reference recognizer vp-wf classifies as ill-formed must be answered with Err or a non-empty rest by from_raw and from_raw_with_context; 31 rule-directed mutators plus character edits; candidate violations are shown to pyexpat/xmllint before being reported",
         "trusted: the recognizer oracles/wf (std-only Rust, written from the XML 1.0 5th Ed. text, 10M-input differential campaign against expat and libxml2 recorded in oracles/wf/NOTES.md); inputs outside its profile are discarded and counted",
         "DESIGN.md section 5, C02"),
 "C03": ("fuzzing-style generated search in crash-isolated worker processes (proptest token soup, mutants, well-formed documents) plus sized adversarial families under a per-case CPU budget",
         "generated search for panics, aborts, hangs and blow-ups of parse + infoset construction + compact and pretty printing in both views; every case is announced to the parent before it runs so that a worker death or an exhausted CPU budget is attributed to it; adversarial shape families report CPU time per size",
         "trusted: the worker/parent crash attribution in harness/src/engine; CPU-time thresholds cannot prove polynomial behaviour",
         "DESIGN.md section 5, C03"),
 "C14": ("stateful property-based testing (proptest): generated edit histories; order-key invariant over a pre-order walk and differential XPath queries against a re-parse of the serialisation",
         "generated search: after every successful edit the order keys along a pre-order walk must be non-zero, distinct and increasing, and a battery of 24 node-set queries must select the same nodes in the same order on the edited document as on from_raw(document.to_string())",
         "trusted: path-based node identification across the two documents; comparison only where the live view and the re-parsed view coincide (no adjacent/empty text nodes); DTD-defaulted attributes carry no key",
         "DESIGN.md section 5, C14"),
 "C13": ("stateful property-based testing (proptest): every call of a generated edit history is compared with a DOM Level 1 reference semantics applied to a snapshot of the pre-state (single-step differential, model re-synchronised each step)",
         "generated search: for every mutator call the outcome must be admissible under DOM Level 1 computed from a snapshot of all reachable nodes: success with exactly the specified post-state, or one of the specified exception classes with the pre-state unchanged (atomic failure); panics are never admissible",
         "trusted: the DOM Level 1 reference semantics in props/c13.rs (hierarchy rules, exception conditions, character-data arithmetic); corners DOM Level 1 leaves open are not judged and counted (unspecified:*)",
         "DESIGN.md section 5, C13"),
 "C05": ("property-based differential testing (proptest): generated documents x typed expression ASTs evaluated by an independent reference XPath 1.0 evaluator (validated against libxml2) and by the library",
         "generated search: the value the library returns for a generated (document, expression, bindings) must equal the value of the reference evaluator vp-xref: node-sets as index vectors through a parallel walk (order and duplicates count), numbers bit-exactly, strings and booleans exactly",
         "trusted: oracles/xref (std-only Rust written from the XPath 1.0 text; 6M-case differential campaign against libxml2 recorded in oracles/xref/NOTES.md); namespace nodes compared as multisets; constructs with an open finding are excluded by construction and counted",
         "DESIGN.md section 5, C05"),
 "C09": ("property-based differential testing (proptest): scalar-only expressions over boundary-value pools against the reference evaluator's scalar library",
         "generated search: every core string/number/boolean function, arithmetic, unary minus and all comparisons over pools of boundary strings and numbers must give the reference evaluator's value (numbers bit-exactly; sign of zero observed through 1 div x)",
         "trusted: oracles/xref scalar library; evaluations that convert a negative zero to a string are excluded while that finding is open",
         "DESIGN.md section 5, C09"),
}
ALL = ["C%02d" % i for i in range(1, 20)]
PENDING_REASON = "check not built yet in this snapshot of /verif (work in progress; DESIGN.md section 5 describes the planned generated-search check)"
m = {
 "version": 1,
 "setup_cmd": "./check --build",
 "hooks": {
   "guard": "xml_rs_verif",
   "enable": "no hooks are needed: every observation point is public API or a process boundary; checks build /repo's crates as path dependencies of /verif/harness",
   "baseline_off_cmd": "cd /repo && cargo test --workspace --no-fail-fast --offline",
   "source_commits": [],
   "add_only": True,
 },
 "engines": [{"name": "vp", "path": "harness", "serves_properties": sorted(CLAIMED), "kind_free_text": "Rust harness: proptest strategies -> JSON cases -> oracle comparison; 16 worker processes with crash/CPU isolation; known-findings file; replay"}],
 "checks": [],
 "not_applicable": [],
 "notes": "exit 0 = held on everything explored (KNOWN-FINDING lines allowed), 1 = VIOLATION line(s), 2 = inconclusive/infrastructure. Known findings: KNOWN_FINDINGS.txt.",
}
for pid in ALL:
    if pid in CLAIMED:
        tech, text, note, ref = CLAIMED[pid]
        m["checks"].append({
          "property_id": pid,
          "quick_cmd": f"./check {pid} quick",
          "thorough_cmd": f"./check {pid} thorough",
          "evidence_file": f"/verif/evidence/{pid}.json",
          "replay_cmd_template": f"./check {pid} --replay {{path}}",
          "engine": "vp",
          "level_claimed": {"category": "exploration", "text": text, "design_ref": ref},
          "level_note": note,
          "technique": tech,
        })
    else:
        m["not_applicable"].append({"property_id": pid, "reason": PENDING_REASON})
json.dump(m, open("/verif/MANIFEST.json", "w"), indent=1)
print("claimed:", sorted(CLAIMED))
