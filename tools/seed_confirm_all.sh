#!/bin/bash
# tools/seed_confirm_all.sh   official protocol: for every seeded change, git -C /repo apply, run the detecting check's
# quick tier from /verif itself, git checkout. Writes seeded/DETECTION.log. Evidence files are rewritten by these runs,
# so run every quick check once more on the clean tree afterwards (done at the end).
cd /verif
: > seeded/DETECTION.log
for d in seeded/C*-m*; do
  C=$(jq -r '.detected_by.check' $d/meta.json)
  echo "== $(basename $d)" >> seeded/DETECTION.log
  tools/seed_run.sh /verif/$d/patch.diff quick $C >> seeded/DETECTION.log 2>&1
  git -C /repo status --porcelain | grep -q . && { echo "REPO NOT CLEAN after $d" >> seeded/DETECTION.log; git -C /repo checkout -- .; }
done
echo "== clean tree" >> seeded/DETECTION.log
for i in 01 02 03 04 05 06 07 08 09 10 11 12 13 14 15 16 17 18 19; do ./check C$i quick 2>&1 | tail -1 >> seeded/DETECTION.log; done
echo finished >> seeded/DETECTION.log
