#!/bin/bash
# tools/seed_confirm_all.sh [pattern]   the official protocol for every seeded change (or those matching pattern):
#   git -C /repo apply <patch>; ./check <detecting check> quick (from /verif itself, which rebuilds against /repo);
#   git -C /repo checkout -- .     Writes seeded/DETECTION.log.
# Evidence files are rewritten by these runs, so all 19 quick checks are run once more on the clean tree at the end.
# Do not edit /verif/harness or /repo while this runs.
cd /verif
PAT="${1:-C}"
: > seeded/DETECTION.log
[ -z "$(git -C /repo status --porcelain)" ] || { echo "/repo is not clean" | tee -a seeded/DETECTION.log; exit 2; }
for d in seeded/${PAT}*-m*; do
  [ -f "$d/patch.diff" ] || continue
  C=$(jq -r '.detected_by.check' $d/meta.json)
  git -C /repo apply "/verif/$d/patch.diff" || { echo "$(basename $d) patch does not apply" >> seeded/DETECTION.log; continue; }
  OUT=$(./check "$C" quick 2>&1); RC=$?
  git -C /repo checkout -- .
  KEYS=$(echo "$OUT" | grep -o "^  key=[^ ]*" | sed 's/  key=//' | sort -u | head -4 | tr '\n' ' ')
  echo "$(basename $d) $C quick exit=$RC keys=${KEYS:--} :: $(echo "$OUT" | grep -E "^$C quick:|INCONCLUSIVE" | head -1 | cut -c1-140)" >> seeded/DETECTION.log
done
echo "== clean tree ($(git -C /repo rev-parse --short HEAD))" >> seeded/DETECTION.log
for i in 01 02 03 04 05 06 07 08 09 10 11 12 13 14 15 16 17 18 19; do ./check C$i quick 2>&1 | tail -1 >> seeded/DETECTION.log; done
echo finished >> seeded/DETECTION.log
