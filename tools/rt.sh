#!/bin/bash
# run the repository's test suite, print a summary
cd /repo && cargo test --workspace --no-fail-fast --offline 2>&1 | grep -E "^test result: (ok|FAILED)\. [1-9]|FAILED|^error|panicked at" | head -${1:-12}
