#!/bin/bash
# tools/seed_detect.sh ID TIER [CHECK_ID...]
# Runs checks against the seeded changes of one property *without touching /repo*: a snapshot of the
# committed+working /verif (sources only) is placed in /tmp/vs/<ID> with its path dependencies pointing at the
# scratch worktree /tmp/seed/<ID>; each out/m*/patch.diff is applied there in turn.
# Output lines: "<ID>/<mN> <CHECK> <tier> exit=<rc> keys=<violation keys>"
set -u
ID="$1"; TIER="$2"; shift 2
CHECKS="${*:-$ID}"
WT=/tmp/seed/$ID
VS=/tmp/vs/$ID
mkdir -p /tmp/vs
rsync -a --delete --exclude target --exclude work --exclude replays --exclude .git --exclude seeded /verif/ "$VS/"
sed -i "s#/repo/#$WT/#g" "$VS/harness/Cargo.toml"
sed -i "s#cd /repo #cd $WT #g" "$VS/check"
sed -i "s#/verif/target#$VS/target#g" "$VS/harness/.cargo/config.toml"
git -C "$WT" checkout -q -- . ; git -C "$WT" checkout -q --detach "$(git -C /repo rev-parse HEAD)" 2>/dev/null
for MD in "$WT"/out/m*; do
  M=$(basename "$MD")
  if [ -n "${ONLY:-}" ] && ! echo " $ONLY " | grep -q " $M "; then continue; fi
  git -C "$WT" checkout -q -- .
  git -C "$WT" apply "$MD/patch.diff" || { echo "$ID/$M patch-does-not-apply-on-current-HEAD"; continue; }
  for C in $CHECKS; do
    OUT=$(cd "$VS" && timeout 7200 ./check "$C" "$TIER" 2>&1); RC=$?
    KEYS=$(echo "$OUT" | grep -o "^  key=[^ ]*" | sed 's/  key=//' | sort -u | head -6 | tr '\n' ' ')
    echo "$ID/$M $C $TIER exit=$RC keys=${KEYS:--} :: $(echo "$OUT" | grep -E '^C[0-9]+ (quick|thorough):|INCONCLUSIVE' | head -2 | tr '\n' ' ' | cut -c1-160)"
    mkdir -p /verif/work/seedlogs; echo "$OUT" > /verif/work/seedlogs/$ID-$M-$C-$TIER.log
  done
  git -C "$WT" checkout -q -- .
done
