#!/bin/bash
# tools/fuzz.sh TARGET SECONDS [JOBS]     coverage-guided campaign (libFuzzer through cargo-fuzz), oracle inside the target
#   TARGET: c02_illformed | c03_total | c04_roundtrip | c06_xpath
# The corpus is seeded from the generators of the proptest tier (vcheck --emit-corpus) and lives in fuzz/corpus/<target>
# (git-ignored). Every artifact is converted to a replay file and judged by ./check <ID> --replay (strict), so a
# crash that is an open known finding is told apart from a new one. Exit 0 = no new violation, 1 = VIOLATION lines.
set -u
ROOT="$(cd "$(dirname "${BASH_SOURCE[0]}")/.." && pwd)"
T="${1:?target}"; SECS="${2:-60}"; JOBS="${3:-8}"
export CARGO_NET_OFFLINE=true VERIF_ROOT="$ROOT"
case "$T" in c02_illformed) ID=C02; DICT=xml;; c03_total) ID=C03; DICT=xml;; c04_roundtrip) ID=C04; DICT=xml;; c06_xpath) ID=C06; DICT=xpath;; *) echo "unknown target"; exit 2;; esac
cd "$ROOT" && ./check --build >/dev/null || exit 2
CORPUS="$ROOT/fuzz/corpus/$T"; ART="$ROOT/fuzz/artifacts/$T"; mkdir -p "$CORPUS" "$ART"
[ -n "$(ls -A "$CORPUS" 2>/dev/null)" ] || "$ROOT/target/release/vcheck" --emit-corpus "$T" "$CORPUS" 300 >/dev/null
cd "$ROOT/harness" && cargo +nightly fuzz build --fuzz-dir "$ROOT/fuzz" -s none "$T" >"$ROOT/work/fuzz-build.log" 2>&1 || { echo "INCONCLUSIVE: fuzz build failed"; tail -20 "$ROOT/work/fuzz-build.log"; exit 2; }
cargo +nightly fuzz run --fuzz-dir "$ROOT/fuzz" -s none "$T" "$CORPUS" -- -seed="${VERIF_SEED:-20260921}" -max_total_time="$SECS" -max_len=2048 -len_control=0 -timeout=20 -rss_limit_mb=4096 \
   -dict="$ROOT/fuzz/dict/$DICT.dict" -fork="$JOBS" -ignore_crashes=1 -ignore_timeouts=1 -ignore_ooms=1 -artifact_prefix="$ART/" >"$ROOT/work/fuzz-$T.log" 2>&1
grep -E "^#[0-9]+: cov:|DONE|exec/s" "$ROOT/work/fuzz-$T.log" | tail -2
RC=0
for f in "$ART"/*; do
  [ -f "$f" ] || continue
  R="$ROOT/work/fuzz-case-$(basename "$f").json"
  "$ROOT/target/release/vcheck" --artifact-to-case "$T" "$f" "$R" || continue
  OUT=$("$ROOT/check" "$ID" --replay "$R" 2>&1)
  if echo "$OUT" | grep -q "^VIOLATION"; then
     echo "$OUT" | grep -A1 "^VIOLATION"; mkdir -p "$ROOT/regress/$ID"; cp "$R" "$ROOT/regress/$ID/fuzz-$(basename "$f" | cut -c1-24).json"; RC=1
  elif echo "$OUT" | grep -q "^KNOWN-FINDING"; then
     echo "$OUT" | grep "^KNOWN-FINDING" | cut -c1-160
  fi
done
exit $RC
