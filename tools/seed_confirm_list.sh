#!/bin/bash
# tools/seed_confirm_list.sh "C14-m1 C12-m8 ..."   the official protocol for the named seeded changes only (appended to
# seeded/DETECTION.log); afterwards the quick checks of the properties involved run on the clean tree (evidence from it)
cd /verif
[ -z "$(git -C /repo status --porcelain)" ] || { echo "/repo is not clean"; exit 2; }
echo "== official protocol, list: $1, repo $(git -C /repo rev-parse --short HEAD), verif $(git rev-parse --short HEAD) ==" >> seeded/DETECTION.log
PROPS=""
for N in $1; do
  d=seeded/$N
  C=$(jq -r '.detected_by.check' $d/meta.json)
  git -C /repo apply "/verif/$d/patch.diff" || { echo "$N patch does not apply" >> seeded/DETECTION.log; continue; }
  OUT=$(./check "$C" quick 2>&1); RC=$?
  git -C /repo checkout -- .
  KEYS=$(echo "$OUT" | grep -o "^  key=[^ ]*" | sed 's/  key=//' | sort -u | head -4 | tr '\n' ' ')
  echo "$N $C quick exit=$RC keys=${KEYS:--} :: $(echo "$OUT" | grep -E "^$C quick:|INCONCLUSIVE" | head -1 | cut -c1-140)" >> seeded/DETECTION.log
  echo " $PROPS " | grep -q " $C " || PROPS="$PROPS $C"
done
echo "== clean tree ($(git -C /repo rev-parse --short HEAD))" >> seeded/DETECTION.log
for C in $PROPS; do ./check $C quick 2>&1 | tail -1 >> seeded/DETECTION.log; done
echo "finished list" >> seeded/DETECTION.log
