#!/bin/bash
# tools/seed_round2.sh ID...   validate out/m3,m4 of each /tmp/seed/<ID>, then measure detection in a snapshot (quick tier)
export ONLY="m3 m4"
for ID in "$@"; do
  /verif/tools/seed_validate_all.py $ID 2>&1 | sed 's#/tmp/seed/##'
  /verif/tools/seed_detect.sh $ID quick 2>&1
done
