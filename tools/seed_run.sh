#!/bin/bash
# tools/seed_run.sh PATCH TIER ID...   apply a seeded change to /repo, run the named checks, undo it.
# Prints one line per check: "<ID> <tier> exit=<n> <first VIOLATION key or ->".
set -u
P="$1"; TIER="$2"; shift 2
cd /repo || exit 2
[ -z "$(git status --porcelain)" ] || { echo "/repo is not clean"; exit 2; }
git apply "$P" || { echo "patch does not apply"; exit 2; }
trap 'git -C /repo checkout -q -- .; ' EXIT
for ID in "$@"; do
  OUT=$(cd /verif && timeout 3600 ./check "$ID" "$TIER" 2>&1); RC=$?
  KEY=$(echo "$OUT" | grep -A1 "^VIOLATION" | grep -o "key=[^ ]*" | head -3 | tr '\n' ' ')
  echo "$ID $TIER exit=$RC ${KEY:--} $(echo "$OUT" | grep -c '^VIOLATION') violation line(s); $(echo "$OUT" | tail -1 | cut -c1-100)"
done
