#!/bin/bash
# tools/seed_confirm_some.sh "m8 m7 ..." [noclean]  the official protocol (as seed_confirm_all.sh) for the seeded changes
# of the named rounds only, appended to seeded/DETECTION.log; unless "noclean" is given, all 19 quick checks are then run
# on the clean tree (which regenerates the evidence files from it). Do not edit /verif/harness or /repo while this runs.
cd /verif
[ -z "$(git -C /repo status --porcelain)" ] || { echo "/repo is not clean" | tee -a seeded/DETECTION.log; exit 2; }
echo "== official protocol, rounds: $1, repo $(git -C /repo rev-parse --short HEAD), verif $(git rev-parse --short HEAD) ==" >> seeded/DETECTION.log
for M in $1; do
  for d in seeded/C*-$M; do
    [ -f "$d/patch.diff" ] || continue
    C=$(jq -r '.detected_by.check' $d/meta.json)
    [ "$C" = "none" ] && { echo "$(basename $d) not detected by the quick tier (see meta.json)" >> seeded/DETECTION.log; continue; }
    git -C /repo apply "/verif/$d/patch.diff" || { echo "$(basename $d) patch does not apply" >> seeded/DETECTION.log; continue; }
    OUT=$(./check "$C" quick 2>&1); RC=$?
    git -C /repo checkout -- .
    KEYS=$(echo "$OUT" | grep -o "^  key=[^ ]*" | sed 's/  key=//' | sort -u | head -4 | tr '\n' ' ')
    echo "$(basename $d) $C quick exit=$RC keys=${KEYS:--} :: $(echo "$OUT" | grep -E "^$C quick:|INCONCLUSIVE" | head -1 | cut -c1-140)" >> seeded/DETECTION.log
  done
done
if [ "${2:-}" != "noclean" ]; then
  echo "== clean tree ($(git -C /repo rev-parse --short HEAD))" >> seeded/DETECTION.log
  for i in 01 02 03 04 05 06 07 08 09 10 11 12 13 14 15 16 17 18 19; do ./check C$i quick 2>&1 | tail -1 >> seeded/DETECTION.log; done
fi
echo "finished $1" >> seeded/DETECTION.log
