#!/bin/bash
# tools/seed_round7.sh ID   validate /tmp/seed/<ID>/out/m9 (destination and command from the agent's meta.json), then measure
# detection by the quick tier in a snapshot (seed_detect.sh); log in work/seedlogs/r7-<ID>.log
ID="$1"; WT=/tmp/seed/$ID; MD=$WT/out/m9
DEST=$(python3 -c "import json;print(json.load(open('$MD/meta.json'))['demo_dest'])")
CMD=$(python3 -c "import json;print(json.load(open('$MD/meta.json'))['demo_cmd'])")
mkdir -p /verif/work/seedlogs
{
  echo "== $ID m9 dest=$DEST cmd=$CMD"
  /verif/tools/seed_validate.sh "$WT" "$MD" "$DEST" "$CMD" 2>&1 | tail -5
  ONLY=m9 /verif/tools/seed_detect.sh "$ID" quick 2>&1
} > /verif/work/seedlogs/r7-$ID.log 2>&1
