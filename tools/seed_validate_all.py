#!/usr/bin/env python3
# tools/seed_validate_all.py ID...   validate out/m1, out/m2 of /tmp/seed/<ID> with seed_validate.sh (parallel per worktree)
import re, subprocess, sys, os, glob, concurrent.futures as cf
def one(wt):
    res=[]
    only=os.environ.get('ONLY','').split()
    for md in sorted(glob.glob(wt+'/out/m*')):
        if only and os.path.basename(md) not in only: continue
        demos=glob.glob(md+'/demo.*')
        if not demos or not os.path.exists(md+'/patch.diff'):
            res.append((md,'incomplete')); continue
        demo=demos[0]
        head=open(demo).read().split('\n')[:6]
        if demo.endswith('.sh'):
            dest='out/_demo_run.sh'
            cmd='cargo build --offline --release --examples -p xml-xpath >/dev/null 2>&1 && BIN=target/release/examples sh out/_demo_run.sh'
        else:
            m=re.search(r'(\S+/tests/\S+\.rs)', ' '.join(head)); c=re.search(r'(cargo test [^\n]*--offline)', ' '.join(head))
            if not m or not c: res.append((md,'cannot-parse-header')); continue
            dest=m.group(1); cmd=c.group(1)
        p=subprocess.run(['/verif/tools/seed_validate.sh',wt,md,dest,cmd],capture_output=True,text=True)
        res.append((md,p.stdout.strip().replace('\n',' | ')[-230:]))
    return res
ids=sys.argv[1:]
with cf.ThreadPoolExecutor(max_workers=6) as ex:
    for r in ex.map(one,['/tmp/seed/'+i for i in ids]):
        for md,out in r: print(md,'::',out,flush=True)
