#!/bin/bash
# tools/seed_validate.sh WORKTREE MUTDIR DEMO_DEST "DEMO_CMD"
# Confirms a seeded change in a scratch worktree: (1) with the patch the whole suite passes,
# (2) with the patch the demonstration fails, (3) without the patch the demonstration passes.
# DEMO_DEST is relative to the worktree (e.g. dom/tests/demo_m1.rs); DEMO_CMD runs inside the worktree.
set -u
WT="$1"; MD="$2"; DEST="$3"; CMD="$4"
export CARGO_NET_OFFLINE=true
cd "$WT" || exit 2
git checkout -q -- . || exit 2
git clean -fdq -e out -e target   # demo copies left behind by earlier runs would be counted as tests
DEMO=$(ls "$MD"/demo.* | head -1)
git apply --check "$MD/patch.diff" || { echo "RESULT patch-does-not-apply"; exit 1; }
git apply "$MD/patch.diff"
echo "patched files: $(git diff --name-only | tr '\n' ' ')"
if git diff --name-only | grep -qE '(^|/)tests/|_test\.rs'; then echo "WARNING: patch touches tests"; fi
T=$(cargo test --workspace --no-fail-fast --offline 2>&1 | grep "^test result" | awk '{p+=$4; f+=$6} END{print p" "f}')
echo "suite with patch: passed/failed = $T"
mkdir -p "$(dirname "$DEST")"; cp "$DEMO" "$DEST"
( eval "$CMD" ) >"$WT/out/_with.log" 2>&1; W=$?
git checkout -q -- .
( eval "$CMD" ) >"$WT/out/_without.log" 2>&1; WO=$?
rm -f "$DEST"
echo "demo exit with patch: $W (must be non-zero); without patch: $WO (must be 0)"
if [ "$T" = "603 0" ] && [ $W -ne 0 ] && [ $WO -eq 0 ]; then echo "RESULT valid"; else echo "RESULT INVALID"; fi
